// vcheck: driver for the solver-based checks of bytedance/sonic.
//
//	vcheck -prop C18 -tier quick|thorough [-harness substr] [-v]
//	vcheck -replay <file.json>
package main

import (
	"encoding/json"
	"flag"
	"fmt"
	"os"
	"os/exec"
	"path/filepath"
	"sort"
	"strconv"
	"strings"
	"time"

	"verif/engine/gosym"
)

var (
	verifDir = envOr("VERIF_DIR", "/verif")
	repoDir  = envOr("VERIF_REPO", "/repo")
)

func envOr(k, d string) string {
	if v := os.Getenv(k); v != "" {
		return v
	}
	return d
}

func main() {
	prop := flag.String("prop", "", "property id (C01..C20)")
	tier := flag.String("tier", envOr("VERIF_TIER", "quick"), "quick|thorough")
	only := flag.String("harness", "", "run only harnesses whose name contains this")
	verbose := flag.Bool("v", false, "verbose")
	replay := flag.String("replay", "", "replay a recorded counterexample file")
	workers := flag.Int("workers", 16, "worker goroutines")
	noReplay := flag.Bool("noreplay", false, "do not replay counterexamples (debug)")
	solverLog := flag.String("solverlog", "", "write the SMT-LIB transcript of worker 0 here")
	maxWall := flag.Int("maxwall", 3000, "wall-clock cap in seconds for the whole run (0 = none); reaching it exits 2")
	flag.Parse()

	if *replay != "" {
		os.Exit(doReplayFile(*replay, *verbose))
	}
	if *prop == "" {
		fmt.Fprintln(os.Stderr, "usage: vcheck -prop Cxx -tier quick|thorough")
		os.Exit(2)
	}
	seed, _ := strconv.Atoi(os.Getenv("VERIF_SEED"))
	// wall-clock cap: an exploration that does not end (e.g. the code under test spins and every
	// iteration forks) ends the run as a broken check (exit 2) - never as a pass, never as a hang
	if *maxWall > 0 {
		time.AfterFunc(time.Duration(*maxWall)*time.Second, func() {
			fmt.Printf("  INCOMPLETE %s: wall-clock cap of %d s reached before the exploration ended; nothing is claimed\n", *prop, *maxWall)
			os.Exit(2)
		})
	}
	os.Exit(runProperty(*prop, *tier, *only, seed, *workers, *verbose, *noReplay, *solverLog))
}

type Evidence struct {
	PropertyID  string                 `json:"property_id"`
	Tier        string                 `json:"tier"`
	Seed        int                    `json:"seed"`
	Level       string                 `json:"level"`
	Coverage    map[string]interface{} `json:"coverage"`
	Assumptions []string               `json:"assumptions"`
	WallS       float64                `json:"wall_s"`
	Violations  int                    `json:"violations"`
}

func loadKnown() []gosym.KnownFinding {
	b, err := os.ReadFile(filepath.Join(verifDir, "known_findings.json"))
	if err != nil {
		return nil
	}
	var f struct {
		Findings []gosym.KnownFinding `json:"findings"`
	}
	if err := json.Unmarshal(b, &f); err != nil {
		fmt.Fprintln(os.Stderr, "known_findings.json:", err)
		os.Exit(2)
	}
	return f.Findings
}

// buildOverlay maps harness sources into the repo tree.
func buildOverlay() (map[string][]byte, map[string]string, error) {
	ov := map[string][]byte{}
	files := map[string]string{} // virtual -> real
	root := filepath.Join(verifDir, "harness")
	err := filepath.Walk(root, func(p string, info os.FileInfo, err error) error {
		if err != nil || info.IsDir() || !strings.HasSuffix(p, ".go") {
			return err
		}
		rel, _ := filepath.Rel(root, p)
		dir, base := filepath.Split(rel)
		dir = strings.TrimSuffix(dir, "/")
		if dir == "root" {
			dir = ""
		} else if strings.HasPrefix(dir, "root/") {
			dir = dir[5:]
		}
		virt := filepath.Join(repoDir, dir, "zz_verif_"+base)
		b, err := os.ReadFile(p)
		if err != nil {
			return err
		}
		ov[virt] = b
		files[virt] = p
		return nil
	})
	return ov, files, err
}

func runProperty(prop, tier, only string, seed, workers int, verbose, noReplay bool, solverLog string) int {
	t0 := time.Now()
	specs := harnessesFor(prop, tier)
	if only != "" {
		var f []HarnessSpec
		for _, s := range specs {
			if strings.Contains(s.Func+":"+s.Asm+":"+s.T3+":"+s.X86, only) {
				f = append(f, s)
			}
		}
		specs = f
	}
	if len(specs) == 0 {
		fmt.Fprintf(os.Stderr, "no harness registered for %s (%s)\n", prop, tier)
		return 2
	}
	known := loadKnown()
	var propKnown []gosym.KnownFinding
	// findings are matched by harness/site, not by property: a harness registered under two
	// properties must not turn a known finding of one into an alarm of the other
	propKnown = append(propKnown, known...)
	ov, ovFiles, err := buildOverlay()
	if err != nil {
		fmt.Fprintln(os.Stderr, "overlay:", err)
		return 2
	}
	// group by load configuration
	type loadKey struct{ goarch string }
	groups := map[loadKey][]HarnessSpec{}
	var t3specs, x86specs []HarnessSpec
	for _, s := range specs {
		if s.Asm != "" {
			t3specs = append(t3specs, s)
			continue
		}
		if s.X86 != "" {
			x86specs = append(x86specs, s)
			continue
		}
		k := loadKey{s.GOARCH}
		groups[k] = append(groups[k], s)
	}
	work := filepath.Join(verifDir, "work")
	os.MkdirAll(work, 0o755)

	var results []*gosym.HarnessResult
	var resSpecs []HarnessSpec
	broken := 0
	var keys []loadKey
	for k := range groups {
		keys = append(keys, k)
	}
	sort.Slice(keys, func(i, j int) bool { return keys[i].goarch < keys[j].goarch })
	for _, k := range keys {
		hs := groups[k]
		pkgSet := map[string]bool{}
		for _, s := range hs {
			pkgSet[s.Pkg] = true
			for _, e := range s.ExtraPkgs {
				pkgSet[e] = true
			}
		}
		var pats []string
		for p := range pkgSet {
			pats = append(pats, p)
		}
		sort.Strings(pats)
		tl := time.Now()
		eng, err := gosym.Load(gosym.LoadConfig{RepoDir: repoDir, WorkDir: work, Patterns: pats, Overlay: ov, GOARCH: k.goarch, Tags: []string{"verif"}})
		if err != nil {
			fmt.Fprintf(os.Stderr, "BROKEN: cannot load %v: %v\n", pats, err)
			return 2
		}
		if verbose {
			fmt.Fprintf(os.Stderr, "loaded %v in %.1fs\n", pats, time.Since(tl).Seconds())
		}
		for _, s := range hs {
			fn := eng.Func(s.Pkg + "." + s.Func)
			if fn == nil {
				fmt.Fprintf(os.Stderr, "BROKEN: harness %s.%s not found\n", s.Pkg, s.Func)
				broken++
				continue
			}
			h := &gosym.HarnessRun{Name: s.Func, Fn: fn, Eng: eng, Known: propKnown, Workers: workers, Verbose: verbose, SolverLog: solverLog}
			h.Lim = s.Lim
			h.MaxPaths = s.MaxPaths
			h.GrowSlack = s.GrowSlack
			h.NoMerge = s.NoMerge
			h.PoolNondet = s.PoolNondet
			h.MaxPerSite = 6
			if tier == "thorough" {
				h.TimeoutMs = 60000
			}
			if s.TimeoutMs != 0 {
				h.TimeoutMs = s.TimeoutMs
			}
			if s.OpaqueStrMax != 0 {
				h.OpaqueStrMax = s.OpaqueStrMax
			}
			r := h.Run()
			results = append(results, r)
			resSpecs = append(resSpecs, s)
			fmt.Printf("harness %-40s paths=%d done=%d infeasible=%d ended=%d not-encoded=%d budget=%d queries=%d (sat %d unsat %d unknown %d) solver=%.1fs wall=%.1fs\n",
				s.Func, r.Paths, r.PathsDone, r.Infeasible, r.Ended, r.NotEncoded, r.Budget,
				r.Stats.Queries, r.Stats.NSat, r.Stats.NUnsat, r.Stats.NUnknown, r.Stats.SolveTime.Seconds(), r.WallS)
			for m, n := range r.Problems {
				fmt.Printf("  INCONCLUSIVE %s: %s (x%d)\n", s.Func, m, n)
			}
			if r.Truncated || r.NotEncoded > 0 || r.Budget > 0 || r.Stats.NUnknown > 0 {
				// part of the stated bound was not decided: never reported as success
				fmt.Printf("  INCOMPLETE %s: truncated=%v not-encoded=%d budget=%d solver-unknown=%d: the stated bound was not fully explored\n", s.Func, r.Truncated, r.NotEncoded, r.Budget, r.Stats.NUnknown)
				broken++
			}
			if verbose {
				for m, n := range r.Notes {
					fmt.Printf("  note %s (x%d)\n", m, n)
				}
			}
			for _, c := range s.Covers {
				if !r.Covers[c] {
					fmt.Printf("  VACUOUS %s: cover point %q not reached\n", s.Func, c)
					broken++
				}
			}
		}
	}

	if len(t3specs) > 0 {
		if err := runT3Dump(verbose, t3specs); err != nil {
			fmt.Fprintln(os.Stderr, "BROKEN:", err)
			return 2
		}
		for _, s := range t3specs {
			body, err := t3Body(s)
			if err != nil {
				fmt.Fprintf(os.Stderr, "BROKEN: tier-3 harness %s: %v\n", s.Func, err)
				broken++
				continue
			}
			name := s.Func + ":" + s.Asm + ":" + s.T3
			h := &gosym.HarnessRun{Name: name, Body: body, Eng: &gosym.Engine{}, Known: propKnown, Workers: workers, Verbose: verbose, SolverLog: solverLog}
			h.MaxPerSite = 6
			if tier == "thorough" {
				h.TimeoutMs = 60000
			}
			r := h.Run()
			results = append(results, r)
			resSpecs = append(resSpecs, s)
			fmt.Printf("harness %-40s paths=%d done=%d infeasible=%d ended=%d not-encoded=%d budget=%d queries=%d (sat %d unsat %d unknown %d) solver=%.1fs wall=%.1fs\n",
				name, r.Paths, r.PathsDone, r.Infeasible, r.Ended, r.NotEncoded, r.Budget,
				r.Stats.Queries, r.Stats.NSat, r.Stats.NUnsat, r.Stats.NUnknown, r.Stats.SolveTime.Seconds(), r.WallS)
			for m, n := range r.Problems {
				fmt.Printf("  INCONCLUSIVE %s: %s (x%d)\n", name, m, n)
			}
			if r.Truncated || r.NotEncoded > 0 || r.Budget > 0 || r.Stats.NUnknown > 0 {
				fmt.Printf("  INCOMPLETE %s: truncated=%v not-encoded=%d budget=%d solver-unknown=%d: the stated bound was not fully explored\n", name, r.Truncated, r.NotEncoded, r.Budget, r.Stats.NUnknown)
				broken++
			}
			for _, c := range s.Covers {
				if !r.Covers[c] {
					fmt.Printf("  VACUOUS %s: cover point %q not reached\n", name, c)
					broken++
				}
			}
		}
	}

	for _, s := range x86specs {
		r, o, err := runX86(s, tier, propKnown, verbose)
		if err != nil {
			fmt.Fprintln(os.Stderr, "BROKEN:", err)
			broken++
			continue
		}
		results = append(results, r)
		resSpecs = append(resSpecs, s)
		name := "x86:" + s.X86
		fmt.Printf("harness %-40s cases=%d paths=%d instructions=%d violations=%d queries=%d (sat %d unsat %d unknown %d) solver=%.1fs wall=%.1fs\n",
			name, o.Cases, o.Paths, o.Instructions, len(o.Violations), o.Queries, o.Sat, o.Unsat, o.Unknown, o.SolverS, r.WallS)
		for m, n := range r.Problems {
			fmt.Printf("  INCONCLUSIVE %s: %s (x%d)\n", name, m, n)
		}
		if r.NotEncoded > 0 || o.Unknown > 0 {
			fmt.Printf("  INCOMPLETE %s: incomplete=%d solver-unknown=%d: the stated bound was not fully explored\n", name, r.NotEncoded, o.Unknown)
			broken++
		}
		for _, c := range s.Covers {
			if !r.Covers[c] {
				fmt.Printf("  VACUOUS %s: cover point %q not reached\n", name, c)
				broken++
			}
		}
	}

	// violations: replay, classify
	nViol := 0
	var knownHit []string
	var spurious []string
	var violOut []map[string]interface{}
	ovJSON := writeOverlayJSON(ovFiles, work)
	for i, r := range results {
		s := resSpecs[i]
		siteDone := map[string]bool{}  // site already confirmed (or known)
		siteTried := map[string]int{}  // witnesses replayed so far
		siteTotal := map[string]int{}  // witnesses available
		for _, v := range r.Violations {
			siteTotal[v.Msg+"@"+v.Pos]++
		}
		for vi, v := range r.Violations {
			site := v.Msg + "@" + v.Pos
			if siteDone[site] {
				continue
			}
			path := saveReplayN(prop, s, v, siteTried[site])
			siteTried[site]++
			_ = vi
			if v.Known != "" {
				siteDone[site] = true
				line := fmt.Sprintf("KNOWN-FINDING: property=%s %s: %s [%s @%s] replay=%s", knownProp(known, v.Known, prop), v.Known, knownWhat(known, v.Known), v.Msg, v.Pos, path)
				fmt.Println(line)
				knownHit = append(knownHit, v.Known)
				continue
			}
			confirmed, out := true, ""
			if !noReplay && !s.NoReplay {
				confirmed, out = replayNative(s, path, ovJSON, verbose)
			}
			if !confirmed && siteTried[site] < siteTotal[site] {
				continue // another witness of the same assertion follows: try that one
			}
			if confirmed {
				siteDone[site] = true
				nViol++
				fmt.Printf("VIOLATION property=%s replay=%s\n", prop, path)
				fmt.Printf("  %s: %s @%s\n  model: %s\n", v.Kind, v.Msg, v.Pos, modelStr(v.Model))
				violOut = append(violOut, map[string]interface{}{"harness": s.Func, "kind": v.Kind, "msg": v.Msg, "pos": v.Pos, "model": v.Model, "replay": path})
			} else {
				fmt.Printf("  INCONCLUSIVE %s: solver model did not reproduce on the real build (%s @%s): %s\n", s.Func, v.Msg, v.Pos, firstLine(out))
				spurious = append(spurious, s.Func+": "+v.Msg)
			}
		}
	}

	writeEvidence(prop, tier, seed, specs, results, resSpecs, nViol, knownHit, spurious, violOut, time.Since(t0).Seconds())
	if nViol > 0 {
		return 1
	}
	if broken > 0 {
		return 2
	}
	return 0
}

// knownProp: the property a listed finding is recorded under (a harness registered under
// several properties reports it with that id, not with the id of the run).
func knownProp(ks []gosym.KnownFinding, id, dflt string) string {
	for _, k := range ks {
		if k.ID == id && k.Property != "" {
			return k.Property
		}
	}
	return dflt
}

func knownWhat(ks []gosym.KnownFinding, id string) string {
	for _, k := range ks {
		if k.ID == id {
			return k.What
		}
	}
	return ""
}

func firstLine(s string) string {
	s = strings.TrimSpace(s)
	if i := strings.IndexByte(s, '\n'); i >= 0 {
		return s[:i]
	}
	return s
}

func modelStr(m map[string]uint64) string {
	var ks []string
	for k := range m {
		ks = append(ks, k)
	}
	sort.Strings(ks)
	var b strings.Builder
	for i, k := range ks {
		if i > 0 {
			b.WriteString(" ")
		}
		if i > 60 {
			b.WriteString("…")
			break
		}
		fmt.Fprintf(&b, "%s=%d", k, m[k])
	}
	return b.String()
}

type ReplayFile struct {
	Property string            `json:"property"`
	Harness  string            `json:"harness"`
	Pkg      string            `json:"pkg"`
	GOARCH   string            `json:"goarch,omitempty"`
	Kind     string            `json:"kind"`
	Msg      string            `json:"msg"`
	Pos      string            `json:"pos"`
	Known    string            `json:"known,omitempty"`
	Model    map[string]uint64 `json:"model"`
	Stack    []string          `json:"stack,omitempty"`
}

func saveReplayN(prop string, s HarnessSpec, v gosym.Violation, k int) string {
	if k > 0 {
		v.Msg = v.Msg + fmt.Sprintf(" [witness %d]", k+1)
		p := saveReplay(prop, s, v)
		return p
	}
	return saveReplay(prop, s, v)
}

func saveReplay(prop string, s HarnessSpec, v gosym.Violation) string {
	dir := filepath.Join(verifDir, "replays")
	os.MkdirAll(dir, 0o755)
	rf := ReplayFile{Property: prop, Harness: s.Func, Pkg: s.Pkg, GOARCH: s.GOARCH, Kind: v.Kind, Msg: v.Msg, Pos: v.Pos, Known: v.Known, Model: v.Model, Stack: v.Stack}
	b, _ := json.MarshalIndent(rf, "", " ")
	h := uint32(2166136261)
	for _, c := range []byte(v.Msg + v.Pos + v.Known) {
		h = (h ^ uint32(c)) * 16777619
	}
	p := filepath.Join(dir, fmt.Sprintf("%s-%s-%08x.json", prop, s.Func, h))
	os.WriteFile(p, b, 0o644)
	return p
}

func writeOverlayJSON(files map[string]string, work string) string {
	type ovf struct {
		Replace map[string]string
	}
	o := ovf{Replace: map[string]string{}}
	for virt, real := range files {
		o.Replace[virt] = real
	}
	// replay test runner files, one per harness package
	b, _ := json.Marshal(o)
	p := filepath.Join(work, "overlay.json")
	os.WriteFile(p, b, 0o644)
	return p
}

// replayNative runs the harness natively with the model; true if the same failure shows.
func replayNative(s HarnessSpec, replayPath, ovJSON string, verbose bool) (bool, string) {
	work := filepath.Join(verifDir, "work")
	gowork, _ := gosym.PrepareGoWork(repoDir, work)
	// generate a test runner in the harness package via a second overlay
	type ovf struct {
		Replace map[string]string
	}
	var o ovf
	b, _ := os.ReadFile(ovJSON)
	json.Unmarshal(b, &o)
	pkgDir := strings.TrimPrefix(s.Pkg, "github.com/bytedance/sonic")
	pkgDir = strings.TrimPrefix(pkgDir, "/")
	pkgName := s.PkgName
	zzPath := mod + "/internal/zzverif"
	if strings.HasPrefix(s.Pkg, mod+"/loader") {
		zzPath = mod + "/loader/internal/zzverif" // the loader is a module of its own
	}
	runner := fmt.Sprintf(`//go:build verif

package %s

import (
	"fmt"
	"os"
	"testing"

	zz "%s"
)

func TestVerifReplay(t *testing.T) {
	var failed string
	func() {
		defer func() {
			if r := recover(); r != nil {
				if af, ok := r.(zz.AssumeFailed); ok {
					failed = "ASSUME-FAILED: " + af.Msg
					return
				}
				failed = fmt.Sprintf("PANIC: %%v", r)
			}
		}()
		%s()
	}()
	if failed != "" {
		fmt.Fprintln(os.Stdout, "VERIF-REPLAY-RESULT", failed)
		return
	}
	if len(zz.Failures) > 0 {
		fmt.Fprintln(os.Stdout, "VERIF-REPLAY-RESULT ASSERT:", zz.Failures)
		return
	}
	fmt.Fprintln(os.Stdout, "VERIF-REPLAY-RESULT OK")
}
`, pkgName, zzPath, s.Func)
	rp := filepath.Join(work, "replay_runner_"+pkgName+"_test.go")
	os.WriteFile(rp, []byte(runner), 0o644)
	o.Replace[filepath.Join(repoDir, pkgDir, "zz_verif_replay_test.go")] = rp
	ob, _ := json.Marshal(o)
	ovp := filepath.Join(work, "overlay_replay.json")
	os.WriteFile(ovp, ob, 0o644)

	cmd := exec.Command("go", "test", "-tags", "verif", "-vet=off", "-count=1", "-overlay", ovp, "-run", "^TestVerifReplay$", "-v", "./"+pkgDir)
	cmd.Dir = repoDir
	cmd.Env = append(os.Environ(), "GOFLAGS=", "GOPROXY=off", "GOSUMDB=off", "GOTOOLCHAIN=local", "GOWORK="+gowork, "VERIF_MODEL="+replayPath)
	if s.GOARCH != "" {
		// the compat build cannot run natively; replay on the host build instead
	}
	if s.ReplayEnv != nil {
		cmd.Env = append(cmd.Env, s.ReplayEnv...)
	}
	out, _ := cmd.CombinedOutput()
	txt := string(out)
	if verbose {
		fmt.Fprintln(os.Stderr, txt)
	}
	for _, line := range strings.Split(txt, "\n") {
		if strings.HasPrefix(line, "VERIF-REPLAY-RESULT") {
			rest := strings.TrimSpace(strings.TrimPrefix(line, "VERIF-REPLAY-RESULT"))
			if strings.HasPrefix(rest, "OK") || strings.HasPrefix(rest, "ASSUME-FAILED") {
				return false, rest
			}
			return true, rest
		}
	}
	// the process crashed (fatal error, SIGSEGV) before printing: that is a failure of the real build too
	if strings.Contains(txt, "fatal error") || strings.Contains(txt, "SIGSEGV") || strings.Contains(txt, "panic:") {
		return true, "process crashed: " + firstLine(txt)
	}
	return false, "replay did not run: " + firstLine(txt)
}

func doReplayFile(path string, verbose bool) int {
	b, err := os.ReadFile(path)
	if err != nil {
		fmt.Fprintln(os.Stderr, err)
		return 2
	}
	var rf ReplayFile
	if err := json.Unmarshal(b, &rf); err != nil {
		fmt.Fprintln(os.Stderr, err)
		return 2
	}
	var spec *HarnessSpec
	for _, s := range allHarnesses() {
		if s.Func == rf.Harness {
			s := s
			spec = &s
		}
	}
	if spec == nil {
		fmt.Fprintln(os.Stderr, "unknown harness", rf.Harness)
		return 2
	}
	_, ovFiles, err := buildOverlay()
	if err != nil {
		fmt.Fprintln(os.Stderr, err)
		return 2
	}
	work := filepath.Join(verifDir, "work")
	os.MkdirAll(work, 0o755)
	ovJSON := writeOverlayJSON(ovFiles, work)
	ok, out := replayNative(*spec, path, ovJSON, verbose)
	fmt.Printf("replay of %s (%s: %s): %s\n", rf.Harness, rf.Kind, rf.Msg, out)
	if ok {
		fmt.Printf("VIOLATION property=%s replay=%s\n", rf.Property, path)
		return 1
	}
	return 0
}

func writeEvidence(prop, tier string, seed int, specs []HarnessSpec, results []*gosym.HarnessResult, rs []HarnessSpec, nViol int, knownHit, spurious []string, violOut []map[string]interface{}, wall float64) {
	cov := map[string]interface{}{}
	states, trans := 0, int64(0)
	q, qs, qu, qk := 0, 0, 0, 0
	var stime float64
	funcs := map[string]bool{}
	var samples []interface{}
	var perH []interface{}
	var notEnc []string
	var assumptions []string
	bounds := map[string]string{}
	coversTot, coversHit := 0, 0
	unwind := 0
	oblig, disch := 0, 0
	for i, r := range results {
		s := rs[i]
		states += r.PathsDone + r.Ended
		trans += r.Steps
		q += r.Stats.Queries
		qs += r.Stats.NSat
		qu += r.Stats.NUnsat
		qk += r.Stats.NUnknown
		stime += r.Stats.SolveTime.Seconds()
		for f := range r.Funcs {
			if !strings.Contains(f, "zzverif") {
				funcs[f] = true
			}
		}
		for _, sm := range r.Samples {
			if len(samples) < 8 {
				samples = append(samples, map[string]interface{}{"harness": s.Func, "path_decisions": sm.Decisions, "ssa_instructions": sm.Steps, "model_of_path": sm.Model})
			}
		}
		for m := range r.Problems {
			notEnc = append(notEnc, s.Func+": "+m)
		}
		bk := s.Func
		if s.Asm != "" {
			bk = s.Func + ":" + s.Asm + ":" + s.T3
		}
		if s.X86 != "" {
			bk = "x86:" + s.X86
		}
		bounds[bk] = s.Bounds
		assumptions = append(assumptions, s.Assumes...)
		coversTot += len(s.Covers)
		for _, c := range s.Covers {
			if r.Covers[c] {
				coversHit++
			}
		}
		unwind += r.Budget
		oblig++
		clean := len(r.Problems) == 0 && !r.Truncated && r.Unknowns == 0
		if clean {
			disch++
		}
		perH = append(perH, map[string]interface{}{
			"harness": s.Func + map[bool]string{true: ":" + s.Asm + ":" + s.T3, false: ""}[s.Asm != ""] + map[bool]string{true: ":x86:" + s.X86, false: ""}[s.X86 != ""], "what": s.Desc, "bounds": s.Bounds, "paths": r.Paths, "paths_completed": r.PathsDone,
			"paths_infeasible": r.Infeasible, "paths_ended_in_panic_or_violation": r.Ended, "not_encoded": r.NotEncoded,
			"unwind_exceeded": r.Budget, "queries": r.Stats.Queries, "solver_s": r.Stats.SolveTime.Seconds(),
			"wall_s": r.WallS, "max_decisions_on_a_path": r.MaxDecision, "truncated": r.Truncated, "notes": r.Notes,
		})
	}
	for _, v := range violOut {
		samples = append(samples, v)
	}
	if len(samples) == 0 {
		samples = append(samples, map[string]interface{}{"note": "no path produced a sample model"})
	}
	var fl []string
	for f := range funcs {
		fl = append(fl, f)
	}
	sort.Strings(fl)
	sort.Strings(assumptions)
	assumptions = uniq(assumptions)
	cov["states"] = states
	cov["transitions"] = trans
	cov["traces_validated_against_impl"] = len(violOut) + len(knownHit)
	cov["samples"] = samples
	cov["functions_encoded"] = fl
	cov["bounds"] = bounds
	cov["queries"] = q
	cov["queries_sat"] = qs
	cov["queries_unsat"] = qu
	cov["queries_unknown"] = qk
	cov["solver_time_s"] = stime
	cov["unwinding_assertions_failed"] = unwind
	cov["cover_points"] = map[string]int{"reached": coversHit, "total": coversTot}
	cov["inconclusive"] = notEnc
	cov["spurious_models"] = spurious
	cov["known_findings_hit"] = uniq(knownHit)
	cov["harnesses"] = perH
	cov["obligations"] = oblig
	cov["discharged"] = disch
	cov["explanation"] = "bounded symbolic execution of the listed functions (go/ssa -> SMT bit-vectors, z3); states = symbolic paths completed, transitions = SSA instructions executed symbolically; each path's assertions were decided by the solver for all input values within the stated bounds"
	ev := Evidence{PropertyID: prop, Tier: tier, Seed: seed, Level: "model_checking", Coverage: cov, Assumptions: assumptions, WallS: wall, Violations: nViol}
	if ev.Assumptions == nil {
		ev.Assumptions = []string{}
	}
	b, _ := json.MarshalIndent(ev, "", " ")
	os.MkdirAll(filepath.Join(verifDir, "evidence"), 0o755)
	os.WriteFile(filepath.Join(verifDir, "evidence", prop+".json"), b, 0o644)
}

func uniq(s []string) []string {
	sort.Strings(s)
	var r []string
	for i, v := range s {
		if i == 0 || v != s[i-1] {
			r = append(r, v)
		}
	}
	if r == nil {
		r = []string{}
	}
	return r
}
