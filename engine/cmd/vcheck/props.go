package main

import "verif/engine/gosym"

const mod = "github.com/bytedance/sonic"

type HarnessSpec struct {
	Prop         string
	Pkg          string   // import path of the package the harness is injected into
	PkgName      string   // Go package name
	Func         string   // harness function
	Tier         string   // "quick" (runs in both tiers), "thorough" (thorough only)
	Covers       []string // cover points that must be reached (vacuity guard)
	Desc         string
	Bounds       string
	Assumes      []string
	ExtraPkgs    []string
	GOARCH       string
	Lim          gosym.Limits
	MaxPaths     int
	GrowSlack    int
	NoMerge      bool
	PoolNondet   bool // sync.Pool.Get may return a fresh object or any pooled one (ownership harnesses)
	NoReplay     bool
	TimeoutMs    int
	OpaqueStrMax int
	ReplayEnv    []string
	// Tier 3 (JIT instruction lists): dump name, check name and its parameters
	Asm      string
	T3       string
	T3Bits   int
	T3Signed bool
	T3Native string
}

func allHarnesses() []HarnessSpec {
	return registry
}

func harnessesFor(prop, tier string) []HarnessSpec {
	var r []HarnessSpec
	for _, s := range registry {
		if s.Prop != prop {
			continue
		}
		if s.Tier == "thorough" && tier != "thorough" {
			continue
		}
		if s.Tier == "quickonly" && tier != "quick" {
			continue
		}
		r = append(r, s)
	}
	return r
}

var registry = []HarnessSpec{
	{Prop: "C18", Pkg: mod, PkgName: "sonic", Func: "VerifC18Froze", Tier: "quick", Covers: []string{"end"},
		Desc:   "Config.Froze: encoderOpts/decoderOpts equal the OR of exactly the documented option constants, for every Config",
		Bounds: "all 2^16 boolean Config fields symbolic (one query per assertion)"},

	{Prop: "C07", Pkg: mod + "/internal/decoder/errors", PkgName: "errors", Func: "VerifC07CalcBounds", Tier: "quick", Covers: []string{"inside", "end"},
		Desc:   "errors.calcBounds: excerpt bounds inside the source, dot runs non-negative and <= 32, caret under the position",
		Bounds: "all source lengths 1..2^62, all int64 positions"},
	{Prop: "C07", Pkg: mod + "/internal/decoder/errors", PkgName: "errors", Func: "VerifC07SyntaxErrorDescription", Tier: "quick", Covers: []string{"end"},
		Desc:   "errors.SyntaxError.Description/Error never panic (slice bounds, negative Repeat) for any stored position",
		Bounds: "source length 0..3 (symbolic bytes), all int64 positions, codes 0..12; fmt.Sprintf opaque"},
	{Prop: "C07", Pkg: mod + "/internal/decoder/errors", PkgName: "errors", Func: "VerifC07MismatchDescription", Tier: "quick", Covers: []string{"end"},
		Desc:    "MismatchTypeError formatting helpers (swithchJSONType, description) never panic for positions inside the input",
		Bounds:  "source length 1..3, 0 <= pos < len",
		Assumes: []string{"MismatchTypeError.Pos is the offset of a byte of the input (0 <= Pos < len(Src))"}},

	{Prop: "C01", Pkg: mod + "/internal/decoder/api", PkgName: "api", Func: "VerifC01CheckTrailings", Tier: "quick", Covers: []string{"accept", "reject"},
		Desc:   "Decoder.CheckTrailings accepts exactly when every remaining byte satisfies the real encoding/json.isSpace; error position = first non-space byte",
		Bounds: "all strings of length 0..6, all start offsets 0..len"},

	{Prop: "C17", Pkg: mod + "/internal/decoder/api", PkgName: "api", Func: "VerifC17StreamDecode3", Tier: "quick", Covers: []string{"clean-eof", "bad-tail", "two-values"},
		Desc:    "StreamDecoder.Decode/More/readMore/peek/scan/refill/realloc: framed values and terminal condition equal framing the concatenated stream, for every way of cutting the stream into Read results (empty reads, data+EOF)",
		Bounds:  "all streams of 3 bytes over the alphabet {1,space,[,],\",t,comma,x}; <= 3 arbitrary Read cuts then the rest; initial buffer capacity 2 (realloc crossed)",
		Assumes: []string{"native.SkipOneFast behaves like the reference model verifSkipOneFast (transcribed from native/scanning.h skip_one_fast_1, scalar tail paths); counterexamples are replayed against the real native", "Decoder.Decode (decodeImpl) succeeds and consumes the framed text"}},
	{Prop: "C17", Pkg: mod + "/internal/decoder/api", PkgName: "api", Func: "VerifC17StreamDecodeFail3", Tier: "quick", Covers: []string{"reader-error"},
		Desc:   "same with a non-EOF reader error injected at an arbitrary stream offset: returned unchanged after the values that precede it",
		Bounds: "streams of 3 bytes, error offset 0..3, <= 2 arbitrary cuts"},
	{Prop: "C17", Pkg: mod + "/internal/decoder/api", PkgName: "api", Func: "VerifC17StreamDecode4", Tier: "thorough", Covers: []string{"clean-eof", "bad-tail", "two-values"},
		Desc:   "as VerifC17StreamDecode3",
		Bounds: "streams of 4 bytes, <= 3 cuts, initial buffer capacity 1"},

	{Prop: "C17", Pkg: mod + "/internal/encoder", PkgName: "encoder", Func: "VerifC17StreamEncode", Tier: "quick", Covers: []string{"write-failed", "codec-failed", "newline", "no-newline"},
		Desc:    "StreamEncoder.Encode: returns a non-nil error whenever any Write (including the newline's) failed; newline appended unless NoEncoderNewline",
		Bounds:  "codec output 1..3 arbitrary bytes or failure; <= 3 Write calls with arbitrary short counts / errors; all option words (EscapeHTML, ValidateString off)",
		Assumes: []string{"the per-type encoder program (encodeTypedPointer) is a stub appending 1..3 arbitrary bytes or failing"}},

	{Prop: "C06", Pkg: mod + "/internal/encoder", PkgName: "encoder", Func: "VerifC06EncodeOwnership", Tier: "quick", Covers: []string{"error", "above-limit", "below-limit"}, PoolNondet: true,
		Desc:    "encoder.Encode: the returned slice is caller-owned: not owned by bytesPool at return, not aliased by the next call's result, unchanged by the next call; no double Put / use after Put (engine ghost state on every pool operation)",
		Bounds:  "pool limit scaled to 4 bytes (encoding parameter), default buffer capacity 0..6, optional earlier pooled buffer of capacity 0..4, codec output 1..3 bytes, two consecutive calls",
		Assumes: []string{"the per-type encoder program (encodeTypedPointer) is a stub appending 1..3 arbitrary bytes or failing", "sync.Pool.Get returns New() or any object previously Put (nondeterministic)"}},
	{Prop: "C06", Pkg: mod + "/internal/encoder", PkgName: "encoder", Func: "VerifC06EncodeInto", Tier: "quick", Covers: []string{"end"},
		Desc:   "encoder.EncodeInto: caller prefix preserved, every store inside the (possibly re-allocated) buffer, for every initial len/cap",
		Bounds: "cap 0..4, len 0..cap, codec output 1..3 bytes"},
	{Prop: "C06", Pkg: mod + "/internal/decoder/api", PkgName: "api", Func: "VerifC06StreamDecodeCopy", Tier: "quick", Covers: []string{"clean-eof"},
		Desc:   "StreamDecoder.Decode hands the decoder a private copy of the framed text (never the reusable, pooled read buffer), for every option word",
		Bounds: "as VerifC17StreamDecode3 (3-byte streams, <= 3 cuts), decoder option word arbitrary"},
	{Prop: "C06", Pkg: mod, PkgName: "sonic", Func: "VerifT3Replay", Tier: "quick", Covers: []string{"grown", "returned"},
		Asm: "enc_string", T3: "encbuf", T3Native: "string", ReplayEnv: []string{"VERIF_T3_TYPE=string", "VERIF_T3_KIND=encbuf"},
		Desc:    "generated string encoder: every store into the output buffer and every window handed to native quote lies inside the buffer's capacity, for every initial len/cap and every legal expansion of the quoted text; the returned len never exceeds cap",
		Bounds:  "instruction list dumped from the encoder's x86 assembler for string; cap 0..12, len 0..cap, strings of 0..4 bytes, <= 2 out-of-space rounds of quote, grown capacities <= 160",
		Assumes: []string{"native quote writes at most *dn bytes, reports the count in *dn and returns nb (>= nb bytes written) or ~consumed", "rt.GrowSlice returns a fresh buffer of at least the requested capacity"}},
	{Prop: "C06", Pkg: mod, PkgName: "sonic", Func: "VerifT3Replay", Tier: "quick", Covers: []string{"grown", "returned"},
		Asm: "enc_qstring", T3: "encbuf", T3Native: "qstring", ReplayEnv: []string{"VERIF_T3_TYPE=qstring", "VERIF_T3_KIND=encbuf"},
		Desc:   "as above for a struct with a `,string` string field (double quoting)",
		Bounds: "as the string program"},
	{Prop: "C06", Pkg: mod, PkgName: "sonic", Func: "VerifT3Replay", Tier: "quick", Covers: []string{"b64decode"},
		Asm: "dec_bytes", T3: "b64cap", ReplayEnv: []string{"VERIF_T3_TYPE=bytes", "VERIF_T3_KIND=b64"},
		Desc:    "generated []byte decoder (_OP_bin): the buffer handed to the base64 decoder is inside its allocation and has room for everything the decoder can produce from the text (no write past the destination, never len > cap)",
		Bounds:  "instruction list dumped for []byte; string bodies of 1..21 bytes (every length class modulo 4), allocation size symbolic",
		Assumes: []string{"native vstring frames the string body (contract); the base64 decoder writes at most floor(3*len/4) bytes for len input bytes (6 bits per byte)", "mallocgc returns an object of exactly the requested size"}},

	{Prop: "C18", Pkg: mod + "/internal/encoder/prim", PkgName: "prim", Func: "VerifC18EncodeJsonMarshaler", Tier: "quick", Covers: []string{"marshaler-error", "compact", "novalidate", "validate"},
		Desc:    "prim.EncodeJsonMarshaler: CompactMarshaler / NoValidateJSONMarshaler have exactly their documented effect, for every 64-bit option word (no other bit matters)",
		Bounds:  "marshaler output in {\"1\", \" 1\", \"x\", a string literal with an illegal escape} or failure; option word arbitrary",
		Assumes: []string{"json.Compact and alg.Valid behave on the three sample outputs as stated by the stubs (true of the real functions; replays use the real ones)"}},
	{Prop: "C18", Pkg: mod + "/internal/encoder/prim", PkgName: "prim", Func: "VerifC18EncodeTextMarshaler", Tier: "quick", Covers: []string{"marshaler-error", "noquote", "quote"},
		Desc:   "prim.EncodeTextMarshaler: NoQuoteTextMarshaler only decides whether the text is quoted, for every option word",
		Bounds: "text \"ab\" or failure; option word arbitrary"},
	{Prop: "C04", Pkg: mod + "/internal/encoder/prim", PkgName: "prim", Func: "VerifC18EncodeJsonMarshaler", Tier: "quick", Covers: []string{"validate"},
		Desc:   "invalid output of a user Marshaler is rejected unless validation was explicitly disabled (prim.EncodeJsonMarshaler, every option word)",
		Bounds: "marshaler output in {\"1\", \" 1\", \"x\", a string literal with an illegal escape} or failure; option word arbitrary"},
	{Prop: "C03", Pkg: mod + "/internal/encoder/prim", PkgName: "prim", Func: "VerifC18EncodeJsonMarshaler", Tier: "quick", Covers: []string{"compact"},
		Desc:   "under the std-compatible configuration (CompactMarshaler) a Marshaler's output is accepted exactly when json.Compact accepts it, and is compacted",
		Bounds: "marshaler output in {\"1\", \" 1\", \"x\", a string literal with an illegal escape} or failure; option word arbitrary"},

	{Prop: "C12", Pkg: mod + "/internal/encoder", PkgName: "encoder", Func: "VerifC12VMRecurseFlags", Tier: "quick", Covers: []string{"end"},
		Desc:    "vm.Execute on hand-assembled IR [byte, recurse(pv), eface, recurse, byte]: the pointer-value flag reaches only the one nested call; later nested calls in the same frame get the caller's option word (as the JIT does); natively: VM output == encoding/json on a recursive type with an interface field",
		Bounds:  "one 5-instruction program, every 64-bit option word, type descriptor contents arbitrary (both Indirect() outcomes)",
		Assumes: []string{"the nested encoder (vm.EncodeTypedPointer) is a stub logging its option word"}},
	{Prop: "C18", Pkg: mod + "/internal/encoder", PkgName: "encoder", Func: "VerifC18VMEmptyOps", Tier: "quick", Covers: []string{"nonull", "null"},
		Desc:   "vm.Execute OP_empty_arr/OP_empty_obj: NoNullSliceOrMap only turns null into []/{}; no other option bit matters",
		Bounds: "every 64-bit option word"},
	{Prop: "C04", Pkg: mod + "/internal/encoder", PkgName: "encoder", Func: "VerifC04VMFloat", Tier: "quick", Covers: []string{"null", "error", "finite"},
		Desc:   "vm.Execute OP_f64/OP_f32: NaN/Inf -> error, or null with EncodeNullForInfOrNan, never text; finite -> formatted once; for all bit patterns and option words",
		Bounds: "all 2^64 / 2^32 bit patterns, every option word; number formatting stubbed"},
	{Prop: "C04", Pkg: mod + "/internal/encoder", PkgName: "encoder", Func: "VerifC04VMNumber", Tier: "quick", Covers: []string{"empty", "valid", "invalid"},
		Desc:   "vm.Execute OP_number: json.Number text emitted verbatim iff the real encoding/json.isValidNumber accepts it, \"\" -> 0, otherwise an error",
		Bounds: "all number texts of 0..3 bytes, every option word"},
	{Prop: "C07", Pkg: mod + "/internal/encoder", PkgName: "encoder", Func: "VerifC07EncoderStack", Tier: "quick", Covers: []string{"full", "room"},
		Desc:   "vars.Stack Push/Pop at the depth limit: refused at MaxStack (ERR_too_deep path), every store inside the stack array",
		Bounds: "stack depths 0, 1, MaxStack-1, MaxStack, MaxStack+1"},
	{Prop: "C12", Pkg: mod + "/internal/encoder/alg", PkgName: "alg", Func: "VerifC12F64toa", Tier: "quick", Covers: []string{"end"},
		Desc:    "alg.F64toa (Go wrapper used by the VM encoder) appends exactly the text of native f64toa (called directly by the JIT), for every float64 bit pattern and buffer geometry",
		Bounds:  "all 2^64 bit patterns; buffer len 0..2, cap 0..70",
		Assumes: []string{"native f64toa/f32toa: text is a function of the bit pattern only (UF), at most 24 bytes (modelled: 3), 0 bytes for NaN/Inf, \"0\" for +0 and \"-0\" for -0 (facts re-checked by native replay)"}},
	{Prop: "C12", Pkg: mod + "/internal/encoder/alg", PkgName: "alg", Func: "VerifC12F32toa", Tier: "quick", Covers: []string{"end"},
		Desc:   "alg.F32toa appends exactly the text of native f32toa, for every float32 bit pattern",
		Bounds: "all 2^32 bit patterns; buffer len 0..2, cap 0..70"},

	{Prop: "C20", Pkg: mod + "/internal/encoder/alg", PkgName: "alg", Func: "VerifC20QuoteLoop", Tier: "quick", Covers: []string{"empty", "restart", "end"},
		Desc:    "alg.Quote restart loop: every input byte consumed exactly once, in order, into contiguous output inside the buffer capacity; quotes added once; prefix preserved; flags passed; terminates",
		Bounds:  "input 0..3 bytes, buffer len 0..2 / cap 0..70, single and double mode, native may stop anywhere (arbitrary consumed/written counts per call)",
		Assumes: []string{"native quote/html_escape contract (native/native.h): consumes c<=nb, writes w<=*dn, *dn=w, returns nb or ^c, progress when *dn>=6"}},
	{Prop: "C20", Pkg: mod + "/internal/encoder/alg", PkgName: "alg", Func: "VerifC20HtmlEscapeLoop", Tier: "quick", Covers: []string{"long-prefix", "end"},
		Desc:   "alg.HtmlEscape: destination prefix preserved, all of src consumed in order, no write outside dst capacity, no panic, for every dst geometry",
		Bounds: "src 1..3 bytes; dst len in 0..2 or 66..80, cap up to 90"},
	{Prop: "C20", Pkg: mod + "/internal/encoder/alg", PkgName: "alg", Func: "VerifC20QuoteRestarts", Tier: "quick", Covers: []string{"two-restarts", "end"},
		Desc:   "alg.Quote through several grow-and-resume rounds (input of N control bytes, output 6N): resumed at the first unconsumed byte every time; natively the literal decodes back to the input",
		Bounds: "N in {7,20,48,100}, buffer geometry classes, single and double mode"},
	{Prop: "C20", Pkg: mod + "/internal/encoder/alg", PkgName: "alg", Func: "VerifC20HtmlEscapeRestarts", Tier: "quick", Covers: []string{"two-restarts", "end"},
		Desc:   "alg.HtmlEscape through several grow-and-resume rounds (two thirds '<'): resumed at the first unconsumed byte; natively equals encoding/json.HTMLEscape",
		Bounds: "N in {7,20,48,100}, dst len {0,2} x spare {0,5,70,200}"},
	{Prop: "C04", Pkg: mod + "/internal/encoder/alg", PkgName: "alg", Func: "VerifC20HtmlEscapeRestarts", Tier: "quick", Covers: []string{"end"},
		Desc:   "the EscapeHTML post-pass never truncates or duplicates parts of the document when its buffer has to grow more than once",
		Bounds: "N in {7,20,48,100}"},
	// ---- Tier 3: instruction lists emitted by the JIT assemblers (dumped at check time) ----
	{Prop: "C01", Pkg: mod, PkgName: "sonic", Func: "VerifT3Replay", Tier: "quick", Covers: []string{"empty-or-null", "short", "full", "error"},
		Asm: "dec_array2_int", T3: "array", T3Bits: 2, ReplayEnv: []string{"VERIF_T3_TYPE=array2_int", "VERIF_T3_KIND=array"},
		Desc:    "generated [2]int decoder, whole program: on every path that ends without error, null leaves the (prefilled) destination untouched; otherwise each parsed element holds its integer and every other element is zero, as encoding/json does",
		Bounds:  "instruction list dumped for [2]int; all texts of 0..7 bytes over {[ ] , space 1 n u l}; native vsigned / skip_array are contracts (arbitrary value, arbitrary progress)",
		Assumes: []string{"native vsigned returns V_INTEGER with an arbitrary value and advances the cursor; skip_array advances the cursor", "runtime.memclrNoHeapPointers zeroes exactly the bytes it is given"}},
	{Prop: "C01", Pkg: mod, PkgName: "sonic", Func: "VerifT3Replay", Tier: "quick", Covers: []string{"lspace-done"},
		Asm: "dec_int64", T3: "lspace", ReplayEnv: []string{"VERIF_T3_TYPE=int64"},
		Desc:    "generated decoder (type int64): the inline white-space skipper of _OP_lspace skips exactly JSON white space and stops at the first other byte, for every input and start offset",
		Bounds:  "instruction list dumped from jitdec for int64; inputs of 0..6 bytes over {space,\\t,\\n,1,I,`,comma,0xA0} (bytes that alias white space modulo 64 included), every start offset, native lspace modelled exactly",
		Assumes: []string{"the dumped obj.Prog list is what golang-asm assembles (the assembler back end itself is trusted)", "plan9 x86 semantics of the ~55 mnemonics the JIT uses, as implemented in engine/gosym/asm.go"}},
	{Prop: "C02", Pkg: mod, PkgName: "sonic", Func: "VerifT3Replay", Tier: "quick", Covers: []string{"lspace-done"},
		Asm: "dec_slice_int", T3: "lspace", ReplayEnv: []string{"VERIF_T3_TYPE=slice_int"},
		Desc:   "generated decoder (type []int): no byte other than JSON white space is treated as insignificant between tokens (first _OP_lspace)",
		Bounds: "as the C01 lspace check, on the []int program"},
	{Prop: "C19", Pkg: mod, PkgName: "sonic", Func: "VerifT3Replay", Tier: "quick", Covers: []string{"range-error", "stored"},
		Asm: "dec_float32", T3: "f32range", ReplayEnv: []string{"VERIF_T3_TYPE=float32", "VERIF_T3_KIND=double"},
		Desc:    "generated float32 decoder: a parsed double is accepted exactly when its correctly rounded float32 is finite and that value is stored (CVTSD2SS/UCOMISS with the dumped range constants; SMT floating-point theory)",
		Bounds:  "instruction list dumped for float32; all finite doubles as the native number parser's result",
		Assumes: []string{"native vnumber returns V_DOUBLE with an arbitrary finite double (its own exactness is declined, see DESIGN 3.19)"}},
	{Prop: "C19", Pkg: mod, PkgName: "sonic", Func: "VerifT3Replay", Tier: "quick", Covers: []string{"range-error", "stored"},
		Asm: "dec_int8", T3: "intrange", T3Bits: 8, T3Signed: true, T3Native: "native.vsigned", ReplayEnv: []string{"VERIF_T3_TYPE=int8", "VERIF_T3_KIND=integer"},
		Desc:   "generated int8 decoder: stores exactly the parsed integer when -128..127, range error otherwise (no wrap)",
		Bounds: "instruction list dumped for int8; all 2^64 results of native vsigned"},
	{Prop: "C19", Pkg: mod, PkgName: "sonic", Func: "VerifT3Replay", Tier: "quick", Covers: []string{"range-error", "stored"},
		Asm: "dec_uint32", T3: "intrange", T3Bits: 32, T3Signed: false, T3Native: "native.vunsigned", ReplayEnv: []string{"VERIF_T3_TYPE=uint32", "VERIF_T3_KIND=integer", "VERIF_T3_UNSIGNED=1"},
		Desc:   "generated uint32 decoder: stores exactly the parsed integer when < 2^32, range error otherwise",
		Bounds: "instruction list dumped for uint32; all 2^64 results of native vunsigned"},
	{Prop: "C02", Pkg: mod, PkgName: "sonic", Func: "VerifT3Replay", Tier: "quick", Covers: []string{"dispatch"},
		Asm: "dec_generic", T3: "gentable", ReplayEnv: []string{"VERIF_T3_TYPE=generic", "VERIF_T3_KIND=gentable"},
		Desc:    "generated generic (interface{}) decoder: each structural character , : [ ] { } is dispatched to the same handler by the inline fast path (_decode_tab) and by the path through native value() (_switch_table) - a separator means the same however much white space precedes it",
		Bounds:  "instruction list dumped for the generic decoder; the six structural bytes; both dispatch paths executed symbolically up to the handler label",
		Assumes: []string{"native value() reports the token codes of native/types.go for structural characters (V_ARRAY 5, V_OBJECT 6, V_KEY_SEP 10, V_ELEM_SEP 11, V_ARRAY_END 12, V_OBJECT_END 13)"}},
	{Prop: "C07", Pkg: mod, PkgName: "sonic", Func: "VerifT3Replay", Tier: "quick", Covers: []string{"stack-store:_decode_V_ARRAY", "stack-store:_decode_V_OBJECT", "stack-store:_object_key", "stack-store:_array_append"},
		Asm: "dec_generic", T3: "gendepth", ReplayEnv: []string{"VERIF_T3_TYPE=generic", "VERIF_T3_KIND=gendepth"},
		Desc:    "generated generic decoder: from every legal depth, each handler that pushes a state (array, object, object key, array element) either reports stack overflow or stores inside ST.Vt / ST.Vp (one inductive step over the nesting depth)",
		Bounds:  "instruction list dumped for the generic decoder; handlers _decode_V_ARRAY, _decode_V_OBJECT, _object_key, _array_append; entry depth Sp symbolic in 0..len(Vt)-1; array lengths and offsets taken from the real _Stack layout",
		Assumes: []string{"handlers are entered with CX = ST.Sp (as loaded at _next)", "Go helpers called from the handlers clobber caller-saved registers and return a fresh pointer"}},

	{Prop: "C13", Pkg: mod + "/internal/native", PkgName: "native", Func: "VerifC13Dispatch", Tier: "quick", Covers: []string{"end"},
		Desc:    "dispatch wiring: useSSE()/useAVX2() bind each of the 17 subroutine addresses and 15 Go entry points to the same-named symbol of the selected package",
		Bounds:  "both instruction-set selections; every exported symbol carries a unique marker",
		Assumes: []string{"sse.Use/avx2.Use (blob loaders) are stubbed under the symbolic engine"}},
	{Prop: "C07", Pkg: mod + "/internal/encoder/alg", PkgName: "alg", Func: "VerifC20HtmlEscapeLoop", Tier: "quick", Covers: []string{"end"},
		Desc:   "encoder.HTMLEscape (alg.HtmlEscape) never panics, whatever prefix/capacity the destination has",
		Bounds: "src 1..3 bytes; dst len in 0..2 or 66..80, cap up to 90"},

	{Prop: "C05", Pkg: mod + "/ast", PkgName: "ast", Func: "VerifC05SkipBlank", Tier: "quick", Covers: []string{"eof", "found"},
		Desc:   "ast.skipBlank (raw pointer walk): every byte load inside the input object; result = first non-blank position",
		Bounds: "all inputs of 0..3 bytes, all start positions; natively the input ends at a page edge followed by a PROT_NONE page"},
	{Prop: "C05", Pkg: mod + "/ast", PkgName: "ast", Func: "VerifC05SkipString", Tier: "quick", Covers: []string{"closed", "error"},
		Desc:   "ast.skipString (sp += 2 on escapes): every byte load inside the input object",
		Bounds: "all inputs of 0..4 bytes, all start positions"},
	{Prop: "C05", Pkg: mod + "/ast", PkgName: "ast", Func: "VerifC05SkipNumber", Tier: "quick", Covers: []string{"number", "error"},
		Desc:   "utils.SkipNumber (reads *(sp-1) on a sign): every byte load inside the input object",
		Bounds: "all inputs of 0..4 bytes, all start positions"},
	{Prop: "C05", Pkg: mod + "/ast", PkgName: "ast", Func: "VerifC05SkipValue", Tier: "quick", Covers: []string{"value", "error"},
		Desc:   "ast.skipValue / skipValueFast (pure-Go scanners incl. skipObject/skipArray/decodeTrue...): every byte load inside the input object, positions inside the input",
		Bounds: "all inputs of 0..3 bytes, all start positions"},

	{Prop: "C16", Pkg: mod + "/ast", PkgName: "ast", Func: "VerifC16LoadedReadsAreReadOnly", Tier: "quick", Covers: []string{"big", "small"}, NoReplay: true,
		Desc:    "after LoadAll every documented read operation (Get, Index, GetByPath, Raw, MarshalJSON, Len, IndexOrGet, typed accessor) performs no plain store to any pre-existing object: readers cannot race with each other in any interleaving",
		Bounds:  "3-member and 17-member objects (hash index threshold crossed), all ordered pairs of 8 read operations, symbolic search key",
		Assumes: []string{"sufficient condition: operations that only read shared memory are race-free; sync primitives are modelled as lock sets (no weak-memory effects)", "data races are not observable in a sequential native replay: violations of this discipline are reported from the symbolic run (the store site is printed) without native confirmation"}},
	{Prop: "C16", Pkg: mod + "/ast", PkgName: "ast", Func: "VerifC16ConcurrentReadNode", Tier: "quick", Covers: []string{"end"}, NoReplay: true,
		Desc:   "a NewRawConcurrentRead node starting raw: every store to shared state made by a read operation happens while the node's write lock is held (raw->parsed conversion); no store outside it",
		Bounds: "one 3-member document with nested children, all ordered pairs of 8 read operations"},
	{Prop: "C08", Pkg: mod + "/internal/caching", PkgName: "caching", Func: "VerifC08PcacheRCU", Tier: "quick", Covers: []string{"end"}, NoReplay: true,
		Desc:   "ProgramCache RCU discipline: Get performs no store; Compute never modifies a published map or any pre-existing object except by the atomic publication of the new map (copy-on-write), from an arbitrary valid cache state",
		Bounds: "capacity 4, every occupancy pattern with <= 2 entries, symbolic hashes"},
	{Prop: "C08", Pkg: mod + "/internal/encoder", PkgName: "encoder", Func: "VerifC06EncodeOwnership", Tier: "quick", Covers: []string{"above-limit", "below-limit"}, PoolNondet: true,
		Desc:   "buffer pool recycling: a buffer handed to a caller is never also owned by bytesPool (another goroutine's Marshal could otherwise overwrite it), on both sides of and exactly at the pool size limit",
		Bounds: "as VerifC06EncodeOwnership"},

	{Prop: "C11", Pkg: mod + "/internal/decoder/optdec", PkgName: "optdec", Func: "VerifC11IntFunctors", Tier: "quick", Covers: []string{"null", "fits", "rejected"},
		Desc:    "optdec i8..i64/u8..u64 functors on an arbitrary number node: exact value stored, out-of-range / negative-into-unsigned / non-integer rejected, null leaves the destination untouched (the semantics the generated decoder and encoding/json implement)",
		Bounds:  "node kind in {null, uint, sint, real, true}, all 2^64 payloads, all 8 integer widths",
		Assumes: []string{"the DOM node handed to the functor is what native parse_with_padding builds (KUint for non-negative, KSint for negative integers)"}},
	{Prop: "C11", Pkg: mod + "/internal/decoder/optdec", PkgName: "optdec", Func: "VerifC11Float32Functor", Tier: "quick", Covers: []string{"overflow", "finite"},
		Desc:   "optdec float32 functor: a double is accepted iff its correctly rounded float32 is finite, and that value is stored (SMT floating-point theory for compare/convert)",
		Bounds: "all finite float64 bit patterns"},
	{Prop: "C11", Pkg: mod + "/internal/decoder/optdec", PkgName: "optdec", Func: "VerifC11StructEscapedKey", Tier: "quick", Covers: []string{"end"},
		Desc:   "optdec structDecoder.FromDom on the DOM of {\"a\\/b\":7}: the field lookup uses the unescaped key (as the default decoder and encoding/json do)",
		Bounds: "one document; every option word without DisallowUnknownFields"},
	{Prop: "C11", Pkg: mod + "/internal/decoder/optdec", PkgName: "optdec", Func: "VerifC11SliceBytesEscaped", Tier: "quick", Covers: []string{"escaped", "plain"},
		Desc:   "optdec Node.AsSliceBytes: a base64 string is decoded from its unescaped text (escaped and plain spelling of the same value)",
		Bounds: "the DOMs of \"YWI\\/Yw==\" and \"YWIvYw==\""},
	{Prop: "C19", Pkg: mod + "/internal/decoder/optdec", PkgName: "optdec", Func: "VerifC11IntFunctors", Tier: "quick", Covers: []string{"fits", "rejected"},
		Desc:   "integers convert exactly to every width; out-of-range and non-integer numbers are rejected rather than wrapped or truncated (optdec functors, all payloads)",
		Bounds: "as VerifC11IntFunctors"},
	{Prop: "C19", Pkg: mod + "/internal/decoder/optdec", PkgName: "optdec", Func: "VerifC11Float32Functor", Tier: "quick", Covers: []string{"overflow", "finite"},
		Desc:   "float32 destinations: accepted iff the rounded float32 is finite (as encoding/json), for all finite doubles",
		Bounds: "all finite float64 bit patterns"},

	{Prop: "C01", Pkg: mod + "/internal/caching", PkgName: "caching", Func: "VerifC01FieldMap", Tier: "quick", Covers: []string{"fold-only", "exact", "absent"},
		Desc:    "caching.FieldMap (struct field lookup of the decoders): Get = first field with exactly this name, GetCaseInsensitive = smallest index matching ignoring ASCII case, -1 otherwise; every hash placement",
		Bounds:  "1..2 fields, 1-byte names over {a,A,b}, key over the same alphabet; strhash uninterpreted and injective",
		Assumes: []string{"ASCII names (strings.ToLower modelled on ASCII; non-ASCII folding differs from encoding/json and is outside the bound)"}},
	{Prop: "C18", Pkg: mod + "/internal/encoder", PkgName: "encoder", Func: "VerifC18EncoderSetters", Tier: "quick", Covers: []string{"end"},
		Desc:   "every Encoder setter changes exactly its own bit of an arbitrary option word; option constants equal the shared bit positions (alg.Bit*)",
		Bounds: "7 setters x on/off x every 64-bit option word"},
	{Prop: "C03", Pkg: mod + "/internal/encoder", PkgName: "encoder", Func: "VerifC03EncodeFinish", Tier: "quick", Covers: []string{"end"},
		Desc:   "encodeFinish / encodeFinishWithPool: EscapeHTML then ValidateString post-passes, each exactly once, exactly when the option is set, for every option word",
		Bounds: "every 64-bit option word, valid/invalid UTF-8 verdicts, both variants; the passes themselves are stubs"},
	{Prop: "C18", Pkg: mod + "/internal/encoder", PkgName: "encoder", Func: "VerifC03EncodeFinish", Tier: "quick", Covers: []string{"end"},
		Desc:   "EscapeHTML / ValidateString select exactly their post-pass and nothing else",
		Bounds: "as VerifC03EncodeFinish"},
	{Prop: "C09", Pkg: mod + "/internal/encoder/vars", PkgName: "vars", Func: "VerifC09FindOrCompile", Tier: "quick", Covers: []string{"end"},
		Desc:   "vars.FindOrCompile(vt, pv): the program returned is the one compiled for exactly (vt, pv), whatever was requested before",
		Bounds: "two consecutive requests for one type with symbolic pointer-value flags; compiler uninterpreted"},
	{Prop: "C20", Pkg: mod + "/utf8", PkgName: "utf8", Func: "VerifC20CorrectWith", Tier: "quick", Covers: []string{"long", "end"},
		Desc:    "utf8.CorrectWith: exactly the reported invalid bytes replaced by repl, all others kept in order, dst prefix preserved, across refills of the position list",
		Bounds:  "inputs of 0..4 symbolic bytes, every subset of invalid positions, list flushed every 2 positions",
		Assumes: []string{"native validate_utf8 contract (native/native.h): appends increasing invalid positions, returns non-zero when the list is full with *p at the first unrecorded invalid byte"}},
	{Prop: "C07", Pkg: mod + "/ast", PkgName: "ast", Func: "VerifC07AstErrorDescription", Tier: "quick", Covers: []string{"end"},
		Desc:    "ast.SyntaxError.Description/Error never panic for positions inside the source",
		Bounds:  "source length 0..40, 0 <= Pos <= len, codes 0..12",
		Assumes: []string{"producers report 0 <= Pos <= len(Src) (Parser.syntaxError uses the parser cursor)"}},

	{Prop: "C14", Pkg: mod + "/ast", PkgName: "ast", Func: "VerifC14ObjectGet", Tier: "quick", Covers: []string{"missing", "found", "duplicate"},
		Desc:    "Node.Get on a raw object: first occurrence of the key or not-exist; Raw() and Int64() of the located node describe exactly that value",
		Bounds:  "objects of 3 pairs, 1-byte keys over {a,b} (duplicates included), 1-digit values, search key over {a,b,c}",
		Assumes: []string{"native value/skip_one/skip_one_fast/get_by_path behave like the repository's pure-Go implementations in ast/decode.go and ast/api_compat.go (what non-amd64 builds execute); counterexamples are replayed against the real natives"}},
	{Prop: "C14", Pkg: mod + "/ast", PkgName: "ast", Func: "VerifC14SearcherGet", Tier: "quick", Covers: []string{"missing", "found"},
		Desc:   "Searcher.GetByPath (the Go code around the native path search used by sonic.Get*) agrees with the first-occurrence reference for all 8 SearchOptions combinations",
		Bounds: "objects of 3 pairs as above; ValidateJSON x CopyReturn x ConcurrentRead symbolic"},
	{Prop: "C14", Pkg: mod + "/ast", PkgName: "ast", Func: "VerifC14ArrayIndex", Tier: "quick", Covers: []string{"out-of-range", "found"},
		Desc:   "Node.Index / Len on a raw array for in-range, negative and too-large indexes",
		Bounds: "arrays of 3 one-digit elements, index -1..4"},
	{Prop: "C14", Pkg: mod + "/ast", PkgName: "ast", Func: "VerifC14BigObjectGet", Tier: "quick", Covers: []string{"missing", "indexed", "lazy", "duplicate"},
		Desc:   "Node.Get on a 17-member object (hash index threshold crossed): first occurrence of the key, lazily loaded or fully loaded (indexed)",
		Bounds: "17 pairs; first and last key 'x'+{a,b} (duplicate included), 15 fixed keys; strhash uninterpreted (collisions included)"},
	{Prop: "C14", Pkg: mod + "/ast", PkgName: "ast", Func: "VerifC14LazyHistoryGet", Tier: "quick", Covers: []string{"fresh", "short-prefix", "duplicate"},
		Desc:   "Node.Get / IndexOrGet on a 20-member lazy object return the first occurrence of a (possibly duplicated) key whatever prefix earlier reads (Get, Index, IndexOrGet) made the node load, and again on a second call",
		Bounds: "20 pairs; keys 0, 17, 18 are 'x'+{a,b} (duplicates before/after the 17th member included); 8 kinds of earlier read; two lookups + IndexOrGet fallback"},
	{Prop: "C15", Pkg: mod + "/ast", PkgName: "ast", Func: "VerifC14LazyHistoryGet", Tier: "quick", Covers: []string{"fresh", "duplicate"},
		Desc:   "lazy loading unobservable: what Get answers does not depend on earlier partial loads",
		Bounds: "as VerifC14LazyHistoryGet"},
	{Prop: "C15", Pkg: mod + "/ast", PkgName: "ast", Func: "VerifC14BigObjectGet", Tier: "quick", Covers: []string{"indexed", "lazy"},
		Desc:   "lazy loading unobservable: Get on a 17-member object answers the same before and after LoadAll",
		Bounds: "as VerifC14BigObjectGet"},
	{Prop: "C15", Pkg: mod + "/ast", PkgName: "ast", Func: "VerifC15ObjectOps", Tier: "quick", Covers: []string{"lazy", "loaded", "end"},
		Desc:   "Set/Unset/Get sequences on a 3-member object in raw, lazy or loaded state: every lookup equals an ordered-map model after each step",
		Bounds: "3 distinct 1-byte keys, 1-digit values; all sequences of 2 operations over {Set,Unset,Get} with symbolic key in {a,b,c,d} and value"},
	{Prop: "C15", Pkg: mod + "/ast", PkgName: "ast", Func: "VerifC15ArrayOps", Tier: "quick", Covers: []string{"lazy", "loaded", "end"},
		Desc:   "SetByIndex/UnsetByIndex/Add/Pop sequences on a 3-element array in raw, lazy or loaded state vs. a slice model (every index observed after each step)",
		Bounds: "3 one-digit elements; all sequences of 2 operations with symbolic index -1..4"},
	{Prop: "C07", Pkg: mod + "/ast", PkgName: "ast", Func: "VerifC07NodeUnmarshalJSON", Tier: "quick", Covers: []string{"end"},
		Desc:   "ast.(*Node).UnmarshalJSON never panics on short input (including the empty slice)",
		Bounds: "all inputs of 0..2 bytes"},
	{Prop: "C07", Pkg: mod + "/internal/rt", PkgName: "rt", Func: "VerifC07DecodeBase64", Tier: "quick", Covers: []string{"decoded", "rejected"},
		Desc:    "rt.DecodeBase64 (alternative decoder, []byte destinations) sizes the output buffer for everything the base64 decoder produces: no write past the allocation, no slice-bounds panic",
		Bounds:  "all texts of 0..7 bytes",
		Assumes: []string{"base64x.Encoding.DecodeUnsafe is modelled on the text: k symbols + p pads, accepted shapes as in the harness comment (including the library's acceptance of a 2-symbol final quantum with a single '='), 6k/8 bytes written; replays run the real library"}},
	{Prop: "C11", Pkg: mod + "/internal/rt", PkgName: "rt", Func: "VerifC07DecodeBase64", Tier: "quick", Covers: []string{"decoded", "rejected"},
		Desc:   "as C07 VerifC07DecodeBase64: the alternative decoder's base64 path neither panics nor overruns where the default decoder returns a value or an error",
		Bounds: "all texts of 0..7 bytes"},
	{Prop: "C02", Pkg: mod + "/ast", PkgName: "ast", Func: "VerifC02NewRawTrailing", Tier: "quick", Covers: []string{"valid", "trailing-garbage"},
		Desc:   "ast.NewRaw accepts exactly one value followed only by JSON spaces",
		Bounds: "documents '1' + two bytes over {space, newline, x, comma, 1, ]}"},

	{Prop: "C03", Pkg: mod + "/internal/encoder/alg", PkgName: "alg", Func: "VerifC03IsValidNumber", Tier: "quick", Covers: []string{"valid", "invalid"},
		Desc:   "alg.IsValidNumber agrees with the real encoding/json.isValidNumber (executed from stdlib SSA)",
		Bounds: "all strings of length 0..6"},
	{Prop: "C03", Pkg: mod + "/internal/encoder/alg", PkgName: "alg", Func: "VerifC03InsertRadixSort", Tier: "quick", Covers: []string{"end"},
		Desc:   "SortMapKeys: insertRadixSort leaves the pairs in ascending bytewise key order and is a permutation keeping each key with its value",
		Bounds: "0..4 pairs, keys of 0..2 arbitrary bytes, radix position 0..1 (keys agreeing before it)"},
	{Prop: "C03", Pkg: mod + "/internal/encoder/alg", PkgName: "alg", Func: "VerifC03RadixQsort", Tier: "quick", Covers: []string{"heapsort", "quicksort"},
		Desc:   "SortMapKeys: radixQsort (3-way radix quicksort, > 11 pairs) and its heapsort fallback sort ascending and permute pairs intact",
		Bounds: "12..13 pairs: fixed keys and two arbitrary keys of 0..2 bytes at the pivot sample positions"},
	{Prop: "C03", Pkg: mod + "/internal/encoder/alg", PkgName: "alg", Func: "VerifC03RadixQsort3", Tier: "thorough", Covers: []string{"heapsort", "quicksort"},
		Desc:   "as VerifC03RadixQsort",
		Bounds: "12..13 pairs: fixed keys and three arbitrary keys of 0..2 bytes at all three pivot sample positions (110k paths, ~20 min)"},

	{Prop: "C09", Pkg: mod + "/internal/caching", PkgName: "caching", Func: "VerifC09PcacheStep4", Tier: "quick", Covers: []string{"rehash", "norehash"},
		Desc:   "_ProgramMap.add from an arbitrary valid map: copy-on-write, new key found, old keys keep their values, absent keys stay absent (equal hashes are not equal types), load factor kept",
		Bounds: "capacity 4, every occupancy pattern with <= 2 entries, symbolic 32-bit hashes (inductive step: covers histories of any length that keep the invariant)"},
	{Prop: "C09", Pkg: mod + "/loader", PkgName: "loader", Func: "VerifC09LoadMany", Tier: "quick", Covers: []string{"distinct", "same-name"},
		Desc:    "loader.LoadMany/Load: every result is mapped back to its own input item (out[i] = entry of item i), for every equality pattern among function names, including 131-byte names that differ only in the last byte",
		Bounds:  "batches of 3 items, names = 130-byte common prefix + one symbolic byte over {a,b,c}, text sizes 1,2,3",
		Assumes: []string{"makeModuledata only sorts *funcs by entry offset and returns the text base (stub); moduledataverify1/registerModule have no effect on the mapping"}},
	{Prop: "C09", Pkg: mod + "/internal/caching", PkgName: "caching", Func: "VerifC09PcacheStep8", Tier: "thorough", Covers: []string{"rehash", "norehash"},
		Desc:   "same as VerifC09PcacheStep4 with capacity 8",
		Bounds: "capacity 8, every occupancy pattern with <= 4 entries, symbolic hashes"},
}
