package main

import "verif/engine/gosym"

const mod = "github.com/bytedance/sonic"

type HarnessSpec struct {
	Prop         string
	Pkg          string   // import path of the package the harness is injected into
	PkgName      string   // Go package name
	Func         string   // harness function
	Tier         string   // "quick" (runs in both tiers), "thorough" (thorough only)
	Covers       []string // cover points that must be reached (vacuity guard)
	Desc         string
	Bounds       string
	Assumes      []string
	ExtraPkgs    []string
	GOARCH       string
	Lim          gosym.Limits
	MaxPaths     int
	GrowSlack    int
	NoMerge      bool
	NoReplay     bool
	TimeoutMs    int
	OpaqueStrMax int
	ReplayEnv    []string
}

func allHarnesses() []HarnessSpec {
	return registry
}

func harnessesFor(prop, tier string) []HarnessSpec {
	var r []HarnessSpec
	for _, s := range registry {
		if s.Prop != prop {
			continue
		}
		if s.Tier == "thorough" && tier != "thorough" {
			continue
		}
		if s.Tier == "quickonly" && tier != "quick" {
			continue
		}
		r = append(r, s)
	}
	return r
}

var registry = []HarnessSpec{
	{Prop: "C18", Pkg: mod, PkgName: "sonic", Func: "VerifC18Froze", Tier: "quick", Covers: []string{"end"},
		Desc:   "Config.Froze: encoderOpts/decoderOpts equal the OR of exactly the documented option constants, for every Config",
		Bounds: "all 2^16 boolean Config fields symbolic (one query per assertion)"},
}
