package main

import (
	"encoding/json"
	"fmt"
	"os"
	"os/exec"
	"path/filepath"

	"verif/engine/gosym"
)

// Tier 3: dump the instruction lists the JIT assemblers emit for a fixed type family (by
// running the repository's own compiler + assembler in a `go test` with overlay files) and
// run the asm harnesses on them.

func t3DumpDir() string { return filepath.Join(verifDir, "work", "t3dump") }

func runT3Dump(verbose bool, specs []HarnessSpec) error {
	dir := t3DumpDir()
	os.RemoveAll(dir)
	os.MkdirAll(dir, 0o755)
	work := filepath.Join(verifDir, "work")
	gowork, _ := gosym.PrepareGoWork(repoDir, work)
	ov := map[string]map[string]string{"Replace": {
		filepath.Join(repoDir, "internal/jit/zz_verif_dump.go"):                filepath.Join(verifDir, "harness/internal/jit/dump.go"),
		filepath.Join(repoDir, "internal/decoder/jitdec/zz_verif_dump_test.go"): filepath.Join(verifDir, "harness/internal/decoder/jitdec/dump_test.go"),
		filepath.Join(repoDir, "internal/encoder/x86/zz_verif_dump.go"):         filepath.Join(verifDir, "harness/internal/encoder/x86/dump.go"),
		filepath.Join(repoDir, "internal/encoder/zz_verif_dump_test.go"):        filepath.Join(verifDir, "harness/internal/encoder/dump_test.go"),
	}}
	b, _ := json.Marshal(ov)
	ovp := filepath.Join(work, "overlay_t3.json")
	os.WriteFile(ovp, b, 0o644)
	// which assemblers are needed: dec_* dumps come from jitdec, enc_* dumps from the encoder
	pkgs := map[string]bool{}
	for _, s := range specs {
		if len(s.Asm) > 4 && s.Asm[:4] == "enc_" {
			pkgs["./internal/encoder/"] = true
		} else {
			pkgs["./internal/decoder/jitdec/"] = true
		}
	}
	for pkg := range pkgs {
		cmd := exec.Command("go", "test", "-tags", "verif", "-vet=off", "-count=1", "-overlay", ovp, "-run", "^TestVerifDump$", pkg)
		cmd.Dir = repoDir
		cmd.Env = append(os.Environ(), "GOFLAGS=", "GOPROXY=off", "GOSUMDB=off", "GOTOOLCHAIN=local", "GOWORK="+gowork, "VERIF_DUMP_DIR="+dir)
		out, err := cmd.CombinedOutput()
		if verbose {
			fmt.Fprintln(os.Stderr, string(out))
		}
		if err != nil {
			return fmt.Errorf("tier-3 dump failed (%s): %v\n%s", pkg, err, out)
		}
	}
	return nil
}

func t3Body(s HarnessSpec) (func(x *gosym.Exec), error) {
	p, err := gosym.LoadAsmProg(filepath.Join(t3DumpDir(), s.Asm+".json"))
	if err != nil {
		return nil, err
	}
	switch s.T3 {
	case "lspace":
		return gosym.T3LspaceMonitor(p), nil
	case "f32range":
		return gosym.T3Float32Range(p), nil
	case "intrange":
		return gosym.T3IntRange(p, s.T3Bits, s.T3Signed, s.T3Native), nil
	case "structopts":
		return gosym.T3StructFieldOptions(p), nil
	case "structsyntax":
		return gosym.T3StructSyntax(p, s.T3Native), nil
	case "mapkey":
		return gosym.T3MapKeyRange(p, "map_key_u32", s.T3Bits, s.T3Native), nil
	case "slice":
		return gosym.T3SliceDecode(p), nil
	case "array":
		return gosym.T3ArrayDecode(p, s.T3Bits), nil
	case "encbuf":
		return gosym.T3EncBufferBounds(p, s.T3Native), nil
	case "b64cap":
		return gosym.T3Base64Cap(p), nil
	case "encdepth":
		return gosym.T3EncDepthRule(p), nil
	case "enctoodeep":
		return gosym.T3EncTooDeepError(p), nil
	case "genblank":
		return gosym.T3GenericBlankLoads(p), nil
	case "gentable":
		return gosym.T3GenericTables(p), nil
	case "gendepth":
		return gosym.T3GenericDepth(p), nil
	case "unquoteflags":
		return gosym.T3UnquoteFlags(p), nil
	}
	return nil, fmt.Errorf("unknown tier-3 check %q", s.T3)
}
