package main

import (
	"encoding/json"
	"fmt"
	"os"
	"os/exec"
	"path/filepath"
	"strconv"
	"strings"
	"time"

	"verif/engine/gosym"
)

// Engine B (engine/x86sym): symbolic execution of the machine code of the native subroutines.
// The engine is a Python program on the z3 API; vcheck runs it, turns its JSON into a
// HarnessResult (evidence), matches known findings and replays violations natively through
// VerifX86Replay (harness/internal/native/x86_replay.go).

const x86Python = "/opt/veriftools/pyvenv/bin/python3"

type x86Out struct {
	Check        string                   `json:"check"`
	Funcs        []string                 `json:"functions_encoded"`
	Bounds       string                   `json:"bounds"`
	Cases        int                      `json:"cases"`
	Paths        int                      `json:"paths"`
	Instructions int64                    `json:"instructions"`
	Queries      int                      `json:"queries"`
	Unsat        int                      `json:"queries_unsat"`
	Sat          int                      `json:"queries_sat"`
	Unknown      int                      `json:"queries_unknown"`
	SolverS      float64                  `json:"solver_time_s"`
	Violations   []map[string]interface{} `json:"violations"`
	Incomplete   []string                 `json:"incomplete"`
	Overread     int                      `json:"overread_paths"`
	WallS        float64                  `json:"wall_s"`
}

var x86RoutineID = map[string]uint64{"lspace": 1, "vsigned": 2, "vunsigned": 3, "validate_utf8_fast": 4, "skip_number": 5, "html_escape": 6, "quote": 7, "u64toa": 8, "i64toa": 9, "unquote": 10}

func runX86(s HarnessSpec, tier string, known []gosym.KnownFinding, verbose bool) (*gosym.HarnessResult, *x86Out, error) {
	work := filepath.Join(verifDir, "work")
	os.MkdirAll(work, 0o755)
	outp := filepath.Join(work, "x86_"+s.X86+".json")
	os.Remove(outp)
	t0 := time.Now()
	cmd := exec.Command(x86Python, filepath.Join(verifDir, "engine", "x86sym", "x86checks.py"), "--check", s.X86, "--tier", tier, "--json", outp)
	cmd.Env = append(os.Environ(), "VERIF_REPO="+repoDir)
	b, err := cmd.CombinedOutput()
	if verbose {
		fmt.Fprintln(os.Stderr, string(b))
	}
	if err != nil {
		return nil, nil, fmt.Errorf("x86 engine failed on %s: %v: %s", s.X86, err, firstLine(string(b)))
	}
	jb, err := os.ReadFile(outp)
	if err != nil {
		return nil, nil, err
	}
	var o x86Out
	if err := json.Unmarshal(jb, &o); err != nil {
		return nil, nil, err
	}
	r := &gosym.HarnessResult{Harness: "x86:" + s.X86, Paths: o.Paths, PathsDone: o.Paths, Steps: o.Instructions,
		Covers: map[string]bool{}, Notes: map[string]int{}, Problems: map[string]int{}, Funcs: map[string]bool{}}
	r.Stats.Queries, r.Stats.NSat, r.Stats.NUnsat, r.Stats.NUnknown = o.Queries, o.Sat, o.Unsat, o.Unknown
	r.Stats.SolveTime = time.Duration(o.SolverS * float64(time.Second))
	r.Unknowns = o.Unknown
	r.WallS = time.Since(t0).Seconds()
	for _, f := range o.Funcs {
		r.Funcs[f] = true
	}
	if o.Paths > 0 {
		r.Covers["paths"] = true
	}
	if o.Cases > 0 {
		r.Covers["cases"] = true
	}
	for _, m := range o.Incomplete {
		r.Problems[firstLine(m)]++
		r.NotEncoded++
	}
	r.Ended = len(o.Violations)
	for _, v := range o.Violations {
		kind, _ := v["kind"].(string)
		variant, _ := v["variant"].(string)
		routine, _ := v["routine"].(string)
		msg, _ := v["msg"].(string)
		model := map[string]uint64{"routine": x86RoutineID[routine]}
		switch variant {
		case "avx2":
			model["variant"] = 1
		case "sse":
			model["variant"] = 2
		default:
			model["variant"] = 0
		}
		if c, ok := v["case"].(map[string]interface{}); ok {
			for k, x := range c {
				switch t := x.(type) {
				case float64:
					model[k] = uint64(int64(t))
				case bool:
					if t {
						model[k] = 1
					} else {
						model[k] = 0
					}
				}
			}
		}
		if in, ok := v["input"].([]interface{}); ok {
			for i, x := range in {
				if f, ok := x.(float64); ok {
					model["b"+strconv.Itoa(i)] = uint64(f)
					model["last"] = uint64(f)
				}
			}
		}
		if ex, ok := v["extra"].(map[string]interface{}); ok {
			for k, x := range ex {
				if f, ok := x.(float64); ok {
					model[k] = uint64(int64(f))
				}
			}
		}
		pos := routine + "/" + variant
		if i := strings.Index(msg, "pc="); i >= 0 {
			pos += " " + msg[i:]
		}
		gv := gosym.Violation{Kind: kind, Msg: routine + ": " + msg, Pos: pos, Model: model, Harness: "x86:" + s.X86}
		for _, k := range known {
			if k.Status != "open" || k.Harness != "x86:"+s.X86 || !strings.Contains(gv.Msg, k.Site) {
				continue
			}
			ok := true
			for _, w := range k.When {
				if len(w) != 3 {
					ok = false
					break
				}
				want, _ := strconv.ParseUint(w[2], 10, 64)
				got, has := model[w[0]]
				switch w[1] {
				case "==":
					ok = ok && has && got == want
				case "!=":
					ok = ok && has && got != want
				default:
					ok = false
				}
			}
			if ok {
				gv.Known = k.ID
				break
			}
		}
		r.Violations = append(r.Violations, gv)
	}
	return r, &o, nil
}
