package gosym

import (
	"encoding/hex"
	"encoding/json"
	"fmt"
	"os"
	"strings"

	"verif/engine/smt"
)

// Tier 3: symbolic execution of the instruction lists the repository's JIT assemblers emit
// (golang-asm obj.Prog lists, dumped as data by an overlay test before machine-code assembly).
// Shares path exploration, memory, checks and models with the go/ssa executor.

type AsmOperand struct {
	K string `json:"k"`
	R string `json:"r"`
	X string `json:"x"`
	S int    `json:"s"`
	O int64  `json:"o"`
	T int    `json:"t"`
	Y string `json:"y"`
}

type AsmIns struct {
	I    int          `json:"i"`
	Op   string       `json:"op"`
	F    AsmOperand   `json:"f"`
	T    AsmOperand   `json:"t"`
	Rest []AsmOperand `json:"rest"`
	L    []string     `json:"l"`
	Xref string       `json:"xref"`
}

type AsmProg struct {
	Name    string            `json:"name"`
	Kind    string            `json:"kind"`
	Program []string          `json:"program"`
	Ins     []AsmIns          `json:"ins"`
	Mem     map[string]string `json:"mem"` // absolute address (decimal) -> hex bytes readable there
	Consts  map[string]int64  `json:"consts"`
	Ops     []AsmOp           `json:"ops"` // structured program (decoder dumps): op, char, target(s)
	labels  map[string]int
}

func LoadAsmProg(path string) (*AsmProg, error) {
	b, err := os.ReadFile(path)
	if err != nil {
		return nil, err
	}
	p := &AsmProg{}
	if err := json.Unmarshal(b, p); err != nil {
		return nil, err
	}
	p.labels = map[string]int{}
	for _, in := range p.Ins {
		for _, l := range in.L {
			p.labels[l] = in.I
		}
	}
	return p, nil
}

func (p *AsmProg) Label(prefix string) []int {
	var r []int
	for l, i := range p.labels {
		if strings.HasPrefix(l, prefix) {
			r = append(r, i)
		}
	}
	return r
}

// SymAddr is an absolute address the JIT embedded as an immediate (native routine, Go function,
// data); Name is what the dump resolved it to.
type SymAddr struct {
	Name string
	Addr uint64
}

type asmFlags struct{ cf, zf, sf, of, pf *smt.Term }

type AsmState struct {
	R     map[string]Value
	X     map[string]*smt.Term // low 64 bits of each XMM register
	fl    asmFlags
	PC    int
	ret   []int // return stack of in-program calls
	Steps int
	Trace []int
	// Lenient: memory this window does not model is angelic: a load through an address that is not
	// a modelled object (or through Watch with an index register) yields a fresh arbitrary value,
	// a store there is dropped. Sound for checks that only constrain addresses, not contents.
	Lenient bool
	Watch   string
	curIns  *AsmIns // instruction being executed (immediate-width rule in asmGet)
}

type AsmHooks struct {
	// OnIns is called before each instruction; return false to stop execution (outcome "stopped").
	OnIns func(st *AsmState, in *AsmIns) bool
	// OnCall handles CALL of an absolute symbol; return false if unknown.
	OnCall func(st *AsmState, sym SymAddr) bool
}

func (x *Exec) asmReg(st *AsmState, name string) Value {
	if v, ok := st.R[name]; ok {
		return v
	}
	v := Value(x.junk(64))
	st.R[name] = v
	return v
}

func (x *Exec) asmTerm(v Value) *smt.Term {
	switch t := v.(type) {
	case *smt.Term:
		return t
	case Ptr:
		if t.Obj == nil {
			return t.Off
		}
	case SymAddr:
		return x.st.Const(64, t.Addr)
	}
	x.notEncoded("asm: pointer used as a number (%T)", v)
	return nil
}

// asmEA computes the effective address of a memory operand.
func (x *Exec) asmEA(st *AsmState, o *AsmOperand) Value {
	var base Value = x.c64(0)
	if o.R != "" {
		base = x.asmReg(st, o.R)
	}
	var idx *smt.Term
	if o.X != "" {
		iv := x.asmReg(st, o.X)
		if ip, ok := iv.(Ptr); ok && ip.Obj != nil {
			// index register holds the pointer, base the offset
			bt := x.asmTerm(base)
			if o.S != 1 && o.S != 0 {
				x.notEncoded("asm: scaled pointer index")
			}
			return x.ptrAddConst(x.ptrAdd(ip, bt, 1), int(o.O))
		}
		idx = x.asmTerm(iv)
		if o.S > 1 {
			idx = x.st.Mul(idx, x.c64(int64(o.S)))
		}
	}
	switch b := base.(type) {
	case Ptr:
		p := b
		if idx != nil {
			p = x.ptrAdd(p, idx, max(o.S, 1))
		}
		return x.ptrAddConst(p, int(o.O))
	case SymAddr:
		if idx == nil {
			return SymAddr{b.Name, b.Addr + uint64(o.O)}
		}
	case *smt.Term:
		t := b
		if idx != nil {
			t = x.st.Add(t, idx)
		}
		return x.st.Add(t, x.c64(o.O))
	}
	x.notEncoded("asm: effective address of %+v", *o)
	return nil
}

func (x *Exec) asmLoadMem(p *AsmProg, st *AsmState, o *AsmOperand, size int) Value {
	if o.R != "" {
		if ca, ok := st.R[o.R].(codeAddr); ok {
			// load from a jump table inside the program: entry k of the LONG list after the label
			if o.X == "" || o.S != 4 || size != 4 {
				x.notEncoded("asm: unsupported access to in-program data")
			}
			k := int(int64(x.Concretize(x.asmTerm(x.asmReg(st, o.X))))) + int(o.O)/4
			ei := ca.idx + 1 + k
			if k < 0 || ei >= len(p.Ins) || p.Ins[ei].Op != "LONG" {
				x.check(x.st.False, "assert", "generated code indexes a jump table out of range")
				x.abort(abEnd, "table")
			}
			if p.Ins[ei].Xref == "" {
				return x.st.Const(32, 0)
			}
			t, ok := p.labels[p.Ins[ei].Xref]
			if !ok {
				x.notEncoded("asm: jump table entry refers to an unknown label")
			}
			return codeRel{table: ca.idx, target: t}
		}
	}
	if st.Lenient && o.R == st.Watch && o.X != "" {
		return x.junk(size * 8)
	}
	ea := x.asmEA(st, o)
	if sa, ok := ea.(SymAddr); ok && strings.HasPrefix(sa.Name, "var.") {
		return x.junk(size * 8) // a runtime variable: any value
	}
	if st.Lenient {
		switch a := ea.(type) {
		case Ptr:
			if a.Obj == nil && !(a.Off.IsConst() && p.Mem[fmt.Sprint(a.Off.Val)] != "") {
				return x.junk(size * 8)
			}
		case *smt.Term:
			if !(a.IsConst() && p.Mem[fmt.Sprint(a.Val)] != "") {
				return x.junk(size * 8)
			}
		case SymAddr:
			if p.Mem[fmt.Sprint(a.Addr)] == "" {
				return x.junk(size * 8)
			}
		}
	}
	switch a := ea.(type) {
	case Ptr:
		if a.Obj == nil {
			if a.Off.IsConst() {
				return x.asmLoadAbs(p, a.Off.Val, size)
			}
			x.notEncoded("asm: load through a symbolic integer address")
		}
		x.checkAccess(a, size, "load")
		if size == 8 {
			return x.loadLeafP(a, 0, 8, lkUintptr)
		}
		return x.loadLeafP(a, 0, size, lkInt)
	case SymAddr:
		return x.asmLoadAbs(p, a.Addr, size)
	case *smt.Term:
		if a.IsConst() {
			return x.asmLoadAbs(p, a.Val, size)
		}
	}
	x.notEncoded("asm: load from %T", ea)
	return nil
}

func (x *Exec) asmLoadAbs(p *AsmProg, addr uint64, size int) Value {
	hx, ok := p.Mem[fmt.Sprint(addr)]
	if !ok {
		x.notEncoded("asm: load from absolute address %#x not in the dumped image", addr)
	}
	b, _ := hex.DecodeString(hx)
	if len(b) < size {
		x.notEncoded("asm: dumped image too short at %#x", addr)
	}
	var v uint64
	for i := size - 1; i >= 0; i-- {
		v = v<<8 | uint64(b[i])
	}
	return x.st.Const(size*8, v)
}

func (x *Exec) asmStoreMem(st *AsmState, o *AsmOperand, size int, v Value) {
	if st.Lenient && o.R == st.Watch && o.X != "" {
		return
	}
	ea := x.asmEA(st, o)
	a, ok := ea.(Ptr)
	if st.Lenient && (!ok || a.Obj == nil) {
		return
	}
	if !ok || a.Obj == nil {
		x.check(x.st.False, "memory", "generated code stores through a non-pointer address")
		x.abort(abEnd, "memory")
	}
	x.checkAccess(a, size, "store")
	if t, ok := v.(*smt.Term); ok && t.W != size*8 {
		v = x.st.Extract(t, size*8-1, 0)
	}
	x.storeLeafP(a, 0, size, v)
}

// asmGet reads an operand of the given size (bytes) as a Value (64-bit regs may hold pointers).
func (x *Exec) asmGet(p *AsmProg, st *AsmState, o *AsmOperand, size int) Value {
	switch o.K {
	case "reg":
		v := x.asmReg(st, o.R)
		if size == 8 {
			return v
		}
		return x.st.Extract(x.asmTerm(v), size*8-1, 0)
	case "const":
		if o.Y != "" && o.Y != "addr" {
			return SymAddr{o.Y, uint64(o.O)}
		}
		c := uint64(o.O)
		if size == 8 && st.curIns != nil && c >= 1<<31 && c < 1<<32 {
			// x86-64 has no 64-bit immediates outside MOV to a register: an immediate in
			// [2^31, 2^32) is emitted as imm32 and SIGN-extended by the processor
			in := st.curIns
			if !(in.Op == "MOVQ" && in.T.K == "reg") {
				c |= 0xFFFFFFFF00000000
			}
		}
		return x.st.Const(size*8, c)
	case "mem":
		return x.asmLoadMem(p, st, o, size)
	}
	x.notEncoded("asm: operand kind %q", o.K)
	return nil
}

func (x *Exec) asmSet(st *AsmState, o *AsmOperand, size int, v Value) {
	switch o.K {
	case "reg":
		if size == 8 {
			st.R[o.R] = v
			return
		}
		t := x.asmTerm(v)
		if t.W > size*8 {
			t = x.st.Extract(t, size*8-1, 0)
		}
		if size == 4 {
			st.R[o.R] = x.st.ZExt(t, 64) // 32-bit writes zero the upper half
			return
		}
		old := x.asmTerm(x.asmReg(st, o.R))
		st.R[o.R] = x.st.Concat(x.st.Extract(old, 63, size*8), t)
	case "mem":
		x.asmStoreMem(st, o, size, v)
	default:
		x.notEncoded("asm: store to operand kind %q", o.K)
	}
}

func (x *Exec) asmSetFlagsLogic(st *AsmState, r *smt.Term) {
	s := x.st
	st.fl = asmFlags{cf: s.False, of: s.False, zf: s.Eq(r, s.Const(r.W, 0)), sf: s.Eq(s.Extract(r, r.W-1, r.W-1), s.Const(1, 1)), pf: s.False}
}

func (x *Exec) asmSetFlagsSub(st *AsmState, a, b *smt.Term) *smt.Term {
	s := x.st
	r := s.Sub(a, b)
	w := r.W
	sa, sb, sr := s.Extract(a, w-1, w-1), s.Extract(b, w-1, w-1), s.Extract(r, w-1, w-1)
	one := s.Const(1, 1)
	st.fl = asmFlags{
		cf: s.Ult(a, b),
		zf: s.Eq(a, b),
		sf: s.Eq(sr, one),
		of: s.BAnd(s.Ne(sa, sb), s.Ne(sr, sa)),
		pf: s.False,
	}
	return r
}

func (x *Exec) asmSetFlagsAdd(st *AsmState, a, b *smt.Term) *smt.Term {
	s := x.st
	r := s.Add(a, b)
	w := r.W
	sa, sb, sr := s.Extract(a, w-1, w-1), s.Extract(b, w-1, w-1), s.Extract(r, w-1, w-1)
	one := s.Const(1, 1)
	st.fl = asmFlags{
		cf: s.Ult(r, a),
		zf: s.Eq(r, s.Const(w, 0)),
		sf: s.Eq(sr, one),
		of: s.BAnd(s.Eq(sa, sb), s.Ne(sr, sa)),
		pf: s.False,
	}
	return r
}

func (x *Exec) asmCond(st *AsmState, cc string) *smt.Term {
	s := x.st
	f := st.fl
	if f.zf == nil {
		x.notEncoded("asm: condition %s with undefined flags", cc)
	}
	switch cc {
	case "EQ":
		return f.zf
	case "NE":
		return s.BNot(f.zf)
	case "CS", "LO":
		return f.cf
	case "CC", "HS":
		return s.BNot(f.cf)
	case "HI":
		return s.BAnd(s.BNot(f.cf), s.BNot(f.zf))
	case "LS":
		return s.BOr(f.cf, f.zf)
	case "MI":
		return f.sf
	case "PL":
		return s.BNot(f.sf)
	case "LT":
		return s.BXor(f.sf, f.of)
	case "GE":
		return s.BNot(s.BXor(f.sf, f.of))
	case "GT":
		return s.BAnd(s.BNot(f.zf), s.BNot(s.BXor(f.sf, f.of)))
	case "LE":
		return s.BOr(f.zf, s.BXor(f.sf, f.of))
	case "OS":
		return f.of
	case "OC":
		return s.BNot(f.of)
	case "PS":
		return f.pf
	case "PC":
		return s.BNot(f.pf)
	}
	x.notEncoded("asm: condition code %s", cc)
	return nil
}

var asmSizes = map[byte]int{'B': 1, 'W': 2, 'L': 4, 'Q': 8}

// RunAsm executes p from st.PC until the outermost RET (outcome "ret"), a hook stops it, or the
// step budget is exhausted.
func (x *Exec) RunAsm(p *AsmProg, st *AsmState, hooks AsmHooks, maxSteps int) string {
	s := x.st
	x.funcs["jit-program:"+p.Name+fmt.Sprintf(" (%d instructions)", len(p.Ins))] = true
	for {
		if st.PC < 0 || st.PC >= len(p.Ins) {
			x.notEncoded("asm: pc %d outside the program", st.PC)
		}
		in := &p.Ins[st.PC]
		st.Steps++
		x.steps++
		if st.Steps > maxSteps {
			x.abort(abBudget, "asm step budget exhausted in %s", p.Name)
		}
		pcBefore := st.PC
		if hooks.OnIns != nil && !hooks.OnIns(st, in) {
			return "stopped"
		}
		if st.PC != pcBefore {
			continue // the hook summarised a stretch of code and moved the program counter
		}
		next := st.PC + 1
		op := in.Op
		st.curIns = in
		switch {
		case op == "NOP":
		case op == "RET":
			if len(st.ret) == 0 {
				return "ret"
			}
			next = st.ret[len(st.ret)-1]
			st.ret = st.ret[:len(st.ret)-1]
			sp := x.asmReg(st, "SP").(Ptr)
			st.R["SP"] = x.ptrAddConst(sp, 8)
		case op == "JMP":
			if in.T.K == "branch" {
				next = in.T.T
			} else {
				// indirect jump (switch tables): target must be a concrete code label token
				tv := x.asmGet(p, st, &in.T, 8)
				if ct, ok := tv.(codeAddr); ok {
					next = ct.idx
				} else {
					x.notEncoded("asm: indirect jump through %T", tv)
				}
			}
		case op == "CALL":
			if in.T.K == "branch" {
				sp := x.asmReg(st, "SP").(Ptr)
				st.R["SP"] = x.ptrAddConst(sp, -8)
				st.ret = append(st.ret, st.PC+1)
				next = in.T.T
				break
			}
			tv := x.asmGet(p, st, &in.T, 8)
			sym, ok := tv.(SymAddr)
			if !ok {
				x.notEncoded("asm: CALL through %T", tv)
			}
			if strings.Contains(sym.Name, "runtime.gcWriteBarrier") {
				// the write-barrier entry points preserve every register and return a pointer
				// to buffer slots in R11
				st.R["R11"] = Ptr{Obj: x.newObject(64, nil, "wbuf"), Off: x.c64(0)}
				break
			}
			if hooks.OnCall == nil || !hooks.OnCall(st, sym) {
				x.notEncoded("asm: call of %s has no model", sym.Name)
			}
		case len(op) > 1 && op[0] == 'J':
			if in.T.K != "branch" {
				x.notEncoded("asm: conditional jump with non-branch target")
			}
			if x.Branch(x.asmCond(st, op[1:])) {
				next = in.T.T
			}
		case strings.HasPrefix(op, "CMOVQ"):
			c := x.asmCond(st, op[5:])
			a, b := x.asmGet(p, st, &in.F, 8), x.asmGet(p, st, &in.T, 8)
			if m, ok := x.iteValue(c, a, b); ok {
				x.asmSet(st, &in.T, 8, m)
			} else if x.Branch(c) {
				x.asmSet(st, &in.T, 8, a)
			}
		case strings.HasPrefix(op, "SET") && len(op) == 5:
			x.asmSet(st, &in.T, 1, s.BoolToBV(x.asmCond(st, op[3:]), 8))
		case op == "MOVQ" || op == "MOVL" || op == "MOVW" || op == "MOVB":
			sz := asmSizes[op[3]]
			x.asmSet(st, &in.T, sz, x.asmGet(p, st, &in.F, sz))
		case op == "MOVBQZX" || op == "MOVBLZX" || op == "MOVWQZX" || op == "MOVWLZX" || op == "MOVLQZX":
			sz := asmSizes[op[3]]
			x.asmSet(st, &in.T, 8, s.ZExt(x.asmTerm(x.asmGet(p, st, &in.F, sz)), 64))
		case op == "MOVBQSX" || op == "MOVWQSX" || op == "MOVLQSX":
			sz := asmSizes[op[3]]
			v := x.asmGet(p, st, &in.F, sz)
			if cr, ok := v.(codeRel); ok {
				st.R[in.T.R] = cr
				break
			}
			x.asmSet(st, &in.T, 8, s.SExt(x.asmTerm(v), 64))
		case op == "LEAQ":
			x.asmSet(st, &in.T, 8, x.asmEA(st, &in.F))
		case op == "XCHGQ":
			a, b := x.asmGet(p, st, &in.F, 8), x.asmGet(p, st, &in.T, 8)
			x.asmSet(st, &in.F, 8, b)
			x.asmSet(st, &in.T, 8, a)
		case op == "ADDQ" || op == "SUBQ" || op == "ADDL" || op == "SUBL":
			sz := asmSizes[op[3]]
			a := x.asmGet(p, st, &in.T, sz)
			bv := x.asmGet(p, st, &in.F, sz)
			if cr, ok := a.(codeRel); ok {
				if ca, ok := bv.(codeAddr); ok && ca.idx == cr.table && op == "ADDQ" {
					st.R[in.T.R] = codeAddr{cr.target}
					st.fl = asmFlags{}
					break
				}
				x.notEncoded("asm: arithmetic on a jump-table entry")
			}
			if ap, ok := a.(Ptr); ok && ap.Obj != nil {
				// pointer arithmetic (SP adjustment, cursor advance)
				if bp, ok := bv.(Ptr); ok && bp.Obj == ap.Obj && op == "SUBQ" {
					x.asmSet(st, &in.T, 8, x.asmSetFlagsSub(st, ap.Off, bp.Off))
					break
				}
				d := x.asmTerm(bv)
				if op[:3] == "SUB" {
					d = s.Neg(d)
				}
				st.fl = asmFlags{}
				x.asmSet(st, &in.T, 8, x.ptrAdd(ap, d, 1))
				break
			}
			if bp, ok := bv.(Ptr); ok && bp.Obj != nil && op == "ADDQ" {
				st.fl = asmFlags{}
				x.asmSet(st, &in.T, 8, x.ptrAdd(bp, x.asmTerm(a), 1))
				break
			}
			at, bt := x.asmTerm(a), x.asmTerm(bv)
			if op[:3] == "ADD" {
				x.asmSet(st, &in.T, sz, x.asmSetFlagsAdd(st, at, bt))
			} else {
				x.asmSet(st, &in.T, sz, x.asmSetFlagsSub(st, at, bt))
			}
		case op == "CMPQ" || op == "CMPL" || op == "CMPW" || op == "CMPB":
			sz := asmSizes[op[3]]
			a, b := x.asmGet(p, st, &in.F, sz), x.asmGet(p, st, &in.T, sz)
			ap, aok := a.(Ptr)
			bp, bok := b.(Ptr)
			if aok && bok && ap.Obj != nil && ap.Obj == bp.Obj {
				x.asmSetFlagsSub(st, ap.Off, bp.Off)
				break
			}
			if (aok && ap.Obj != nil) || (bok && bp.Obj != nil) {
				// live pointer vs number: only equality with nil is meaningful
				st.fl = asmFlags{cf: s.False, zf: s.False, sf: s.False, of: s.False, pf: s.False}
				break
			}
			x.asmSetFlagsSub(st, x.asmTerm(a), x.asmTerm(b))
		case op == "TESTQ" || op == "TESTL" || op == "TESTB":
			sz := asmSizes[op[4]]
			a, b := x.asmGet(p, st, &in.F, sz), x.asmGet(p, st, &in.T, sz)
			if ap, ok := a.(Ptr); ok && ap.Obj != nil {
				st.fl = asmFlags{cf: s.False, zf: s.False, sf: s.False, of: s.False, pf: s.False}
				break
			}
			if _, ok := a.(codeRel); ok {
				st.fl = asmFlags{cf: s.False, zf: s.False, sf: s.False, of: s.False, pf: s.False}
				break
			}
			if sa, ok := a.(SymAddr); ok {
				a = s.Const(64, sa.Addr)
			}
			x.asmSetFlagsLogic(st, s.And(x.asmTerm(a), x.asmTerm(b)))
		case op == "ANDQ" || op == "ANDL" || op == "ORQ" || op == "ORL" || op == "XORQ" || op == "XORL":
			sz := asmSizes[op[len(op)-1]]
			if in.F.K == "reg" && in.T.K == "reg" && in.F.R == in.T.R && strings.HasPrefix(op, "XOR") {
				x.asmSet(st, &in.T, sz, s.Const(sz*8, 0))
				x.asmSetFlagsLogic(st, s.Const(sz*8, 0))
				break
			}
			a, b := x.asmTerm(x.asmGet(p, st, &in.T, sz)), x.asmTerm(x.asmGet(p, st, &in.F, sz))
			var r *smt.Term
			switch op[:2] {
			case "AN":
				r = s.And(a, b)
			case "OR":
				r = s.Or(a, b)
			default:
				r = s.Xor(a, b)
			}
			x.asmSet(st, &in.T, sz, r)
			x.asmSetFlagsLogic(st, r)
		case op == "NOTQ":
			x.asmSet(st, &in.T, 8, s.Not(x.asmTerm(x.asmGet(p, st, &in.T, 8))))
		case op == "NEGQ":
			a := x.asmTerm(x.asmGet(p, st, &in.T, 8))
			x.asmSet(st, &in.T, 8, x.asmSetFlagsSub(st, s.Const(64, 0), a))
		case op == "SHLQ" || op == "SHRQ" || op == "SHRL" || op == "SHLL" || op == "SARQ":
			sz := asmSizes[op[3]]
			a := x.asmTerm(x.asmGet(p, st, &in.T, sz))
			c := x.asmTerm(x.asmGet(p, st, &in.F, sz))
			c = s.And(c, s.Const(sz*8, uint64(sz*8-1)))
			var r *smt.Term
			switch op[:3] {
			case "SHL":
				r = s.Shl(a, c)
			case "SHR":
				r = s.LShr(a, c)
			default:
				r = s.AShr(a, c)
			}
			x.asmSet(st, &in.T, sz, r)
			st.fl = asmFlags{}
		case op == "BTQ" || op == "BTSQ" || op == "BTRQ":
			bit := x.asmTerm(x.asmGet(p, st, &in.F, 8))
			val := x.asmTerm(x.asmGet(p, st, &in.T, 8))
			idx := s.And(bit, s.Const(64, 63)) // register form: bit index modulo 64
			st.fl = asmFlags{cf: s.Eq(s.And(s.LShr(val, idx), s.Const(64, 1)), s.Const(64, 1)), zf: s.False, sf: s.False, of: s.False, pf: s.False}
			if op == "BTSQ" {
				x.asmSet(st, &in.T, 8, s.Or(val, s.Shl(s.Const(64, 1), idx)))
			} else if op == "BTRQ" {
				x.asmSet(st, &in.T, 8, s.And(val, s.Not(s.Shl(s.Const(64, 1), idx))))
			}
		case op == "PXOR" || op == "XORPS":
			if in.F.R == in.T.R {
				st.X[in.T.R] = s.Const(64, 0)
			} else {
				x.notEncoded("asm: %s of two registers", op)
			}
		case op == "MOVSD" || op == "MOVSS":
			sz := 8
			if op == "MOVSS" {
				sz = 4
			}
			if in.T.K == "reg" && strings.HasPrefix(in.T.R, "X") {
				var v *smt.Term
				if in.F.K == "reg" {
					v = st.X[in.F.R]
				} else {
					v = x.asmTerm(x.asmLoadMem(p, st, &in.F, sz))
				}
				st.X[in.T.R] = s.ZExt(s.Extract(v, sz*8-1, 0), 64)
			} else {
				v, ok := st.X[in.F.R]
				if !ok {
					v = x.junk(64)
				}
				x.asmStoreMem(st, &in.T, sz, s.Extract(v, sz*8-1, 0))
			}
		case op == "MOVOU":
			// 16-byte moves of (pointer,length) pairs: two 8-byte cells
			if in.F.K == "mem" && in.T.K == "reg" {
				lo := x.asmLoadMem(p, st, &in.F, 8)
				f2 := in.F
				f2.O += 8
				hi := x.asmLoadMem(p, st, &f2, 8)
				st.R["xmm!"+in.T.R+"!lo"], st.R["xmm!"+in.T.R+"!hi"] = lo, hi
			} else if in.F.K == "reg" && in.T.K == "mem" {
				lo, ok1 := st.R["xmm!"+in.F.R+"!lo"]
				hi, ok2 := st.R["xmm!"+in.F.R+"!hi"]
				if !ok1 || !ok2 {
					// e.g. X15 (zero register) or a zeroed register
					lo, hi = x.c64(0), x.c64(0)
				}
				x.asmStoreMem(st, &in.T, 8, lo)
				t2 := in.T
				t2.O += 8
				x.asmStoreMem(st, &t2, 8, hi)
			} else {
				x.notEncoded("asm: MOVOU form")
			}
		case op == "CVTSD2SS":
			var v *smt.Term
			if in.F.K == "reg" {
				v = st.X[in.F.R]
			} else {
				v = x.asmTerm(x.asmLoadMem(p, st, &in.F, 8))
			}
			st.X[in.T.R] = s.ZExt(s.FP(smt.OpFPCvt, 32, v), 64)
		case op == "UCOMISS" || op == "UCOMISD":
			sz := 4
			if op == "UCOMISD" {
				sz = 8
			}
			var src *smt.Term
			if in.F.K == "reg" {
				src = s.Extract(st.X[in.F.R], sz*8-1, 0)
			} else {
				src = x.asmTerm(x.asmLoadMem(p, st, &in.F, sz))
			}
			dst := s.Extract(st.X[in.T.R], sz*8-1, 0)
			unord := s.BOr(s.FP(smt.OpFPIsNaN, 0, src), s.FP(smt.OpFPIsNaN, 0, dst))
			lt := s.FP(smt.OpFPLt, 0, dst, src)
			eq := s.FP(smt.OpFPEq, 0, dst, src)
			st.fl = asmFlags{cf: s.BOr(unord, lt), zf: s.BOr(unord, eq), pf: unord, sf: s.False, of: s.False}
		case op == "WORD" || op == "BYTE" || op == "LONG" || op == "QUAD":
			// raw bytes: the only sequence the assemblers emit this way is  LEAQ -4(PC), R9
			if op == "WORD" && uint16(in.F.O) == 0x8d4c && st.PC+2 < len(p.Ins) && p.Ins[st.PC+1].Op == "BYTE" && p.Ins[st.PC+2].Op == "LONG" {
				st.R["R9"] = codeAddr{st.PC}
				if xr := p.Ins[st.PC+2].Xref; xr != "" {
					// LEAQ label(PC), R9: the rel32 is cross-referenced to a label
					t, ok := p.labels[xr]
					if !ok {
						x.notEncoded("asm: LEAQ of an unknown label %s", xr)
					}
					st.R["R9"] = codeAddr{t}
				}
				next = st.PC + 3
				break
			}
			// LEAQ table(PC), DI  (48 8d 3d rel32 with the rel32 cross-referenced to a label)
			if op == "WORD" && uint16(in.F.O) == 0x8d48 && st.PC+2 < len(p.Ins) && p.Ins[st.PC+1].Op == "BYTE" && uint8(p.Ins[st.PC+1].F.O) == 0x3d && p.Ins[st.PC+2].Op == "LONG" && p.Ins[st.PC+2].Xref != "" {
				if t, ok := p.labels[p.Ins[st.PC+2].Xref]; ok {
					st.R["DI"] = codeAddr{t}
					next = st.PC + 3
					break
				}
			}
			x.notEncoded("asm: raw data %s $%d in the instruction stream", op, in.F.O)
		case op == "MULQ":
			// unsigned RDX:RAX = RAX * operand; the high half is exact through a 128-bit product
			d := x.asmTerm(x.asmGet(p, st, &in.F, 8))
			lo := x.asmTerm(x.asmReg(st, "AX"))
			wide := s.Mul(s.ZExt(lo, 128), s.ZExt(d, 128))
			st.R["AX"] = s.Extract(wide, 63, 0)
			hi := s.Extract(wide, 127, 64)
			st.R["DX"] = hi
			ovf := s.Ne(hi, x.c64(0))
			st.fl = asmFlags{cf: ovf, of: ovf, zf: x.newBoolJunk(), sf: x.newBoolJunk(), pf: x.newBoolJunk()}
		case op == "DIVQ":
			// unsigned divide RDX:RAX by the operand; only the RDX == 0 form is emitted (hash % n)
			d := x.asmTerm(x.asmGet(p, st, &in.F, 8))
			hi := x.asmTerm(x.asmReg(st, "DX"))
			lo := x.asmTerm(x.asmReg(st, "AX"))
			if !hi.IsConst() || hi.Val != 0 {
				x.notEncoded("asm: DIVQ with a non-zero high half")
			}
			x.check(s.Ne(d, x.c64(0)), "assert", "generated code divides by zero")
			if st.Lenient {
				// quotient and remainder only select entries of tables that live in angelic memory
				q, r := x.junk(64), x.junk(64)
				x.assume(s.Ult(r, d))
				st.R["AX"], st.R["DX"] = q, r
			} else {
				st.R["AX"], st.R["DX"] = s.UDiv(lo, d), s.URem(lo, d)
			}
		case op == "UD2":
			x.check(s.False, "assert", "generated code reaches UD2")
			x.abort(abEnd, "ud2")
		default:
			x.notEncoded("asm: instruction %s", op)
		}
		st.PC = next
	}
}

// codeAddr is the address of an instruction of the program itself (LEAQ pc tricks, jump tables).
type codeAddr struct{ idx int }

// codeRel is a jump-table entry: the distance from the table to a target instruction.
type codeRel struct{ table, target int }

func NewAsmState() *AsmState {
	return &AsmState{R: map[string]Value{}, X: map[string]*smt.Term{}}
}
