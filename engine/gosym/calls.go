package gosym

import (
	"fmt"
	"go/types"
	"strings"

	"golang.org/x/tools/go/ssa"

	"verif/engine/smt"
)

func (x *Exec) prepareCall(fr *frame, c *ssa.CallCommon) (Value, []Value) {
	var args []Value
	if c.IsInvoke() {
		recv := x.get(fr, c.Value)
		iv, ok := recv.(Iface)
		if !ok {
			x.notEncoded("invoke on %T", recv)
		}
		if iv.T == nil {
			x.goPanic("nil pointer dereference (method call on nil interface)")
		}
		ms := x.eng.Prog.MethodSets.MethodSet(iv.T)
		sel := ms.Lookup(c.Method.Pkg(), c.Method.Name())
		if sel == nil {
			x.notEncoded("method %s not found on dynamic type %s", c.Method.Name(), iv.T)
		}
		fn := x.eng.Prog.MethodValue(sel)
		if fn == nil {
			x.notEncoded("no SSA for method %s of %s", c.Method.Name(), iv.T)
		}
		args = append(args, iv.V)
		for _, a := range c.Args {
			args = append(args, x.get(fr, a))
		}
		return &Func{Fn: fn}, args
	}
	fv := x.get(fr, c.Value)
	for _, a := range c.Args {
		args = append(args, x.get(fr, a))
	}
	return fv, args
}

func (x *Exec) doCall(fr *frame, c *ssa.CallCommon) Value {
	fv, args := x.prepareCall(fr, c)
	if f, ok := fv.(*Func); ok && f != nil && f.Builtin != nil {
		return x.builtin(fr, f.Builtin, c, args)
	}
	return x.invoke(fv, args)
}

func (x *Exec) invoke(fv Value, args []Value) Value {
	if _, ok := fv.(poison); ok {
		x.notEncoded("call of unknown init value")
	}
	f, ok := fv.(*Func)
	if !ok {
		x.notEncoded("call of %T", fv)
	}
	if f == nil {
		x.goPanic("nil pointer dereference (call of nil func)")
	}
	if f.Builtin != nil {
		x.notEncoded("deferred builtin %s", f.Builtin.Name())
	}
	for _, a := range args {
		if _, isP := a.(poison); isP {
			x.notEncoded("call with unknown init value")
		}
	}
	return x.call(f.Fn, args, f.Env)
}

func (x *Exec) builtin(fr *frame, b *ssa.Builtin, c *ssa.CallCommon, args []Value) Value {
	s := x.st
	switch b.Name() {
	case "len":
		switch v := args[0].(type) {
		case Str:
			return v.Len
		case Slice:
			return v.Len
		case MapRef:
			return x.mapLen(v)
		case Array:
			return x.c64(int64(len(v)))
		case Ptr:
			if at, ok := c.Args[0].Type().Underlying().(*types.Pointer); ok {
				return x.c64(at.Elem().Underlying().(*types.Array).Len())
			}
		}
	case "cap":
		switch v := args[0].(type) {
		case Slice:
			return v.Cap
		case Array:
			return x.c64(int64(len(v)))
		}
	case "append":
		return x.appendOp(args[0].(Slice), args[1], c.Args[0].Type(), c.Args[1].Type())
	case "copy":
		dst := args[0].(Slice)
		var sp Ptr
		var sl *smt.Term
		switch v := args[1].(type) {
		case Slice:
			sp, sl = v.P, v.Len
		case Str:
			sp, sl = v.P, v.Len
		}
		es := x.sizeof(c.Args[0].Type().Underlying().(*types.Slice).Elem())
		n := s.Ite(s.Ult(dst.Len, sl), dst.Len, sl)
		x.memmove(dst.P, sp, s.Mul(n, x.c64(int64(es))))
		return n
	case "delete":
		x.mapDelete(args[0].(MapRef), args[1])
		return nil
	case "print", "println":
		return nil
	case "panic":
		x.goPanic("panic")
	case "min", "max":
		t := c.Args[0].Type()
		r := args[0].(*smt.Term)
		for _, a := range args[1:] {
			at := a.(*smt.Term)
			var lt *smt.Term
			if isSigned(t) {
				lt = s.Slt(at, r)
			} else {
				lt = s.Ult(at, r)
			}
			if b.Name() == "max" {
				lt = s.BNot(s.BOr(lt, s.Eq(at, r)))
			}
			r = s.Ite(lt, at, r)
		}
		return r
	case "ssa:wrapnilchk":
		p := x.asPtr(args[0])
		if p.Obj == nil {
			x.checkAccess(p, 1, "nil receiver")
		}
		return args[0]
	case "recover":
		return Iface{}
	case "String": // unsafe.String(ptr, len)
		return Str{P: x.asPtr(args[0]), Len: args[1].(*smt.Term)}
	case "StringData": // unsafe.StringData(s)
		if v, ok := args[0].(Str); ok {
			return v.P
		}
	case "SliceData": // unsafe.SliceData(s)
		if v, ok := args[0].(Slice); ok {
			return v.P
		}
	case "clear":
		if m, ok := args[0].(MapRef); ok && m.M != nil {
			for _, e := range m.M.Entries {
				e.Present = s.False
			}
			return nil
		}
	}
	x.notEncoded("builtin %s", b.Name())
	return nil
}

// memmove copies n bytes (n symbolic allowed) from src to dst, cell-wise when
// both sides are concrete and aligned (so pointers survive), else byte-wise.
func (x *Exec) memmove(dst, src Ptr, n *smt.Term) {
	if n.IsConst() && n.Val == 0 {
		return
	}
	if dst.Obj == nil || src.Obj == nil {
		// zero-length copies on nil are fine; otherwise it's a fault
		x.check(x.st.Eq(n, x.c64(0)), "memory", "memmove with nil pointer and non-zero length")
		return
	}
	if n.IsConst() {
		x.checkAccess(src, int(n.Val), "memmove read")
		x.checkAccess(dst, int(n.Val), "memmove write")
	} else {
		ls := x.objLSize(src.Obj)
		x.check(x.st.Ule(x.st.Add(src.Off, n), ls), "memory", "memmove read outside "+src.Obj.String())
		ld := x.objLSize(dst.Obj)
		x.check(x.st.Ule(x.st.Add(dst.Off, n), ld), "memory", "memmove write outside "+dst.Obj.String())
	}
	if dst.Obj.ReadOnly {
		x.check(x.st.False, "memory", "memmove into read-only object")
		x.abort(abEnd, "memory")
	}
	if n.IsConst() && dst.Off.IsConst() && src.Off.IsConst() {
		nn := int(n.Val)
		so, do := int(src.Off.Val), int(dst.Off.Val)
		x.logAccess("R", src, nn)
		x.logAccess("W", dst, nn)
		// gather source cells
		type piece struct {
			off, size int
			v         Value
		}
		var ps []piece
		for i := 0; i < nn; {
			if c, ok := src.Obj.Cells[so+i]; ok && i+c.size <= nn {
				ps = append(ps, piece{i, c.size, c.v})
				i += c.size
				continue
			}
			ps = append(ps, piece{i, 1, x.byteAt(src.Obj, so+i)})
			i++
		}
		for _, p := range ps {
			x.storeLeaf(dst.Obj, do+p.off, p.size, p.v)
		}
		return
	}
	maxN := min(x.maxLen(src, n, 1), x.maxLen(dst, n, 1))
	if n.IsConst() {
		maxN = int(n.Val)
	}
	x.copyBytes(dst, src, n, maxN)
}

func (x *Exec) appendOp(sl Slice, add Value, st types.Type, at types.Type) Value {
	s := x.st
	et := st.Underlying().(*types.Slice).Elem()
	es := x.sizeof(et)
	var ap Ptr
	var al *smt.Term
	switch v := add.(type) {
	case Slice:
		ap, al = v.P, v.Len
	case Str:
		ap, al = v.P, v.Len
	default:
		x.notEncoded("append of %T", add)
	}
	if al.IsConst() && al.Val == 0 {
		return sl
	}
	newLen := s.Add(sl.Len, al)
	fits := s.Ule(newLen, sl.Cap)
	if x.Branch(fits) {
		dst := x.ptrAdd(sl.P, s.Mul(sl.Len, x.c64(int64(es))), es)
		x.memmove(dst, ap, s.Mul(al, x.c64(int64(es))))
		return Slice{P: sl.P, Len: newLen, Cap: sl.Cap}
	}
	return x.growAppend(sl, ap, al, es, et)
}

// growAppend reallocates: new capacity is a fresh value >= newLen (Go leaves the exact
// growth unspecified); spare capacity is filled with junk so dependence on it is visible.
func (x *Exec) growAppend(sl Slice, ap Ptr, al *smt.Term, es int, et types.Type) Value {
	s := x.st
	newLen := s.Add(sl.Len, al)
	nl := int(x.Concretize(newLen))
	extra := x.h.GrowSlack
	ncap := nl + extra
	o := x.newObject(ncap*es, types.NewArray(et, int64(ncap)), "append")
	o.Epoch = x.h.epoch(x)
	if extra > 0 && es == 1 {
		o.Junk = func(off int) *smt.Term { return x.junk(8) }
	}
	np := Ptr{Obj: o, Off: x.c64(0)}
	x.memmove(np, sl.P, s.Mul(sl.Len, x.c64(int64(es))))
	dst := x.ptrAdd(np, s.Mul(sl.Len, x.c64(int64(es))), es)
	x.memmove(dst, ap, s.Mul(al, x.c64(int64(es))))
	return Slice{P: np, Len: x.c64(int64(nl)), Cap: x.c64(int64(ncap))}
}

// ---------- intrinsics ----------

const verifPkgSuffix = "/internal/zzverif"

func (x *Exec) strArg(v Value) string {
	s, ok := v.(Str)
	if !ok {
		x.notEncoded("expected string argument")
	}
	cs, ok := x.concreteString(s)
	if !ok {
		x.notEncoded("verif API label must be a concrete string")
	}
	return cs
}

func (x *Exec) intrinsic(fn *ssa.Function, args []Value) (Value, bool) {
	if fn.Pkg == nil {
		// synthetic wrappers have Pkg nil sometimes; fall through to body
		return nil, false
	}
	pp := fn.Pkg.Pkg.Path()
	name := fn.Name()
	if strings.HasSuffix(pp, verifPkgSuffix) && fn.Signature.Recv() == nil {
		return x.verifAPI(name, fn, args)
	}
	full := fn.String()
	if h, ok := intrinsics[full]; ok {
		return h(x, fn, args), true
	}
	return nil, false
}

func (x *Exec) verifAPI(name string, fn *ssa.Function, args []Value) (Value, bool) {
	s := x.st
	switch name {
	case "Bool":
		return x.newInput(x.strArg(args[0]), 0), true
	case "Byte", "Uint8":
		return x.newInput(x.strArg(args[0]), 8), true
	case "Uint16":
		return x.newInput(x.strArg(args[0]), 16), true
	case "Uint32":
		return x.newInput(x.strArg(args[0]), 32), true
	case "Uint64", "Int64", "Any64":
		return x.newInput(x.strArg(args[0]), 64), true
	case "Int":
		// Int(name, lo, hi)
		v := x.newInput(x.strArg(args[0]), 64)
		lo, hi := args[1].(*smt.Term), args[2].(*smt.Term)
		x.assume(s.BAnd(s.Sle(lo, v), s.Sle(v, hi)))
		if lo.IsConst() && lo.SVal() >= 0 {
			if hiv := x.interval(hi); hiv.hi < 1<<62 {
				x.setRange(v, lo.Val, hiv.hi)
			}
		}
		return v, true
	case "Bytes", "String":
		// Bytes(name, n): n concrete
		nm := x.strArg(args[0])
		n := args[1].(*smt.Term)
		if !n.IsConst() {
			x.notEncoded("verif.%s needs a concrete length; use %sN", name, name)
		}
		return x.symBytes(nm, n, int(n.Val), name == "String"), true
	case "BytesN", "StringN", "StringNGuard":
		if name == "StringNGuard" {
			name = "StringN"
		}
		// BytesN(name, n, max): symbolic length n <= max, backing object of max bytes
		nm := x.strArg(args[0])
		n := args[1].(*smt.Term)
		mx := args[2].(*smt.Term)
		if !mx.IsConst() {
			x.notEncoded("verif.%s needs a concrete max", name)
		}
		x.assume(s.Ule(n, mx))
		return x.symBytes(nm, n, int(mx.Val), name == "StringN"), true
	case "Assume":
		c := args[0].(*smt.Term)
		x.assume(c)
		if !x.replaying() && !c.IsConst() {
			if r := x.sol.CheckWith(x.st); r == smt.Unsat {
				x.abort(abInfeasible, "assumption unsatisfiable")
			}
		}
		return nil, true
	case "Assert":
		x.check(args[0].(*smt.Term), "assert", x.strArg(args[1]))
		return nil, true
	case "Cover":
		x.covers[x.strArg(args[0])] = true
		return nil, true
	case "MustFinishWithin":
		// MustFinishWithin(n int): the code up to the matching Finished() executes at most n SSA
		// instructions on every path; a feasible path that needs more is reported as a hang
		n := int(args[0].(*smt.Term).Val)
		x.hangBound = x.steps + n
		return nil, true
	case "Finished":
		x.hangBound = 0
		return nil, true
	case "Stub":
		x.stubs[x.strArg(args[0])] = args[1].(Iface).V
		return nil, true
	case "Symbolic":
		return s.True, true
	case "Junk8":
		return x.junk(8), true
	case "Junk64":
		return x.junk(64), true
	case "Note":
		x.note("harness:" + x.strArg(args[0]))
		return nil, true
	case "SameObject":
		// SameObject(a, b []byte) bool : do the slices share a backing object?
		a, b := args[0].(Slice), args[1].(Slice)
		return s.Bool(a.P.Obj != nil && a.P.Obj == b.P.Obj), true
	case "StrSameObject":
		a, b := args[0].(Str), args[1].(Slice)
		return s.Bool(a.P.Obj != nil && a.P.Obj == b.P.Obj), true
	case "GhostSet":
		// GhostSet(b []byte, key string, val int)
		sl := args[0].(Slice)
		if sl.P.Obj != nil {
			if sl.P.Obj.Ghost == nil {
				sl.P.Obj.Ghost = map[string]interface{}{}
			}
			sl.P.Obj.Ghost[x.strArg(args[1])] = args[2].(*smt.Term)
		}
		return nil, true
	case "GhostGet":
		sl := args[0].(Slice)
		if sl.P.Obj != nil && sl.P.Obj.Ghost != nil {
			if v, ok := sl.P.Obj.Ghost[x.strArg(args[1])]; ok {
				return v.(*smt.Term), true
			}
		}
		return x.c64(0), true
	case "Freeze":
		// Freeze(mode int): 0 off, 1 writes to existing objects only under a write lock, 2 never
		x.frozen = int(args[0].(*smt.Term).Val)
		x.csRule = false
		if x.frozen == 3 {
			// mode 3 = mode 1 plus the check-then-act rule (freeze.go)
			x.frozen = 1
			x.csRule = true
		}
		x.frozenMark = x.nextObj
		return nil, true
	case "WriteJunk":
		// WriteJunk(p unsafe.Pointer, n int): overwrite n bytes at p with unconstrained values
		// (bounds-checked against p's object); no forking for symbolic n.
		p := x.asPtr(args[0])
		n := args[1].(*smt.Term)
		if n.IsConst() && n.Val == 0 {
			return nil, true
		}
		if p.Obj == nil {
			x.check(s.Eq(n, x.c64(0)), "memory", "write through nil pointer")
			return nil, true
		}
		ls := x.objLSize(p.Obj)
		end := s.Add(p.Off, n)
		x.check(s.BAnd(s.Ule(p.Off, end), s.Ule(end, ls)), "memory", "native routine writes outside "+p.Obj.String())
		if p.Obj.ReadOnly {
			x.check(s.Eq(n, x.c64(0)), "memory", "native routine writes into read-only object")
		}
		if p.Off.IsConst() && n.IsConst() {
			for i := 0; i < int(n.Val); i++ {
				x.storeLeaf(p.Obj, int(p.Off.Val)+i, 1, x.junk(8))
			}
			return nil, true
		}
		// symbolic extent: over-approximate by havocking every byte the write could reach
		// (interval bounds of offset and length); bytes below the lowest possible offset are untouched
		oi, ni := x.interval(p.Off), x.interval(n)
		lo, hi := int(oi.lo), p.Obj.Size
		if oi.hi < uint64(p.Obj.Size) && ni.hi < uint64(p.Obj.Size) && int(oi.hi+ni.hi) < hi {
			hi = int(oi.hi + ni.hi)
		}
		if oi.lo > uint64(p.Obj.Size) {
			lo = p.Obj.Size
		}
		for i := lo; i < hi; i++ {
			k := x.c64(int64(i))
			in := s.BAnd(s.Ule(p.Off, k), s.Ult(k, end))
			old := x.asTerm(x.loadLeaf(p.Obj, i, 1, lkInt))
			x.storeLeaf(p.Obj, i, 1, s.Ite(in, x.junk(8), old))
		}
		return nil, true
	case "InPool":
		// InPool(b []byte) bool: is the backing array currently owned by a sync.Pool?
		sl := args[0].(Slice)
		return s.Bool(sl.P.Obj != nil && sl.P.Obj.Ghost != nil && sl.P.Obj.Ghost["inpool"] == true), true
	case "SetCap":
		// SetCap(b []byte, cap int) []byte : shrink the logical capacity of the backing object view
		sl := args[0].(Slice)
		return Slice{P: sl.P, Len: sl.Len, Cap: args[1].(*smt.Term)}, true
	case "UF64":
		// UF64(name string, args ...uint64) uint64
		nm := x.strArg(args[0])
		va := args[1].(Slice)
		n := int(x.Concretize(va.Len))
		var ts []*smt.Term
		for i := 0; i < n; i++ {
			ts = append(ts, x.asTerm(x.loadLeafP(va.P, i*8, 8, lkInt)))
		}
		return s.UF("uf!"+nm, 64, ts...), true
	case "EventsStart":
		x.events = nil
		x.tid = int(args[0].(*smt.Term).Val)
		x.h.recordEvents = true
		return nil, true
	case "Concretize":
		v := x.Concretize(args[0].(*smt.Term))
		return x.c64(int64(v)), true
	case "JSONIsSpace", "JSONIsValidNumber":
		target := map[string]string{"JSONIsSpace": "encoding/json.isSpace", "JSONIsValidNumber": "encoding/json.isValidNumber"}[name]
		f := x.eng.Func(target)
		if f == nil {
			x.notEncoded("stdlib reference %s not loaded", target)
		}
		x.note("stdlib-oracle:" + target)
		return x.call(f, args, nil), true
	}
	x.notEncoded("unknown verif API %s", name)
	return nil, false
}

func (x *Exec) symBytes(nm string, n *smt.Term, max int, asString bool) Value {
	if max == 0 {
		if asString {
			return Str{P: x.nilPtr(), Len: x.c64(0)}
		}
		return Slice{P: x.nilPtr(), Len: x.c64(0), Cap: x.c64(0)}
	}
	o := x.newBytes(max, nm)
	if !n.IsConst() {
		o.LSize = n
	}
	for i := 0; i < max; i++ {
		o.Cells[i] = &cell{1, x.newInput(fmt.Sprintf("%s[%d]", nm, i), 8)}
	}
	p := Ptr{Obj: o, Off: x.c64(0)}
	if asString {
		o.ReadOnly = true
		return Str{P: p, Len: n}
	}
	return Slice{P: p, Len: n, Cap: n}
}

type intrinsicFn func(x *Exec, fn *ssa.Function, args []Value) Value

var intrinsics = map[string]intrinsicFn{}

func init() {
	intrinsics["runtime.KeepAlive"] = func(x *Exec, fn *ssa.Function, a []Value) Value { return nil }
	intrinsics["runtime.GC"] = func(x *Exec, fn *ssa.Function, a []Value) Value { return nil }
	intrinsics["runtime.Gosched"] = func(x *Exec, fn *ssa.Function, a []Value) Value { return nil }
	intrinsics["math.Float64bits"] = func(x *Exec, fn *ssa.Function, a []Value) Value { return a[0] }
	intrinsics["math.Float64frombits"] = func(x *Exec, fn *ssa.Function, a []Value) Value { return a[0] }
	intrinsics["math.Float32bits"] = func(x *Exec, fn *ssa.Function, a []Value) Value { return a[0] }
	intrinsics["math.Float32frombits"] = func(x *Exec, fn *ssa.Function, a []Value) Value { return a[0] }
	intrinsics["math.IsNaN"] = func(x *Exec, fn *ssa.Function, a []Value) Value {
		t := a[0].(*smt.Term)
		s := x.st
		exp := s.Extract(t, 62, 52)
		man := s.Extract(t, 51, 0)
		return s.BAnd(s.Eq(exp, s.Const(11, 0x7ff)), s.Ne(man, s.Const(52, 0)))
	}
	intrinsics["math.IsInf"] = func(x *Exec, fn *ssa.Function, a []Value) Value {
		t := a[0].(*smt.Term)
		sign := a[1].(*smt.Term)
		s := x.st
		pinf := s.Eq(t, s.Const(64, 0x7ff0000000000000))
		ninf := s.Eq(t, s.Const(64, 0xfff0000000000000))
		z := s.Const(sign.W, 0)
		return s.BOr(s.BAnd(s.Sge(sign, z), pinf), s.BAnd(s.Sle(sign, z), ninf))
	}
	intrinsics["math.Signbit"] = func(x *Exec, fn *ssa.Function, a []Value) Value {
		t := a[0].(*smt.Term)
		return x.st.Eq(x.st.Extract(t, 63, 63), x.st.Const(1, 1))
	}
	intrinsics["math.Abs"] = func(x *Exec, fn *ssa.Function, a []Value) Value {
		t := a[0].(*smt.Term)
		return x.st.And(t, x.st.Const(64, 0x7fffffffffffffff))
	}
	// strings.Repeat: panics on negative count; result opaque unless concrete
	intrinsics["strings.Repeat"] = func(x *Exec, fn *ssa.Function, a []Value) Value {
		str := a[0].(Str)
		cnt := a[1].(*smt.Term)
		x.panicIf(x.st.Slt(cnt, x.c64(0)), "strings: negative Repeat count")
		if cs, ok := x.concreteString(str); ok && cnt.IsConst() && cnt.Val*uint64(len(cs)) < 1<<12 {
			return x.constString(strings.Repeat(cs, int(cnt.Val)))
		}
		n := x.st.Mul(cnt, str.Len)
		mx := x.h.OpaqueStrMax
		x.assume(x.st.Ule(n, x.c64(int64(mx))))
		o := x.newBytes(mx, "strings.Repeat")
		o.Junk = func(off int) *smt.Term { return x.junk(8) }
		o.ReadOnly = true
		o.LSize = n
		return Str{P: Ptr{Obj: o, Off: x.c64(0)}, Len: n}
	}
	opaqueStr := func(name string) intrinsicFn {
		return func(x *Exec, fn *ssa.Function, a []Value) Value {
			x.note("opaque:" + name)
			return x.opaqueString(name)
		}
	}
	intrinsics["fmt.Sprintf"] = opaqueStr("fmt.Sprintf")
	intrinsics["fmt.Sprint"] = opaqueStr("fmt.Sprint")
	intrinsics["strconv.Itoa"] = opaqueStr("strconv.Itoa")
	intrinsics["strconv.Quote"] = opaqueStr("strconv.Quote")
	intrinsics["strconv.FormatInt"] = opaqueStr("strconv.FormatInt")
	intrinsics["(reflect.Type).String"] = opaqueStr("reflect.Type.String")
	intrinsics["(*reflect.rtype).String"] = opaqueStr("reflect.Type.String")
	intrinsics["fmt.Errorf"] = func(x *Exec, fn *ssa.Function, a []Value) Value {
		x.note("opaque:fmt.Errorf")
		return x.opaqueError("fmt.Errorf")
	}
	intrinsics["errors.New"] = func(x *Exec, fn *ssa.Function, a []Value) Value {
		return x.opaqueErrorMsg("errors.New", a[0])
	}

	// sync / atomic
	nop := func(x *Exec, fn *ssa.Function, a []Value) Value { return nil }
	for _, n := range []string{"(*sync.Mutex).Lock", "(*sync.RWMutex).Lock"} {
		intrinsics[n] = func(x *Exec, fn *ssa.Function, a []Value) Value { x.lockOp(a[0], "LK"); return nil }
	}
	for _, n := range []string{"(*sync.Mutex).Unlock", "(*sync.RWMutex).Unlock"} {
		intrinsics[n] = func(x *Exec, fn *ssa.Function, a []Value) Value { x.lockOp(a[0], "UL"); return nil }
	}
	intrinsics["(*sync.RWMutex).RLock"] = func(x *Exec, fn *ssa.Function, a []Value) Value { x.lockOp(a[0], "RLK"); return nil }
	intrinsics["(*sync.RWMutex).RUnlock"] = func(x *Exec, fn *ssa.Function, a []Value) Value { x.lockOp(a[0], "RUL"); return nil }
	_ = nop
	atomicLoad := func(size int, kind leafKind) intrinsicFn {
		return func(x *Exec, fn *ssa.Function, a []Value) Value {
			p := x.asPtr(a[0])
			x.checkAccess(p, size, "atomic load")
			x.logAtomic("AL", p, size)
			return x.loadLeafP(p, 0, size, kind)
		}
	}
	atomicStore := func(size int) intrinsicFn {
		return func(x *Exec, fn *ssa.Function, a []Value) Value {
			p := x.asPtr(a[0])
			x.checkAccess(p, size, "atomic store")
			x.logAtomic("AS", p, size)
			x.storeLeafP(p, 0, size, a[1])
			return nil
		}
	}
	intrinsics["sync/atomic.LoadPointer"] = func(x *Exec, fn *ssa.Function, a []Value) Value {
		p := x.asPtr(a[0])
		x.checkAccess(p, 8, "atomic load")
		x.logAtomic("AL", p, 8)
		return x.asPtr(x.loadLeafP(p, 0, 8, lkPtr))
	}
	intrinsics["sync/atomic.StorePointer"] = atomicStore(8)
	intrinsics["sync/atomic.LoadInt64"] = atomicLoad(8, lkInt)
	intrinsics["sync/atomic.LoadUint64"] = atomicLoad(8, lkInt)
	intrinsics["sync/atomic.LoadInt32"] = atomicLoad(4, lkInt)
	intrinsics["sync/atomic.LoadUint32"] = atomicLoad(4, lkInt)
	intrinsics["sync/atomic.StoreInt64"] = atomicStore(8)
	intrinsics["sync/atomic.StoreUint64"] = atomicStore(8)
	intrinsics["sync/atomic.StoreInt32"] = atomicStore(4)
	intrinsics["sync/atomic.StoreUint32"] = atomicStore(4)
	atomicAdd := func(size int) intrinsicFn {
		return func(x *Exec, fn *ssa.Function, a []Value) Value {
			p := x.asPtr(a[0])
			x.checkAccess(p, size, "atomic add")
			x.logAtomic("AS", p, size)
			old := x.asTerm(x.loadLeafP(p, 0, size, lkInt))
			nv := x.st.Add(old, a[1].(*smt.Term))
			x.storeLeafP(p, 0, size, nv)
			return nv
		}
	}
	intrinsics["sync/atomic.AddInt64"] = atomicAdd(8)
	intrinsics["sync/atomic.AddUint64"] = atomicAdd(8)
	intrinsics["sync/atomic.AddInt32"] = atomicAdd(4)
	intrinsics["sync/atomic.AddUint32"] = atomicAdd(4)
	cas := func(size int, kind leafKind) intrinsicFn {
		return func(x *Exec, fn *ssa.Function, a []Value) Value {
			p := x.asPtr(a[0])
			x.checkAccess(p, size, "atomic cas")
			x.logAtomic("AS", p, size)
			old := x.loadLeafP(p, 0, size, kind)
			var eq *smt.Term
			if kind == lkPtr {
				eq = x.ptrEq(x.asPtr(old), x.asPtr(a[1]))
			} else {
				eq = x.st.Eq(x.asTerm(old), a[1].(*smt.Term))
			}
			if x.Branch(eq) {
				x.storeLeafP(p, 0, size, a[2])
				return x.st.True
			}
			return x.st.False
		}
	}
	intrinsics["sync/atomic.CompareAndSwapInt64"] = cas(8, lkInt)
	intrinsics["sync/atomic.CompareAndSwapUint64"] = cas(8, lkInt)
	intrinsics["sync/atomic.CompareAndSwapInt32"] = cas(4, lkInt)
	intrinsics["sync/atomic.CompareAndSwapUint32"] = cas(4, lkInt)
	intrinsics["sync/atomic.CompareAndSwapPointer"] = cas(8, lkPtr)

	// sync.Pool: Get returns either a fresh object from New or ANY object that was Put before
	// (nondeterministic choice, decided by forking); Put records the object.
	intrinsics["(*sync.Pool).Get"] = func(x *Exec, fn *ssa.Function, a []Value) Value {
		p := x.asPtr(a[0])
		if p.Obj == nil {
			x.goPanic("nil sync.Pool")
		}
		if p.Obj.Ghost == nil {
			p.Obj.Ghost = map[string]interface{}{}
		}
		puts, _ := p.Obj.Ghost["pool"].([]Value)
		for i := len(puts) - 1; i >= 0; i-- {
			// ownership harnesses ask for every choice (fresh or any pooled object); otherwise the
			// most recently Put object is handed out, as the runtime's per-P cache usually does
			reuse := x.st.True
			if x.h.PoolNondet {
				reuse = x.st.Var(x.uniqueName(fmt.Sprintf("pool!reuse")), 0)
			}
			if x.Branch(reuse) {
				v := puts[i]
				np := append([]Value{}, puts[:i]...)
				np = append(np, puts[i+1:]...)
				p.Obj.Ghost["pool"] = np
				x.note("pool-get:reused")
				for _, bo := range x.poolObjects(v) {
					bo.Ghost["inpool"] = false
				}
				return v
			}
		}
		// New field
		pt := fn.Signature.Recv().Type().(*types.Pointer).Elem()
		st := pt.Underlying().(*types.Struct)
		offs := x.fieldOffsets(st)
		for i := 0; i < st.NumFields(); i++ {
			if st.Field(i).Name() == "New" {
				nf := x.loadT(p, offs[i], st.Field(i).Type())
				f, _ := nf.(*Func)
				if f == nil {
					return Iface{}
				}
				x.note("pool-get:new")
				return x.call(f.Fn, nil, f.Env)
			}
		}
		return Iface{}
	}
	intrinsics["(*sync.Pool).Put"] = func(x *Exec, fn *ssa.Function, a []Value) Value {
		p := x.asPtr(a[0])
		if p.Obj == nil {
			x.goPanic("nil sync.Pool")
		}
		if p.Obj.Ghost == nil {
			p.Obj.Ghost = map[string]interface{}{}
		}
		puts, _ := p.Obj.Ghost["pool"].([]Value)
		for _, bo := range x.poolObjects(a[1]) {
			if bo.Ghost["inpool"] == true {
				x.check(x.st.False, "assert", "object put into a sync.Pool twice: "+bo.String())
			}
			bo.Ghost["inpool"] = true
		}
		p.Obj.Ghost["pool"] = append(puts, a[1])
		return nil
	}

	// internal/bytealg & friends used by stdlib bodies we execute
	intrinsics["internal/bytealg.IndexByteString"] = func(x *Exec, fn *ssa.Function, a []Value) Value {
		return x.indexByte(a[0].(Str).P, a[0].(Str).Len, a[1].(*smt.Term))
	}
	intrinsics["internal/bytealg.IndexByte"] = func(x *Exec, fn *ssa.Function, a []Value) Value {
		return x.indexByte(a[0].(Slice).P, a[0].(Slice).Len, a[1].(*smt.Term))
	}
	intrinsics["strings.IndexByte"] = intrinsics["internal/bytealg.IndexByteString"]
	intrinsics["bytes.IndexByte"] = intrinsics["internal/bytealg.IndexByte"]
	intrinsics["bytes.Equal"] = func(x *Exec, fn *ssa.Function, a []Value) Value {
		p, q := a[0].(Slice), a[1].(Slice)
		return x.strEq(Str{p.P, p.Len}, Str{q.P, q.Len})
	}
	intrinsics["internal/bytealg.Equal"] = intrinsics["bytes.Equal"]
	intrinsics["unsafe.String"] = func(x *Exec, fn *ssa.Function, a []Value) Value {
		return Str{P: x.asPtr(a[0]), Len: a[1].(*smt.Term)}
	}
}

// poolObjects lists the objects that become pool-owned when v is Put: the object v points
// to and the objects directly referenced from it (e.g. the backing array of a *[]byte).
func (x *Exec) poolObjects(v Value) []*Object {
	iv, ok := v.(Iface)
	if !ok {
		return nil
	}
	var r []*Object
	add := func(o *Object) {
		if o == nil || o.ReadOnly {
			return
		}
		if o.Ghost == nil {
			o.Ghost = map[string]interface{}{}
		}
		if o.Ghost["global"] == true {
			return
		}
		r = append(r, o)
	}
	switch bv := iv.V.(type) {
	case Slice:
		add(bv.P.Obj)
	case Ptr:
		add(bv.Obj)
		// a pooled *[]byte / *string also hands over the backing array its header points to;
		// larger structs (linked instruction objects ...) are pooled one by one
		if bv.Obj != nil && bv.Obj.Size <= 24 {
			for _, c := range bv.Obj.Cells {
				if q, ok := c.v.(Ptr); ok && q.Obj != nil && q.Obj != bv.Obj {
					add(q.Obj)
				}
			}
		}
	}
	return r
}

func (x *Exec) indexByte(p Ptr, n *smt.Term, c *smt.Term) Value {
	s := x.st
	maxN := x.maxLen(p, n, 1)
	res := s.Const(64, ^uint64(0))
	for i := maxN - 1; i >= 0; i-- {
		in := s.Ult(x.c64(int64(i)), n)
		hit := s.BAnd(in, s.Eq(x.byteIdx(p, i), c))
		res = s.Ite(hit, x.c64(int64(i)), res)
	}
	return res
}

func (x *Exec) opaqueString(name string) Str {
	mx := x.h.OpaqueStrMax
	n := x.junk(64)
	x.assume(x.st.Ule(n, x.c64(int64(mx))))
	o := x.newBytes(mx, "opaque:"+name)
	o.Junk = func(off int) *smt.Term { return x.junk(8) }
	o.ReadOnly = true
	o.LSize = n
	return Str{P: Ptr{Obj: o, Off: x.c64(0)}, Len: n}
}

func (x *Exec) opaqueError(name string) Value {
	return x.opaqueErrorMsg(name, x.opaqueString(name))
}

// opaqueErrorMsg builds an *errors.errorString-like value. We model it as a named dynamic type
// from the errors package when available.
func (x *Exec) opaqueErrorMsg(name string, msg Value) Value {
	ep := x.eng.Package("errors")
	if ep != nil {
		if t := ep.Type("errorString"); t != nil {
			pt := types.NewPointer(t.Type())
			o := x.newObject(x.sizeof(t.Type()), t.Type(), "errorString")
			p := Ptr{Obj: o, Off: x.c64(0)}
			x.storeT(p, 0, t.Type(), Struct{msg})
			return Iface{T: pt, V: p}
		}
	}
	x.notEncoded("errors package not loaded")
	return nil
}

// ---------- event log / locks ----------

func (x *Exec) heldLocks() []int {
	var r []int
	for o, n := range x.locks {
		if n != 0 {
			r = append(r, o.ID)
		}
	}
	return r
}

func (x *Exec) lockOp(v Value, kind string) {
	p := x.asPtr(v)
	if p.Obj == nil {
		x.goPanic("lock on nil mutex")
	}
	if x.locks == nil {
		x.locks = map[*Object]int{}
	}
	off := 0
	if p.Off.IsConst() {
		off = int(p.Off.Val)
	}
	if x.h.recordEvents {
		x.events = append(x.events, Event{Tid: x.tid, Kind: kind, Obj: p.Obj.ID, ObjNm: p.Obj.Name, Off: off, Pos: x.posStr()})
	}
	if x.wlocks == nil {
		x.wlocks = map[*Object]int{}
	}
	switch kind {
	case "LK":
		if !x.holdsWriteLock() {
			x.csReads = map[*Object]map[int]bool{} // a new critical section starts
		}
		x.wlocks[p.Obj]++
	case "UL":
		if x.wlocks[p.Obj] > 0 {
			x.wlocks[p.Obj]--
		}
	}
	switch kind {
	case "LK", "RLK":
		x.locks[p.Obj]++
	case "UL", "RUL":
		if x.locks[p.Obj] == 0 {
			x.goPanic("sync: unlock of unlocked mutex")
		}
		x.locks[p.Obj]--
	}
}

func (x *Exec) logAccess(kind string, p Ptr, size int) {
	if !x.h.recordEvents || p.Obj == nil {
		return
	}
	off := -1
	if p.Off.IsConst() {
		off = int(p.Off.Val)
	}
	x.events = append(x.events, Event{Tid: x.tid, Kind: kind, Obj: p.Obj.ID, ObjNm: p.Obj.Name, Off: off, Size: size, Locks: x.heldLocks(), Pos: x.posStr()})
}

func (x *Exec) logAtomic(kind string, p Ptr, size int) {
	if !x.h.recordEvents || p.Obj == nil {
		return
	}
	off := -1
	if p.Off.IsConst() {
		off = int(p.Off.Val)
	}
	x.events = append(x.events, Event{Tid: x.tid, Kind: kind, Obj: p.Obj.ID, ObjNm: p.Obj.Name, Off: off, Size: size, Locks: x.heldLocks(), Pos: x.posStr(), Atomic: true})
}
