package gosym

import (
	"strings"

	"verif/engine/smt"
)

// distinctInputs builds "adjacent elements of every symbolic byte array differ" (a soft
// preference used when extracting counterexample models).
func (x *Exec) distinctInputs() *smt.Term {
	groups := map[string][]*smt.Term{}
	var order []string
	for _, iv := range x.inputs {
		i := strings.IndexByte(iv.name, '[')
		if i < 0 || iv.t.W != 8 {
			continue
		}
		g := iv.name[:i]
		if _, ok := groups[g]; !ok {
			order = append(order, g)
		}
		groups[g] = append(groups[g], iv.t)
	}
	var r *smt.Term
	for _, g := range order {
		ts := groups[g]
		if len(ts) < 2 || len(ts) > 16 {
			continue
		}
		for i := 0; i < len(ts); i++ {
			for j := i + 1; j < len(ts); j++ {
				c := x.st.Ne(ts[i], ts[j])
				if r == nil {
					r = c
				} else {
					r = x.st.BAnd(r, c)
				}
			}
		}
	}
	return r
}
