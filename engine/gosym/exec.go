package gosym

import (
	"fmt"
	"go/token"
	"go/types"
	"sort"
	"strings"

	"golang.org/x/tools/go/ssa"

	"verif/engine/smt"
)

// ---------- path control ----------

type Decision struct {
	Val   uint64
	Taken bool
}

type abortKind int

const (
	abInfeasible abortKind = iota // path condition became unsat
	abEnd                         // path ended by panic/violation (already recorded)
	abNotEncoded                  // engine limitation
	abBudget                      // unwinding budget exhausted
	abSpec                        // speculation (diamond merge) must be abandoned
)

type pathAbort struct {
	kind abortKind
	msg  string
}

type Violation struct {
	Kind    string            `json:"kind"` // assert | panic | memory
	Msg     string            `json:"msg"`
	Pos     string            `json:"pos"`
	Model   map[string]uint64 `json:"model"`
	Harness string            `json:"harness"`
	Known   string            `json:"known,omitempty"`
	Stack   []string          `json:"stack,omitempty"`
}

type KnownFinding struct {
	ID       string     `json:"id"`
	Property string     `json:"property"`
	Harness  string     `json:"harness"`
	Site     string     `json:"site"` // substring of violation msg
	When     [][]string `json:"when"` // [var, op, value] conjuncts; empty = any model
	Status   string     `json:"status"`
	What     string     `json:"what"`
	Commit   string     `json:"commit,omitempty"`
}

type inputVar struct {
	name string
	t    *smt.Term
}

type Limits struct {
	MaxSteps     int
	MaxDepth     int
	MaxDecisions int
}

// Exec is the per-path executor state.
type Exec struct {
	eng *Engine
	h   *HarnessRun
	st  *smt.Store
	sol *smt.Solver

	trace     []Decision
	tpos      int
	decisions []Decision
	pending   [][]Decision

	pc      []*smt.Term
	inputs  []inputVar
	names   map[string]int
	globals map[*ssa.Global]*Object
	inited  map[*ssa.Package]bool
	initing map[*ssa.Package]bool
	nextObj int
	steps   int
	hangBound int
	depth   int
	lim     Limits
	strObjs map[string]*Object
	stubs   map[string]Value
	funcObj map[*ssa.Function]*Object

	violations []Violation
	covers     map[string]bool
	unknowns   int
	notes      map[string]int
	callStack  []*ssa.Function
	curPos     token.Pos
	fresh      int
	lenient    int // >0 while executing package inits best-effort
	events     []Event
	ghostInt   map[string]*smt.Term
	locks      map[*Object]int
	tid        int
	curEpoch   int
	spec       *specLog
	merges     int
	ivCache    map[int]ival
	typeObjs   map[string]*Object
	hashApps   []hashApp
	asmPos     string
	modelPrefer *smt.Term
	frozen     int
	frozenMark int
	wlocks     map[*Object]int
	csReads    map[*Object]map[int]bool // shared fields read since the write lock was taken
	csRule     bool                     // check-then-act rule enabled (Freeze mode 1 harnesses that ask for it)
	varRange   map[string]ival
	funcs      map[string]bool
}

type Event struct {
	Tid    int
	Kind   string // R W AL AS LK UL RLK RUL ALLOC
	Obj    int
	ObjNm  string
	Off    int
	Size   int
	Locks  []int
	Val    string
	Pos    string
	Atomic bool
}

func (x *Exec) abort(k abortKind, f string, a ...interface{}) {
	panic(pathAbort{k, fmt.Sprintf(f, a...)})
}

func (x *Exec) notEncoded(f string, a ...interface{}) {
	panic(pathAbort{abNotEncoded, fmt.Sprintf(f, a...) + " @" + x.posStr()})
}

func (x *Exec) posStr() string {
	if x.asmPos != "" {
		return x.asmPos
	}
	if x.curPos.IsValid() {
		p := x.eng.Fset.Position(x.curPos)
		return fmt.Sprintf("%s:%d", trimPath(p.Filename), p.Line)
	}
	if n := len(x.callStack); n > 0 {
		return x.callStack[n-1].String()
	}
	return "?"
}

func trimPath(p string) string {
	if i := strings.Index(p, "/repo/"); i >= 0 {
		return p[i+6:]
	}
	if i := strings.Index(p, "/src/"); i >= 0 {
		return p[i+5:]
	}
	return p
}

func (x *Exec) stackStrs() []string {
	var r []string
	for i := len(x.callStack) - 1; i >= 0 && len(r) < 8; i-- {
		r = append(r, x.callStack[i].String())
	}
	return r
}

// assume adds c to the path condition.
func (x *Exec) assume(c *smt.Term) {
	if c.IsTrue() {
		return
	}
	if c.IsFalse() {
		x.abort(abInfeasible, "assume false")
	}
	x.pc = append(x.pc, c)
	x.sol.Assert(x.st, c)
	x.learn(c)
}

func (x *Exec) replaying() bool { return x.tpos < len(x.trace) }

// Branch decides a symbolic condition, forking when both sides are feasible.
func (x *Exec) Branch(c *smt.Term) bool {
	if c.IsTrue() {
		return true
	}
	if c.IsFalse() {
		return false
	}
	switch x.ivDecide(c) {
	case 1:
		return true
	case 0:
		return false
	}
	x.specGuard("branch")
	if len(x.decisions) >= x.lim.MaxDecisions {
		x.abort(abBudget, "decision budget exhausted")
	}
	if x.replaying() {
		d := x.trace[x.tpos]
		x.tpos++
		x.decisions = append(x.decisions, d)
		if d.Taken {
			x.assume(c)
		} else {
			x.assume(x.st.BNot(c))
		}
		return d.Taken
	}
	nc := x.st.BNot(c)
	rT := x.sol.CheckWith(x.st, c)
	if rT == smt.Unknown {
		x.unknowns++
		x.note("solver-unknown@branch")
	}
	var taken bool
	if rT == smt.Unsat {
		taken = false
		// pc ∧ ¬c must be sat if pc is; not re-checked.
	} else {
		rF := x.sol.CheckWith(x.st, nc)
		if rF == smt.Unknown {
			x.unknowns++
			x.note("solver-unknown@branch")
		}
		if rF == smt.Unsat {
			taken = true
		} else {
			// both feasible: fork
			other := make([]Decision, len(x.decisions)+1)
			copy(other, x.decisions)
			other[len(x.decisions)] = Decision{Taken: false}
			x.pending = append(x.pending, other)
			taken = true
		}
	}
	x.decisions = append(x.decisions, Decision{Taken: taken})
	if taken {
		x.assume(c)
	} else {
		x.assume(nc)
	}
	return taken
}

// Concretize returns a concrete feasible value for t, forking over alternatives.
func (x *Exec) Concretize(t *smt.Term) uint64 {
	if t.IsConst() {
		return t.Val
	}
	x.specGuard("concretize")
	for {
		if len(x.decisions) >= x.lim.MaxDecisions {
			x.abort(abBudget, "decision budget exhausted (concretize)")
		}
		if x.replaying() {
			d := x.trace[x.tpos]
			x.tpos++
			x.decisions = append(x.decisions, d)
			eq := x.st.Eq(t, x.st.Const(t.W, d.Val))
			if d.Taken {
				x.assume(eq)
				return d.Val
			}
			x.assume(x.st.BNot(eq))
			continue
		}
		// ask solver for a value
		v, ok := x.modelValue(t)
		if !ok {
			x.abort(abInfeasible, "concretize: no value")
		}
		eq := x.st.Eq(t, x.st.Const(t.W, v))
		// is another value possible?
		r := x.sol.CheckWith(x.st, x.st.BNot(eq))
		if r != smt.Unsat {
			other := make([]Decision, len(x.decisions)+1)
			copy(other, x.decisions)
			other[len(x.decisions)] = Decision{Val: v, Taken: false}
			x.pending = append(x.pending, other)
		}
		x.decisions = append(x.decisions, Decision{Val: v, Taken: true})
		x.assume(eq)
		return v
	}
}

func (x *Exec) modelValue(t *smt.Term) (uint64, bool) {
	x.sol.Define(x.st, t)
	if x.sol.Check() != smt.Sat {
		return 0, false
	}
	m, err := x.sol.Values(x.st, []*smt.Term{t})
	if err != nil {
		return 0, false
	}
	return m[t.ID], true
}

func (x *Exec) note(s string) {
	if x.notes == nil {
		x.notes = map[string]int{}
	}
	x.notes[s]++
}

// check verifies that c holds on the current path; records a violation otherwise.
// Returns after assuming c.
func (x *Exec) check(c *smt.Term, kind, msg string) {
	if c.IsTrue() {
		return
	}
	if x.ivDecide(c) == 1 {
		return
	}
	x.specGuard("check")
	if x.replaying() {
		// this check was decided (and any violation recorded) by the path that forked
		// later than this point with the same path condition
		x.assumeChecked(c)
		return
	}
	site := kind + ":" + msg + "@" + x.posStr()
	if x.h.siteSeen(site) >= x.h.MaxPerSite {
		// already reported often enough: only keep exploring the good side
		x.assumeChecked(c)
		return
	}
	nc := x.st.BNot(c)
	blocked := nc
	for iter := 0; iter < 6; iter++ {
		model, r := x.satModel(blocked)
		if r == smt.Unknown {
			x.unknowns++
			x.note("solver-unknown@check:" + msg)
			break
		}
		if r == smt.Unsat {
			break
		}
		// prefer a witness whose free input bytes are pairwise distinct: replays against the
		// real code are then more likely to make a wrong-data effect observable
		if x.modelPrefer != nil {
			// harness-supplied preference (e.g. "a valid token follows") for a replay-friendly witness
			if m2, r2 := x.satModel(x.st.BAnd(blocked, x.modelPrefer)); r2 == smt.Sat {
				model = m2
			}
		} else if d := x.distinctInputs(); d != nil {
			if m2, r2 := x.satModel(x.st.BAnd(blocked, d)); r2 == smt.Sat {
				model = m2
			}
		}
		v := Violation{Kind: kind, Msg: msg, Pos: x.posStr(), Model: model, Harness: x.h.Name, Stack: x.stackStrs()}
		kf := x.h.matchKnown(&v)
		if kf != nil {
			v.Known = kf.ID
			x.violations = append(x.violations, v)
			if len(kf.When) == 0 {
				break
			}
			// block this signature and look for a different violation at the same site
			sig := x.knownSigTerm(kf)
			if sig == nil {
				break
			}
			blocked = x.st.BAnd(blocked, x.st.BNot(sig))
			continue
		}
		x.h.siteHit(site)
		x.violations = append(x.violations, v)
		break
	}
	x.assumeChecked(c)
}

func (x *Exec) assumeChecked(c *smt.Term) {
	if c.IsFalse() {
		x.abort(abEnd, "unconditional failure")
	}
	x.assume(c)
	if !x.replaying() {
		if r := x.sol.CheckWith(x.st); r == smt.Unsat {
			x.abort(abEnd, "no continuation after failed check")
		}
	}
}

func (x *Exec) knownSigTerm(kf *KnownFinding) *smt.Term {
	r := x.st.True
	for _, w := range kf.When {
		if len(w) != 3 {
			return nil
		}
		var t *smt.Term
		for _, iv := range x.inputs {
			if iv.name == w[0] {
				t = iv.t
			}
		}
		if t == nil {
			return nil
		}
		var val uint64
		fmt.Sscan(w[2], &val)
		var c *smt.Term
		if t.W == 0 {
			c = t
			if val == 0 {
				c = x.st.BNot(t)
			}
			if w[1] == "!=" {
				c = x.st.BNot(c)
			}
		} else {
			k := x.st.Const(t.W, val)
			switch w[1] {
			case "==":
				c = x.st.Eq(t, k)
			case "!=":
				c = x.st.Ne(t, k)
			case "<":
				c = x.st.Ult(t, k)
			case ">":
				c = x.st.Ugt(t, k)
			case ">=":
				c = x.st.Uge(t, k)
			case "<=":
				c = x.st.Ule(t, k)
			default:
				return nil
			}
		}
		r = x.st.BAnd(r, c)
	}
	return r
}

// satModel checks pc ∧ extra and returns a model of the inputs when sat.
func (x *Exec) satModel(extra *smt.Term) (map[string]uint64, smt.Result) {
	var ts []*smt.Term
	for _, iv := range x.inputs {
		ts = append(ts, iv.t)
	}
	// make sure all inputs are defined outside the push
	for _, t := range ts {
		x.sol.Define(x.st, t)
	}
	x.sol.Define(x.st, extra)
	x.sol.Push()
	defer x.sol.Pop()
	x.sol.Assert(x.st, extra)
	// declare input vars even if unused by constraints so get-value works
	r := x.sol.Check()
	if r != smt.Sat {
		return nil, r
	}
	vals, err := x.sol.Values(x.st, ts)
	if err != nil {
		x.note("model-extraction-failed: " + err.Error())
		return map[string]uint64{}, smt.Sat
	}
	m := map[string]uint64{}
	for _, iv := range x.inputs {
		m[iv.name] = vals[iv.t.ID]
	}
	return m, smt.Sat
}

// goPanic: the analysed program panics unconditionally on this path.
func (x *Exec) goPanic(msg string) {
	x.check(x.st.False, "panic", msg)
	x.abort(abEnd, "panic")
}

// panicIf: program panics when c holds (bounds checks etc.).
func (x *Exec) panicIf(c *smt.Term, msg string) {
	x.check(x.st.BNot(c), "panic", msg)
}

// ---------- inputs ----------

func (x *Exec) uniqueName(n string) string {
	k := x.names[n]
	x.names[n] = k + 1
	if k == 0 {
		return n
	}
	return fmt.Sprintf("%s#%d", n, k)
}

func (x *Exec) newInput(name string, w int) *smt.Term {
	name = x.uniqueName(name)
	t := x.st.Var(name, w)
	x.inputs = append(x.inputs, inputVar{name, t})
	return t
}

// junk returns a fresh unconstrained value that is not part of the reported model.
func (x *Exec) junk(w int) *smt.Term {
	x.fresh++
	return x.st.Var(fmt.Sprintf("junk!%d", x.fresh), w)
}

// ---------- type helpers ----------

func (x *Exec) sizeof(t types.Type) int { return int(x.eng.Sizes.Sizeof(t)) }

func isSigned(t types.Type) bool {
	b, ok := t.Underlying().(*types.Basic)
	return ok && b.Info()&types.IsInteger != 0 && b.Info()&types.IsUnsigned == 0
}

func isFloat(t types.Type) bool {
	b, ok := t.Underlying().(*types.Basic)
	return ok && b.Info()&types.IsFloat != 0
}

func isString(t types.Type) bool {
	b, ok := t.Underlying().(*types.Basic)
	return ok && b.Info()&types.IsString != 0
}

func isBoolT(t types.Type) bool {
	b, ok := t.Underlying().(*types.Basic)
	return ok && b.Info()&types.IsBoolean != 0
}

func (x *Exec) width(t types.Type) int { return x.sizeof(t) * 8 }

func (x *Exec) c64(v int64) *smt.Term { return x.st.Const(64, uint64(v)) }

func (x *Exec) nilPtr() Ptr { return Ptr{Obj: nil, Off: x.st.Const(64, 0)} }

func (x *Exec) zero(t types.Type) Value {
	switch u := t.Underlying().(type) {
	case *types.Basic:
		switch {
		case u.Info()&types.IsBoolean != 0:
			return x.st.False
		case u.Info()&types.IsString != 0:
			return Str{P: x.nilPtr(), Len: x.c64(0)}
		case u.Kind() == types.UnsafePointer:
			return x.nilPtr()
		case u.Kind() == types.UntypedNil:
			return x.nilPtr()
		case u.Info()&types.IsComplex != 0:
			x.notEncoded("complex type")
		}
		return x.st.Const(x.width(t), 0)
	case *types.Pointer:
		return x.nilPtr()
	case *types.Slice:
		return Slice{P: x.nilPtr(), Len: x.c64(0), Cap: x.c64(0)}
	case *types.Interface:
		return Iface{}
	case *types.Struct:
		s := make(Struct, u.NumFields())
		for i := range s {
			s[i] = x.zero(u.Field(i).Type())
		}
		return s
	case *types.Array:
		n := int(u.Len())
		if n > 1<<16 {
			x.notEncoded("array value too large: %d", n)
		}
		a := make(Array, n)
		for i := range a {
			a[i] = x.zero(u.Elem())
		}
		return a
	case *types.Signature:
		return (*Func)(nil)
	case *types.Map:
		return MapRef{}
	case *types.Chan:
		return x.nilPtr()
	case *types.Tuple:
		tp := make(Tuple, u.Len())
		for i := range tp {
			tp[i] = x.zero(u.At(i).Type())
		}
		return tp
	}
	x.notEncoded("zero of type %s", t)
	return nil
}

// ---------- memory ----------

func (x *Exec) newObject(size int, typ types.Type, name string) *Object {
	x.nextObj++
	o := &Object{ID: x.nextObj, Size: size, Cells: map[int]*cell{}, Typ: typ, Name: name}
	return o
}

func (x *Exec) objLSize(o *Object) *smt.Term {
	if o.LSize != nil {
		return o.LSize
	}
	return x.c64(int64(o.Size))
}

// findCell returns the cell covering byte offset off, and its start.
func (o *Object) findCell(off int) (*cell, int) {
	for s := off; s >= 0 && s > off-16; s-- {
		if c, ok := o.Cells[s]; ok {
			if s+c.size > off {
				return c, s
			}
			return nil, 0
		}
	}
	return nil, 0
}

func (x *Exec) absentByte(o *Object, off int) *smt.Term {
	if o.Junk != nil {
		t := o.Junk(off)
		o.Cells[off] = &cell{1, t}
		return t
	}
	return x.st.Const(8, 0)
}

func (x *Exec) byteAt(o *Object, off int) *smt.Term {
	c, s := o.findCell(off)
	if c == nil {
		return x.absentByte(o, off)
	}
	t, ok := c.v.(*smt.Term)
	if !ok {
		if p, ok := c.v.(Ptr); ok && p.Obj == nil {
			t = p.Off
		} else {
			x.notEncoded("byte-granular read of a non-scalar cell (%T) in %s+%d", c.v, o, off)
		}
	}
	if t.W == 0 {
		return x.st.BoolToBV(t, 8)
	}
	i := off - s
	return x.st.Extract(t, i*8+7, i*8)
}

// splitCell breaks the cell starting at s into byte cells.
func (x *Exec) splitCell(o *Object, s int) {
	c := o.Cells[s]
	if c.size == 1 {
		return
	}
	bs := make([]*smt.Term, c.size)
	for i := 0; i < c.size; i++ {
		bs[i] = x.byteAt(o, s+i)
	}
	delete(o.Cells, s)
	for i := 0; i < c.size; i++ {
		o.Cells[s+i] = &cell{1, bs[i]}
	}
}

func (x *Exec) storeLeaf(o *Object, off, size int, v Value) {
	if off < 0 || off+size > o.Size {
		x.notEncoded("internal: storeLeaf out of object %s off=%d size=%d", o, off, size)
	}
	if x.spec != nil {
		x.specNote(o, off, size)
	}
	// clear overlaps
	for i := off - 15; i < off+size; i++ {
		if i < 0 {
			continue
		}
		c, ok := o.Cells[i]
		if !ok {
			continue
		}
		if i+c.size <= off {
			continue
		}
		if i == off && c.size == size {
			continue
		}
		if i >= off && i+c.size <= off+size {
			delete(o.Cells, i)
			continue
		}
		// partial overlap: split into bytes, then drop covered bytes
		x.splitCell(o, i)
	}
	for i := off; i < off+size; i++ {
		if c, ok := o.Cells[i]; ok && !(i == off && c.size == size) {
			delete(o.Cells, i)
		}
	}
	if t, ok := v.(*smt.Term); ok {
		if t.W == 0 && size != 1 {
			x.notEncoded("internal: bool stored with size %d", size)
		}
		if t.W != 0 && t.W != size*8 {
			x.notEncoded("internal: term width %d stored with size %d", t.W, size)
		}
		if t.W != 0 && t.IsConst() && t.Val == 0 && o.Junk == nil {
			delete(o.Cells, off) // zero == absent
			return
		}
	}
	o.Cells[off] = &cell{size, v}
}

func (x *Exec) loadLeaf(o *Object, off, size int, kind leafKind) Value {
	if off < 0 || off+size > o.Size {
		x.notEncoded("internal: loadLeaf out of object %s off=%d size=%d", o, off, size)
	}
	var raw Value
	if c, ok := o.Cells[off]; ok && c.size == size {
		raw = c.v
	} else {
		// is the region entirely absent?
		absent := true
		for i := off; i < off+size; i++ {
			if c, _ := o.findCell(i); c != nil {
				absent = false
				break
			}
		}
		if absent && o.Junk == nil {
			raw = nil
		} else {
			var t *smt.Term
			for i := 0; i < size; i++ {
				b := x.byteAt(o, off+i)
				if t == nil {
					t = b
				} else {
					t = x.st.Concat(b, t)
				}
			}
			raw = t
		}
	}
	return x.coerceLeaf(raw, size, kind)
}

func (x *Exec) coerceLeaf(raw Value, size int, kind leafKind) Value {
	switch kind {
	case lkInt:
		switch r := raw.(type) {
		case nil:
			return x.st.Const(size*8, 0)
		case *smt.Term:
			if r.W == 0 {
				return x.st.BoolToBV(r, size*8)
			}
			return r
		case Ptr:
			if r.Obj == nil {
				return r.Off
			}
			return r // tagged integer
		}
	case lkUintptr:
		switch r := raw.(type) {
		case nil:
			return x.st.Const(64, 0)
		case *smt.Term:
			return r
		case Ptr:
			if r.Obj == nil {
				return r.Off
			}
			return r
		case SymAddr, codeAddr:
			return r // opaque 8-byte values spilled by generated code (Tier 3)
		}
	case lkBool:
		switch r := raw.(type) {
		case nil:
			return x.st.False
		case *smt.Term:
			if r.W == 0 {
				return r
			}
			return x.st.BVToBool(r)
		}
	case lkPtr:
		switch r := raw.(type) {
		case nil:
			return x.nilPtr()
		case Ptr:
			return r
		case *smt.Term:
			return Ptr{Obj: nil, Off: r}
		case *Func:
			return r
		case ifaceTypeWord:
			if r.T == nil {
				return x.nilPtr()
			}
			return Ptr{Obj: x.typeObject(r.T), Off: x.c64(0)}
		case ifaceDataWord:
			return x.boxDataWord(r)
		}
	case lkFunc:
		switch r := raw.(type) {
		case nil:
			return (*Func)(nil)
		case *Func:
			return r
		case Ptr:
			if isNilPtr(r) {
				return (*Func)(nil)
			}
		case *smt.Term:
			if r.IsConst() && r.Val == 0 {
				return (*Func)(nil)
			}
		}
	case lkMap:
		switch r := raw.(type) {
		case nil:
			return MapRef{}
		case MapRef:
			return r
		}
	case lkIfaceT:
		switch r := raw.(type) {
		case nil:
			return ifaceTypeWord{}
		case ifaceTypeWord:
			return r
		case *smt.Term:
			if r.IsConst() && r.Val == 0 {
				return ifaceTypeWord{}
			}
		case Ptr:
			if isNilPtr(r) {
				return ifaceTypeWord{}
			}
			if r.Obj != nil && r.Obj.TypeOf != nil && r.Off.IsConst() && r.Off.Val == 0 {
				return ifaceTypeWord{r.Obj.TypeOf}
			}
			if r.Obj != nil {
				// a hand-built itab (non-empty interface assembled through rt.GoIface): the value is a
				// non-nil interface of an opaque dynamic type; calling a method on it is not encodable
				return ifaceTypeWord{types.Typ[types.UnsafePointer]}
			}
		}
	case lkIfaceD:
		switch r := raw.(type) {
		case nil:
			return ifaceDataWord{}
		case ifaceDataWord:
			return r
		case *smt.Term:
			if r.IsConst() && r.Val == 0 {
				return ifaceDataWord{}
			}
		case Ptr:
			return ifaceDataWord{V: r, raw: true}
		}
	}
	x.notEncoded("reinterpreting memory cell %T as leaf kind %d", raw, kind)
	return nil
}

// directIface reports whether values of type t are stored directly in an interface's data word.
func directIface(t types.Type) bool {
	switch u := t.Underlying().(type) {
	case *types.Pointer, *types.Map, *types.Chan, *types.Signature:
		return true
	case *types.Basic:
		return u.Kind() == types.UnsafePointer
	}
	return false
}

// typeObject returns the unique object standing for the runtime type descriptor of t.
func (x *Exec) typeObject(t types.Type) *Object {
	k := typeKey(t)
	if o, ok := x.typeObjs[k]; ok {
		return o
	}
	if x.typeObjs == nil {
		x.typeObjs = map[string]*Object{}
	}
	o := x.newObject(64, nil, "type:"+k)
	o.TypeOf = t
	o.ReadOnly = true
	o.Junk = func(off int) *smt.Term { return x.junk(8) }
	x.typeObjs[k] = o
	return o
}

// boxDataWord turns an interface data word into the pointer the runtime would hold.
func (x *Exec) boxDataWord(d ifaceDataWord) Value {
	if d.raw {
		return d.V
	}
	if d.V == nil {
		return x.nilPtr()
	}
	if d.box != nil {
		return Ptr{Obj: d.box, Off: x.c64(0)}
	}
	switch v := d.V.(type) {
	case Ptr:
		return v // pointer-shaped values are stored directly
	case MapRef, *Func:
		x.notEncoded("data word of a map/func interface read as a pointer")
	}
	x.notEncoded("interface data word read as a pointer without type information")
	return nil
}

// checkAccess asserts that [p, p+size) lies inside p's object.
func (x *Exec) checkAccess(p Ptr, size int, what string) {
	if p.Obj == nil {
		if p.Off.IsConst() {
			x.goPanic("nil pointer dereference (" + what + ")")
		}
		x.notEncoded("dereference of integer-valued pointer")
	}
	o := p.Obj
	if o.Ghost != nil && o.Ghost["inpool"] == true && size > 0 {
		x.check(x.st.False, "assert", what+" on an object that is currently in a sync.Pool (use after Put): "+o.String())
	}
	if x.frozen != 0 && size > 0 && o.ID <= x.frozenMark && isWriteAccess(what) {
		x.frozenWrite(o.String(), what)
	}
	if x.csRule && x.frozen == 1 && size > 0 && p.Off.IsConst() {
		x.csAccess(o, int(p.Off.Val), size, isWriteAccess(what), what)
	}
	if p.Off.IsConst() && o.LSize == nil {
		off := p.Off.SVal()
		if off < 0 || int(off)+size > o.Size {
			x.check(x.st.False, "memory", fmt.Sprintf("%s of %d bytes at offset %d outside %s", what, size, off, o))
			x.abort(abEnd, "memory")
		}
		return
	}
	ls := x.objLSize(o)
	end := x.st.Add(p.Off, x.c64(int64(size)))
	ok := x.st.BAnd(x.st.Ule(p.Off, ls), x.st.BAnd(x.st.Ule(end, ls), x.st.Ule(p.Off, end)))
	x.check(ok, "memory", fmt.Sprintf("%s of %d bytes outside %s", what, size, o))
}

func gcd(a, b int) int {
	if a < 0 {
		a = -a
	}
	if b < 0 {
		b = -b
	}
	for b != 0 {
		a, b = b, a%b
	}
	return a
}

func (x *Exec) ptrAddConst(p Ptr, d int) Ptr {
	if d == 0 {
		return p
	}
	return Ptr{Obj: p.Obj, Off: x.st.Add(p.Off, x.c64(int64(d))), Base: p.Base + d, Stride: p.Stride}
}

func (x *Exec) ptrAdd(p Ptr, d *smt.Term, stride int) Ptr {
	if d.IsConst() {
		return x.ptrAddConst(p, int(d.SVal()))
	}
	if stride <= 1 {
		stride = termStride(d)
	}
	np := Ptr{Obj: p.Obj, Off: x.st.Add(p.Off, d), Base: p.Base, Stride: gcd(p.Stride, stride)}
	if np.Stride == 0 {
		np.Stride = 1
	}
	if p.Off.IsConst() {
		np.Base = int(p.Off.SVal())
	}
	return np
}

// candidates enumerates concrete offsets for a symbolic pointer and an access of size n.
func (x *Exec) candidates(p Ptr, n int) []int {
	stride := p.Stride
	if stride <= 0 {
		stride = 1
	}
	var r []int
	start := ((p.Base % stride) + stride) % stride
	iv := x.interval(p.Off)
	for k := start; k+n <= p.Obj.Size; k += stride {
		if uint64(k) < iv.lo || uint64(k) > iv.hi {
			continue
		}
		r = append(r, k)
	}
	if len(r) > 4096 {
		x.notEncoded("symbolic offset with %d candidates in %s", len(r), p.Obj)
	}
	return r
}

func (x *Exec) loadLeafP(p Ptr, extra, size int, kind leafKind) Value {
	if p.Off.IsConst() {
		return x.loadLeaf(p.Obj, int(p.Off.SVal())+extra, size, kind)
	}
	cands := x.candidates(p, extra+size)
	if len(cands) == 0 {
		x.abort(abInfeasible, "no candidate offsets")
	}
	var res *smt.Term
	allTerms := true
	vals := make([]Value, len(cands))
	for i, k := range cands {
		vals[i] = x.loadLeaf(p.Obj, k+extra, size, kind)
		if _, ok := vals[i].(*smt.Term); !ok {
			allTerms = false
		}
	}
	if !allTerms {
		// concretise the offset
		k := x.Concretize(p.Off)
		return x.loadLeaf(p.Obj, int(int64(k))+extra, size, kind)
	}
	for i := len(cands) - 1; i >= 0; i-- {
		v := vals[i].(*smt.Term)
		if res == nil {
			res = v
		} else {
			res = x.st.Ite(x.st.Eq(p.Off, x.c64(int64(cands[i]))), v, res)
		}
	}
	return res
}

func (x *Exec) storeLeafP(p Ptr, extra, size int, v Value) {
	if p.Off.IsConst() {
		x.storeLeaf(p.Obj, int(p.Off.SVal())+extra, size, v)
		return
	}
	t, isTerm := v.(*smt.Term)
	cands := x.candidates(p, extra+size)
	if isTerm {
		kind := lkInt
		if t.W == 0 {
			kind = lkBool
		}
		olds := make([]Value, len(cands))
		ok := true
		for i, k := range cands {
			func() {
				defer func() {
					if r := recover(); r != nil {
						if pa, is := r.(pathAbort); is && pa.kind == abNotEncoded {
							ok = false
							return
						}
						panic(r)
					}
				}()
				olds[i] = x.loadLeaf(p.Obj, k+extra, size, kind)
			}()
			if _, is := olds[i].(*smt.Term); !is {
				ok = false
			}
			if !ok {
				break
			}
		}
		if ok {
			for i, k := range cands {
				nv := x.st.Ite(x.st.Eq(p.Off, x.c64(int64(k))), t, olds[i].(*smt.Term))
				x.storeLeaf(p.Obj, k+extra, size, nv)
			}
			return
		}
	}
	k := x.Concretize(p.Off)
	x.storeLeaf(p.Obj, int(int64(k))+extra, size, v)
}

func (x *Exec) load(p Ptr, t types.Type) Value {
	x.checkAccess(p, x.sizeof(t), "load")
	if !p.Off.IsConst() && !x.isFlatScalar(t) {
		// composite through symbolic offset: concretise once
		k := x.Concretize(p.Off)
		p = Ptr{Obj: p.Obj, Off: x.c64(int64(k))}
	}
	x.logAccess("R", p, x.sizeof(t))
	return x.loadT(p, 0, t)
}

func (x *Exec) store(p Ptr, t types.Type, v Value) {
	x.checkAccess(p, x.sizeof(t), "store")
	if p.Obj.ReadOnly {
		x.check(x.st.False, "memory", "store to read-only object "+p.Obj.String())
		x.abort(abEnd, "memory")
	}
	if !p.Off.IsConst() && !x.isFlatScalar(t) {
		k := x.Concretize(p.Off)
		p = Ptr{Obj: p.Obj, Off: x.c64(int64(k))}
	}
	x.logAccess("W", p, x.sizeof(t))
	x.storeT(p, 0, t, v)
}

func (x *Exec) isFlatScalar(t types.Type) bool {
	switch u := t.Underlying().(type) {
	case *types.Basic:
		return u.Info()&types.IsString == 0
	case *types.Pointer:
		return true
	}
	return false
}

func (x *Exec) loadT(p Ptr, extra int, t types.Type) Value {
	switch u := t.Underlying().(type) {
	case *types.Basic:
		switch {
		case u.Info()&types.IsBoolean != 0:
			return x.loadLeafP(p, extra, 1, lkBool)
		case u.Info()&types.IsString != 0:
			pp := x.loadLeafP(p, extra, 8, lkPtr)
			ptr, ok := pp.(Ptr)
			if !ok {
				x.notEncoded("string data word holds %T", pp)
			}
			l := x.loadLeafP(p, extra+8, 8, lkInt)
			lt, ok := l.(*smt.Term)
			if !ok {
				x.notEncoded("string len word holds %T", l)
			}
			return Str{P: ptr, Len: lt}
		case u.Kind() == types.UnsafePointer:
			return x.asPtr(x.loadLeafP(p, extra, 8, lkPtr))
		case u.Kind() == types.Uintptr:
			return x.loadLeafP(p, extra, 8, lkUintptr)
		case u.Info()&types.IsComplex != 0:
			x.notEncoded("complex load")
		}
		return x.loadLeafP(p, extra, x.sizeof(t), lkInt)
	case *types.Pointer, *types.Chan:
		return x.asPtr(x.loadLeafP(p, extra, 8, lkPtr))
	case *types.Slice:
		ptr := x.asPtr(x.loadLeafP(p, extra, 8, lkPtr))
		l := x.asTerm(x.loadLeafP(p, extra+8, 8, lkInt))
		c := x.asTerm(x.loadLeafP(p, extra+16, 8, lkInt))
		return Slice{P: ptr, Len: l, Cap: c}
	case *types.Interface:
		tw := x.loadLeafP(p, extra, 8, lkIfaceT).(ifaceTypeWord)
		dw := x.loadLeafP(p, extra+8, 8, lkIfaceD).(ifaceDataWord)
		if tw.T == nil {
			return Iface{}
		}
		if dw.raw {
			// data word written as a plain pointer (rt.GoEface.Pack and friends)
			dp := dw.V.(Ptr)
			if directIface(tw.T) {
				return Iface{T: tw.T, V: dp}
			}
			if dp.Obj == nil {
				x.notEncoded("interface built from a nil data pointer for type %s", tw.T)
			}
			return Iface{T: tw.T, V: x.loadT(dp, 0, tw.T)}
		}
		return Iface{T: tw.T, V: dw.V}
	case *types.Struct:
		s := make(Struct, u.NumFields())
		offs := x.fieldOffsets(u)
		for i := range s {
			s[i] = x.loadT(p, extra+offs[i], u.Field(i).Type())
		}
		return s
	case *types.Array:
		n := int(u.Len())
		es := x.sizeof(u.Elem())
		a := make(Array, n)
		for i := range a {
			a[i] = x.loadT(p, extra+i*es, u.Elem())
		}
		return a
	case *types.Signature:
		return x.loadLeafP(p, extra, 8, lkFunc)
	case *types.Map:
		return x.loadLeafP(p, extra, 8, lkMap)
	}
	x.notEncoded("load of type %s", t)
	return nil
}

func (x *Exec) asPtr(v Value) Ptr {
	switch p := v.(type) {
	case Ptr:
		return p
	case *smt.Term:
		return Ptr{Obj: nil, Off: p}
	}
	x.notEncoded("expected pointer, got %T", v)
	return Ptr{}
}

func (x *Exec) asTerm(v Value) *smt.Term {
	switch p := v.(type) {
	case *smt.Term:
		return p
	case Ptr:
		if p.Obj == nil {
			return p.Off
		}
	}
	x.notEncoded("expected scalar, got %T", v)
	return nil
}


func (x *Exec) fieldOffsets(s *types.Struct) []int {
	x.eng.mu.Lock()
	defer x.eng.mu.Unlock()
	if o, ok := x.eng.offCache[s]; ok {
		return o
	}
	fs := make([]*types.Var, s.NumFields())
	for i := range fs {
		fs[i] = s.Field(i)
	}
	o64 := x.eng.Sizes.Offsetsof(fs)
	o := make([]int, len(o64))
	for i := range o {
		o[i] = int(o64[i])
	}
	x.eng.offCache[s] = o
	return o
}

func (x *Exec) storeT(p Ptr, extra int, t types.Type, v Value) {
	switch u := t.Underlying().(type) {
	case *types.Basic:
		switch {
		case u.Info()&types.IsString != 0:
			s, ok := v.(Str)
			if !ok {
				x.notEncoded("store string: got %T", v)
			}
			x.storeLeafP(p, extra, 8, s.P)
			x.storeLeafP(p, extra+8, 8, s.Len)
			return
		case u.Info()&types.IsComplex != 0:
			x.notEncoded("complex store")
		}
		x.storeLeafP(p, extra, x.sizeof(t), v)
	case *types.Pointer, *types.Chan, *types.Signature, *types.Map:
		x.storeLeafP(p, extra, 8, v)
	case *types.Slice:
		s, ok := v.(Slice)
		if !ok {
			x.notEncoded("store slice: got %T", v)
		}
		x.storeLeafP(p, extra, 8, s.P)
		x.storeLeafP(p, extra+8, 8, s.Len)
		x.storeLeafP(p, extra+16, 8, s.Cap)
	case *types.Interface:
		i, ok := v.(Iface)
		if !ok {
			x.notEncoded("store iface: got %T", v)
		}
		if i.T == nil {
			x.storeLeafP(p, extra, 8, x.c64(0))
			x.storeLeafP(p, extra+8, 8, x.c64(0))
		} else {
			x.storeLeafP(p, extra, 8, ifaceTypeWord{i.T})
			dw := ifaceDataWord{V: i.V}
			if !directIface(i.T) {
				// lazily materialised box: an object holding the value, as the runtime does
				func() {
					defer func() {
						if r := recover(); r != nil {
							if pa, ok := r.(pathAbort); ok && pa.kind == abNotEncoded {
								return
							}
							panic(r)
						}
					}()
					bo := x.newObject(max(x.sizeof(i.T), 1), i.T, "ifacebox")
					x.storeT(Ptr{Obj: bo, Off: x.c64(0)}, 0, i.T, i.V)
					dw.box = bo
				}()
			}
			x.storeLeafP(p, extra+8, 8, dw)
		}
	case *types.Struct:
		s, ok := v.(Struct)
		if !ok {
			x.notEncoded("store struct %s: got %T", t, v)
		}
		offs := x.fieldOffsets(u)
		for i := range s {
			x.storeT(p, extra+offs[i], u.Field(i).Type(), s[i])
		}
	case *types.Array:
		a, ok := v.(Array)
		if !ok {
			x.notEncoded("store array: got %T", v)
		}
		es := x.sizeof(u.Elem())
		for i := range a {
			x.storeT(p, extra+i*es, u.Elem(), a[i])
		}
	default:
		x.notEncoded("store of type %s", t)
	}
}

// ---------- strings / byte objects ----------

func (x *Exec) constString(s string) Str {
	if len(s) == 0 {
		return Str{P: x.nilPtr(), Len: x.c64(0)}
	}
	o, ok := x.strObjs[s]
	if !ok {
		o = x.newObject(len(s), nil, "str")
		o.ReadOnly = true
		for i := 0; i < len(s); i++ {
			if s[i] != 0 {
				o.Cells[i] = &cell{1, x.st.Const(8, uint64(s[i]))}
			}
		}
		x.strObjs[s] = o
	}
	return Str{P: Ptr{Obj: o, Off: x.c64(0)}, Len: x.c64(int64(len(s)))}
}

// concreteString returns the Go string if s is fully concrete.
func (x *Exec) concreteString(s Str) (string, bool) {
	if !s.Len.IsConst() {
		return "", false
	}
	n := int(s.Len.Val)
	if n == 0 {
		return "", true
	}
	if s.P.Obj == nil || !s.P.Off.IsConst() {
		return "", false
	}
	off := int(s.P.Off.Val)
	if off+n > s.P.Obj.Size {
		return "", false
	}
	b := make([]byte, n)
	for i := 0; i < n; i++ {
		t := x.byteAt(s.P.Obj, off+i)
		if !t.IsConst() {
			return "", false
		}
		b[i] = byte(t.Val)
	}
	return string(b), true
}

// maxLen returns an upper bound for a length term given the object bounds.
func (x *Exec) maxLen(p Ptr, l *smt.Term, esize int) int {
	if l.IsConst() {
		return int(l.Val)
	}
	if p.Obj == nil {
		return 0
	}
	base := 0
	if p.Off.IsConst() {
		base = int(p.Off.Val)
	} else {
		base = ((p.Base % max(p.Stride, 1)) + max(p.Stride, 1)) % max(p.Stride, 1)
	}
	r := (p.Obj.Size - base) / esize
	if iv := x.interval(l); iv.hi < uint64(r) {
		r = int(iv.hi)
	}
	return r
}

// byteOf returns the byte at index i (term) of the byte sequence at p.
func (x *Exec) byteIdx(p Ptr, i int) *smt.Term {
	return x.asTerm(x.loadLeafP(p, i, 1, lkInt))
}

// strEq builds a Bool term for a == b.
func (x *Exec) strEq(a, b Str) *smt.Term {
	leq := x.st.Eq(a.Len, b.Len)
	if leq.IsFalse() {
		return leq
	}
	n := min(x.maxLen(a.P, a.Len, 1), x.maxLen(b.P, b.Len, 1))
	r := leq
	for i := 0; i < n; i++ {
		in := x.st.Ult(x.c64(int64(i)), a.Len)
		if in.IsFalse() {
			break
		}
		e := x.st.Eq(x.byteIdx(a.P, i), x.byteIdx(b.P, i))
		r = x.st.BAnd(r, x.st.Implies(in, e))
	}
	// if len can exceed n on both, equality beyond n cannot be decided: require len<=n
	if !a.Len.IsConst() || !b.Len.IsConst() {
		r = x.st.BAnd(r, x.st.Ule(a.Len, x.c64(int64(n))))
	}
	return r
}

// strLess builds a Bool term for a < b (bytewise).
func (x *Exec) strLess(a, b Str) *smt.Term {
	n := min(x.maxLen(a.P, a.Len, 1), x.maxLen(b.P, b.Len, 1))
	// from the end: res_i = if i>=la: i<lb ; elif i>=lb: false; elif a[i]<b[i]: true; elif a[i]>b[i]: false; else res_{i+1}
	res := x.st.Ult(a.Len, b.Len) // at i==n: a exhausted (la<=n) -> la<lb
	for i := n - 1; i >= 0; i-- {
		ci := x.c64(int64(i))
		ai, bi := x.byteIdx(a.P, i), x.byteIdx(b.P, i)
		inner := x.st.Ite(x.st.Ult(ai, bi), x.st.True, x.st.Ite(x.st.Ult(bi, ai), x.st.False, res))
		res = x.st.Ite(x.st.Ule(a.Len, ci), x.st.Ult(ci, b.Len), x.st.Ite(x.st.Ule(b.Len, ci), x.st.False, inner))
	}
	return res
}

// newBytes allocates a byte object of physical size n.
func (x *Exec) newBytes(n int, name string) *Object {
	return x.newObject(n, nil, name)
}

// copyBytes copies up to maxN bytes (those with index < n) from src to dst.
func (x *Exec) copyBytes(dst, src Ptr, n *smt.Term, maxN int) {
	if n.IsConst() {
		maxN = int(n.Val)
	}
	// read all first (overlap safety)
	vals := make([]*smt.Term, maxN)
	for i := 0; i < maxN; i++ {
		vals[i] = x.byteIdx(src, i)
	}
	for i := 0; i < maxN; i++ {
		v := vals[i]
		if !n.IsConst() {
			old := x.byteIdx(dst, i)
			v = x.st.Ite(x.st.Ult(x.c64(int64(i)), n), v, old)
		}
		x.storeLeafP(dst, i, 1, v)
	}
}

// cloneBytes makes a fresh object holding the first n bytes at p.
func (x *Exec) cloneBytes(p Ptr, n *smt.Term, name string) Ptr {
	maxN := x.maxLen(p, n, 1)
	if maxN == 0 {
		if n.IsConst() {
			return x.nilPtr()
		}
	}
	o := x.newBytes(maxN, name)
	if !n.IsConst() {
		o.LSize = n
	}
	np := Ptr{Obj: o, Off: x.c64(0)}
	if p.Obj != nil {
		for i := 0; i < maxN; i++ {
			x.storeLeaf(o, i, 1, x.byteIdx(p, i))
		}
	}
	return np
}

// ---------- frames ----------

type frame struct {
	fn     *ssa.Function
	locals map[ssa.Value]Value
	defers []func()
	env    []Value
	block  *ssa.BasicBlock
	prev   *ssa.BasicBlock
	envMerged map[*ssa.Phi]Value
}

func (x *Exec) get(fr *frame, v ssa.Value) Value {
	switch c := v.(type) {
	case *ssa.Const:
		return x.constValue(c)
	case *ssa.Function:
		return &Func{Fn: c}
	case *ssa.Global:
		return Ptr{Obj: x.globalObj(c), Off: x.c64(0)}
	case *ssa.Builtin:
		return &Func{Builtin: c}
	}
	r, ok := fr.locals[v]
	if !ok {
		x.notEncoded("internal: value %s (%T) not computed in %s", v.Name(), v, fr.fn)
	}
	return r
}

func (x *Exec) constValue(c *ssa.Const) Value {
	t := c.Type()
	if c.Value == nil {
		return x.zero(t)
	}
	switch u := t.Underlying().(type) {
	case *types.Basic:
		switch {
		case u.Info()&types.IsBoolean != 0:
			return x.st.Bool(constantBool(c))
		case u.Info()&types.IsString != 0:
			return x.constString(constantString(c))
		case u.Info()&types.IsInteger != 0:
			if u.Info()&types.IsUnsigned != 0 {
				return x.st.Const(x.width(t), c.Uint64())
			}
			return x.st.Const(x.width(t), uint64(c.Int64()))
		case u.Info()&types.IsFloat != 0:
			return x.floatConst(c.Float64(), x.width(t))
		}
	}
	x.notEncoded("constant of type %s", t)
	return nil
}

func (x *Exec) globalObj(g *ssa.Global) *Object {
	if o, ok := x.globals[g]; ok {
		return o
	}
	et := g.Type().(*types.Pointer).Elem()
	o := x.newObject(x.sizeof(et), et, "global:"+g.Name())
	o.Ghost = map[string]interface{}{"global": true}
	x.globals[g] = o
	if g.Pkg != nil {
		x.ensureInit(g.Pkg)
	}
	return o
}

// ensureInit runs the package initialiser best-effort (see DESIGN Appendix E).
func (x *Exec) ensureInit(p *ssa.Package) {
	if x.inited[p] || x.initing[p] {
		return
	}
	x.initing[p] = true
	defer func() { x.inited[p] = true; delete(x.initing, p) }()
	if x.h.SkipInit[p.Pkg.Path()] {
		return
	}
	init := p.Func("init")
	if init == nil || len(init.Blocks) == 0 {
		return
	}
	x.lenient++
	savedPos := x.curPos
	defer func() { x.lenient--; x.curPos = savedPos }()
	x.runInit(init)
}

type poison struct{ why string }

// runInit executes the init function straight-line, tolerating unsupported instructions.
func (x *Exec) runInit(fn *ssa.Function) {
	fr := &frame{fn: fn, locals: map[ssa.Value]Value{}}
	x.callStack = append(x.callStack, fn)
	defer func() { x.callStack = x.callStack[:len(x.callStack)-1] }()
	b := fn.Blocks[0]
	var prev *ssa.BasicBlock
	visited := 0
	for b != nil {
		visited++
		if visited > 100000 {
			x.note("init-abandoned:" + fn.Pkg.Pkg.Path() + ": too many blocks")
			return
		}
		var next *ssa.BasicBlock
		for _, ins := range b.Instrs {
			stop := false
			func() {
				defer func() {
					if r := recover(); r != nil {
						pa, ok := r.(pathAbort)
						if !ok {
							panic(r)
						}
						if v, ok := ins.(ssa.Value); ok {
							fr.locals[v] = poison{pa.msg}
						}
						switch ins.(type) {
						case *ssa.If, *ssa.Jump, *ssa.Return, *ssa.Panic:
							stop = true
							x.note("init-abandoned:" + fn.Pkg.Pkg.Path() + ": " + pa.msg)
						}
					}
				}()
				// the package guard "init$guard"
				switch i := ins.(type) {
				case *ssa.Call:
					// skip dependency inits (done on demand)
					if f, ok := i.Call.Value.(*ssa.Function); ok && f.Name() == "init" && f.Pkg != fn.Pkg {
						return
					}
					// user-declared init functions (registration, CPU dispatch, JIT set-up) are not run:
					// what they would set is bound by the harness (stubs) instead
					if f, ok := i.Call.Value.(*ssa.Function); ok && strings.HasPrefix(f.Name(), "init#") && !x.h.RunInitFuncs[f.Pkg.Pkg.Path()] {
						x.note("init-func-skipped:" + f.Pkg.Pkg.Path() + "." + f.Name())
						return
					}
				case *ssa.If:
					c := x.get(fr, i.Cond)
					if _, isP := c.(poison); isP {
						panic(pathAbort{abNotEncoded, "branch on unknown in init"})
					}
					t := c.(*smt.Term)
					if !t.IsConst() {
						panic(pathAbort{abNotEncoded, "symbolic branch in init"})
					}
					if t.IsTrue() {
						next = b.Succs[0]
					} else {
						next = b.Succs[1]
					}
					return
				case *ssa.Jump:
					next = b.Succs[0]
					return
				case *ssa.Return:
					stop = true
					return
				}
				fr.block, fr.prev = b, prev
				x.step(fr, ins)
			}()
			if stop {
				return
			}
		}
		prev = b
		b = next
	}
}

// ---------- call machinery ----------

func (x *Exec) call(fn *ssa.Function, args []Value, env []Value) Value {
	if x.spec != nil {
		panic(pathAbort{abSpec, "call"})
	}
	if fn == nil {
		x.goPanic("call of nil function")
	}
	if st, ok := x.stubs[fn.String()]; ok {
		f := st.(*Func)
		return x.call(f.Fn, args, f.Env)
	}
	if r, ok := x.intrinsic(fn, args); ok {
		return r
	}
	if len(fn.Blocks) == 0 {
		x.notEncoded("call to function without body: %s", fn)
	}
	if x.depth >= x.lim.MaxDepth {
		x.abort(abBudget, "call depth budget exhausted in %s", fn)
	}
	x.depth++
	x.funcs[fn.String()] = true
	x.callStack = append(x.callStack, fn)
	savedPos := x.curPos
	defer func() { x.depth--; x.callStack = x.callStack[:len(x.callStack)-1]; x.curPos = savedPos }()

	fr := &frame{fn: fn, locals: make(map[ssa.Value]Value, 32), env: env}
	for i, p := range fn.Params {
		if i < len(args) {
			fr.locals[p] = args[i]
		}
	}
	for i, fv := range fn.FreeVars {
		fr.locals[fv] = env[i]
	}
	b := fn.Blocks[0]
	var prev *ssa.BasicBlock
	for {
		fr.block, fr.prev = b, prev
		var next *ssa.BasicBlock
		// phis first (parallel assignment)
		nphi := 0
		var phiVals []Value
		for _, ins := range b.Instrs {
			phi, ok := ins.(*ssa.Phi)
			if !ok {
				break
			}
			nphi++
			idx := -1
			for i, pb := range b.Preds {
				if pb == prev {
					idx = i
					break
				}
			}
			if idx < 0 {
				x.notEncoded("internal: phi without matching pred")
			}
			phiVals = append(phiVals, x.get(fr, phi.Edges[idx]))
		}
		for i := 0; i < nphi; i++ {
			phi := b.Instrs[i].(*ssa.Phi)
			if mv, ok := fr.envMerged[phi]; ok {
				fr.locals[phi] = mv
			} else {
				fr.locals[phi] = phiVals[i]
			}
		}
		fr.envMerged = nil
		for _, ins := range b.Instrs[nphi:] {
			x.steps++
			if x.hangBound > 0 && x.steps > x.hangBound {
				x.hangBound = 0
				x.check(x.st.False, "hang", "the operation does not finish within the stated instruction bound (non-termination / runaway loop)")
				x.abort(abEnd, "hang bound")
			}
			if x.steps > x.lim.MaxSteps {
				x.abort(abBudget, "step budget exhausted in %s", fn)
			}
			if p := ins.Pos(); p.IsValid() {
				x.curPos = p
			}
			switch i := ins.(type) {
			case *ssa.If:
				c := x.get(fr, i.Cond).(*smt.Term)
				if x.tryMergeRegion(fr, b, c) {
					next = fr.block
					prev = fr.prev
					goto nextBlock
				}
				if x.Branch(c) {
					next = b.Succs[0]
				} else {
					next = b.Succs[1]
				}
			case *ssa.Jump:
				next = b.Succs[0]
			case *ssa.Return:
				x.runDefers(fr)
				switch len(i.Results) {
				case 0:
					return nil
				case 1:
					return x.get(fr, i.Results[0])
				}
				t := make(Tuple, len(i.Results))
				for k, r := range i.Results {
					t[k] = x.get(fr, r)
				}
				return t
			case *ssa.Panic:
				v := x.get(fr, i.X)
				msg := "panic"
				if iv, ok := v.(Iface); ok {
					if s, ok := iv.V.(Str); ok {
						if cs, ok := x.concreteString(s); ok {
							msg = "panic: " + cs
						}
					} else if iv.T != nil {
						msg = "panic: value of type " + iv.T.String()
					}
				}
				x.goPanic(msg)
			default:
				x.step(fr, ins)
			}
		}
		prev = b
	nextBlock:
		if next == nil {
			x.notEncoded("internal: block without terminator in %s", fn)
		}
		b = next
	}
}

// ---------- diamond merging by speculative execution ----------

type specLoc struct {
	o    *Object
	off  int
	size int
}

type undoRec struct {
	o   *Object
	off int
	old *cell
}

type specLog struct {
	undo []undoRec
	locs []specLoc
}

// specNote is called by storeLeaf before it modifies [off,off+size).
func (x *Exec) specNote(o *Object, off, size int) {
	sp := x.spec
	lo, hi := off-15, off+size+15
	if lo < 0 {
		lo = 0
	}
	if hi > o.Size {
		hi = o.Size
	}
	for i := lo; i < hi; i++ {
		sp.undo = append(sp.undo, undoRec{o, i, o.Cells[i]})
	}
	sp.locs = append(sp.locs, specLoc{o, off, size})
}

func (x *Exec) specGuard(what string) {
	if x.spec != nil {
		panic(pathAbort{abSpec, what})
	}
	if x.lenient > 0 {
		// package initialisers are executed best-effort and never fork or report
		panic(pathAbort{abNotEncoded, "symbolic " + what + " during package init"})
	}
}

func (x *Exec) rawAt(o *Object, off, size int) Value {
	if c, ok := o.Cells[off]; ok && c.size == size {
		return c.v
	}
	return x.loadLeaf(o, off, size, lkInt)
}

// specArm runs the straight-line block blk speculatively and returns the locations
// it wrote with their final values; memory is restored afterwards.
func (x *Exec) specArm(fr *frame, blk *ssa.BasicBlock) (locs []specLoc, vals []Value, ok bool) {
	if blk == nil {
		return nil, nil, true
	}
	x.spec = &specLog{}
	ok = true
	func() {
		defer func() {
			if r := recover(); r != nil {
				if pa, is := r.(pathAbort); is && (pa.kind == abNotEncoded || pa.kind == abSpec) {
					ok = false
					return
				}
				x.spec = nil
				panic(r)
			}
		}()
		for _, ins := range blk.Instrs {
			if _, isJ := ins.(*ssa.Jump); isJ {
				break
			}
			x.step(fr, ins)
		}
	}()
	sp := x.spec
	x.spec = nil
	if ok {
		seen := map[specLoc]bool{}
		for _, l := range sp.locs {
			if seen[l] {
				continue
			}
			seen[l] = true
			func() {
				defer func() {
					if r := recover(); r != nil {
						if pa, is := r.(pathAbort); is && pa.kind == abNotEncoded {
							ok = false
							return
						}
						panic(r)
					}
				}()
				locs = append(locs, l)
				vals = append(vals, x.rawAt(l.o, l.off, l.size))
			}()
		}
	}
	for i := len(sp.undo) - 1; i >= 0; i-- {
		u := sp.undo[i]
		if u.old == nil {
			delete(u.o.Cells, u.off)
		} else {
			u.o.Cells[u.off] = u.old
		}
	}
	return
}

func specAllowed(ins ssa.Instruction) bool {
	switch i := ins.(type) {
	case *ssa.Jump, *ssa.DebugRef, *ssa.BinOp, *ssa.Convert, *ssa.ChangeType, *ssa.FieldAddr,
		*ssa.IndexAddr, *ssa.Field, *ssa.Store, *ssa.Extract, *ssa.MakeInterface, *ssa.Slice, *ssa.Index:
		return true
	case *ssa.UnOp:
		return i.Op != token.ARROW
	}
	return false
}

// tryMergeDiamond turns  if c {A} else {B}; join  (A, B single straight-line blocks
// without calls) into ite terms for phis and memory. On success fr.block/fr.prev
// are set so that the main loop continues at the join block.
func (x *Exec) tryMergeDiamond(fr *frame, b *ssa.BasicBlock, c *smt.Term) bool {
	if c.IsConst() || x.h.NoMerge || x.spec != nil {
		return false
	}
	t, f := b.Succs[0], b.Succs[1]
	armJoin := func(blk *ssa.BasicBlock) *ssa.BasicBlock {
		if len(blk.Preds) != 1 || len(blk.Succs) != 1 || len(blk.Instrs) > 40 {
			return nil
		}
		for _, ins := range blk.Instrs {
			if !specAllowed(ins) {
				return nil
			}
		}
		return blk.Succs[0]
	}
	var join, tb, fb *ssa.BasicBlock
	jt, jf := armJoin(t), armJoin(f)
	switch {
	case jt != nil && jt == jf:
		join, tb, fb = jt, t, f
	case jt != nil && jt == f:
		join, tb, fb = f, t, nil
	case jf != nil && jf == t:
		join, tb, fb = t, nil, f
	default:
		return false
	}
	if join == b {
		return false
	}
	locsT, valsT, ok := x.specArm(fr, tb)
	if !ok {
		return false
	}
	locsF, valsF, ok := x.specArm(fr, fb)
	if !ok {
		return false
	}
	predT, predF := b, b
	if tb != nil {
		predT = tb
	}
	if fb != nil {
		predF = fb
	}
	idxOf := func(p *ssa.BasicBlock) int {
		for i, q := range join.Preds {
			if q == p {
				return i
			}
		}
		return -1
	}
	it, ifx := idxOf(predT), idxOf(predF)
	if it < 0 || ifx < 0 {
		return false
	}
	// merge memory
	type mw struct {
		l      specLoc
		vt, vf Value
	}
	var ws []mw
	find := func(ls []specLoc, l specLoc) int {
		for i, q := range ls {
			if q == l {
				return i
			}
			if q.o == l.o && q.off < l.off+l.size && l.off < q.off+q.size {
				return -2 // partial overlap
			}
		}
		return -1
	}
	okm := true
	func() {
		defer func() {
			if r := recover(); r != nil {
				if pa, is := r.(pathAbort); is && pa.kind == abNotEncoded {
					okm = false
					return
				}
				panic(r)
			}
		}()
		for i, l := range locsT {
			w := mw{l: l, vt: valsT[i]}
			switch j := find(locsF, l); {
			case j >= 0:
				w.vf = valsF[j]
			case j == -2:
				okm = false
				return
			default:
				w.vf = x.rawAt(l.o, l.off, l.size)
			}
			ws = append(ws, w)
		}
		for i, l := range locsF {
			switch j := find(locsT, l); {
			case j >= 0:
				continue
			case j == -2:
				okm = false
				return
			}
			ws = append(ws, mw{l: l, vt: x.rawAt(l.o, l.off, l.size), vf: valsF[i]})
		}
	}()
	if !okm {
		return false
	}
	merged := make([]Value, len(ws))
	for i, w := range ws {
		m, ok := x.iteRaw(c, w.vt, w.vf, w.l.size)
		if !ok {
			return false
		}
		merged[i] = m
	}
	var phis []*ssa.Phi
	var vals []Value
	for _, ins := range join.Instrs {
		phi, ok := ins.(*ssa.Phi)
		if !ok {
			break
		}
		a, bb := x.get(fr, phi.Edges[it]), x.get(fr, phi.Edges[ifx])
		m, ok := x.iteValue(c, a, bb)
		if !ok {
			return false
		}
		phis = append(phis, phi)
		vals = append(vals, m)
	}
	// commit
	for i, w := range ws {
		x.storeLeaf(w.l.o, w.l.off, w.l.size, merged[i])
	}
	fr.envMerged = map[*ssa.Phi]Value{}
	for i, p := range phis {
		fr.envMerged[p] = vals[i]
	}
	fr.block = join
	fr.prev = predT
	x.merges++
	return true
}

// iteRaw merges two raw cell values.
func (x *Exec) iteRaw(c *smt.Term, a, b Value, size int) (Value, bool) {
	norm := func(v Value) Value {
		if v == nil {
			return x.st.Const(size*8, 0)
		}
		if t, ok := v.(*smt.Term); ok && t.W == 0 && size == 1 {
			return v
		}
		return v
	}
	a, b = norm(a), norm(b)
	at, aok := a.(*smt.Term)
	bt, bok := b.(*smt.Term)
	if aok && bok {
		if at.W != bt.W {
			if at.W == 0 {
				at = x.st.BoolToBV(at, 8)
			}
			if bt.W == 0 {
				bt = x.st.BoolToBV(bt, 8)
			}
			if at.W != bt.W {
				return nil, false
			}
		}
		return x.st.Ite(c, at, bt), true
	}
	return x.iteValue(c, a, b)
}

func (x *Exec) iteValue(c *smt.Term, a, b Value) (Value, bool) {
	switch av := a.(type) {
	case *smt.Term:
		bv, ok := b.(*smt.Term)
		if !ok || av.W != bv.W {
			return nil, false
		}
		return x.st.Ite(c, av, bv), true
	case Ptr:
		bv, ok := b.(Ptr)
		if !ok || av.Obj != bv.Obj {
			return nil, false
		}
		if av.Off == bv.Off {
			return av, true
		}
		if av.Obj == nil {
			return Ptr{Off: x.st.Ite(c, av.Off, bv.Off)}, true
		}
		return nil, false
	case Str:
		bv, ok := b.(Str)
		if !ok {
			return nil, false
		}
		p, ok := x.iteValue(c, av.P, bv.P)
		if !ok {
			return nil, false
		}
		return Str{P: p.(Ptr), Len: x.st.Ite(c, av.Len, bv.Len)}, true
	}
	return nil, false
}

func (x *Exec) runDefers(fr *frame) {
	for len(fr.defers) > 0 {
		d := fr.defers[len(fr.defers)-1]
		fr.defers = fr.defers[:len(fr.defers)-1]
		d()
	}
}

func sortedKeys(m map[string]int) []string {
	var r []string
	for k := range m {
		r = append(r, k)
	}
	sort.Strings(r)
	return r
}
