package gosym

import "strings"

// Shared-state discipline ("freeze"): after v.Freeze(mode) every object that exists at that
// point counts as shared with other goroutines. A plain store to such an object is a
// violation unless (mode 1) a write lock is held by the executing thread, or never (mode 2:
// published data must be immutable; only sync/atomic stores may touch it). Read operations
// that obey mode 1/2 cannot race with each other: this turns "no data race for any
// interleaving of readers" into an assertion over a single symbolic execution of each reader.

func isWriteAccess(what string) bool {
	return strings.Contains(what, "store") || strings.Contains(what, "write") || strings.Contains(what, "memclr")
}

func (x *Exec) holdsWriteLock() bool {
	for _, n := range x.wlocks {
		if n > 0 {
			return true
		}
	}
	return false
}

func (x *Exec) frozenWrite(obj, what string) {
	if strings.Contains(what, "atomic") {
		return
	}
	if x.frozen == 1 && x.holdsWriteLock() {
		return
	}
	msg := "plain " + what + " to shared (pre-existing) " + obj + " outside any write lock during an operation that must be read-only"
	if x.frozen == 2 {
		msg = "plain " + what + " to published (pre-existing) " + obj + ": published data must stay immutable"
	}
	x.check(x.st.False, "assert", msg)
}

func (x *Exec) frozenMapWrite(m *MapObj) {
	if x.frozen == 0 || m.ID > x.frozenMark {
		return
	}
	if x.frozen == 1 && x.holdsWriteLock() {
		return
	}
	x.check(x.st.False, "assert", "write to a shared (pre-existing) map during an operation that must be read-only")
}

// Check-then-act rule (mode 1): a field of a shared object that is written inside a critical
// section must have been read inside the same critical section first. A conversion that is
// guarded by a test made BEFORE the lock was taken (double-checked locking without the second
// check) passes the store rule above but lets two threads both decide to convert; this rule
// flags its first store to the guard field. Fields whose offset is symbolic are not tracked.
func (x *Exec) csAccess(o *Object, off, size int, write bool, what string) {
	if x.frozen != 1 || !x.holdsWriteLock() || o.ID > x.frozenMark || !x.csRule {
		return
	}
	if x.csReads == nil {
		x.csReads = map[*Object]map[int]bool{}
	}
	m := x.csReads[o]
	if m == nil {
		m = map[int]bool{}
		x.csReads[o] = m
	}
	if write {
		seen := false
		for i := off; i < off+size; i++ {
			if m[i] {
				seen = true
			}
		}
		if !seen {
			x.check(x.st.False, "assert", "store to a field of shared "+o.String()+" inside the write lock although the field was not read since the lock was taken: the decision to modify was made outside the critical section (check-then-act)")
		}
	}
	for i := off; i < off+size; i++ {
		m[i] = true
	}
}
