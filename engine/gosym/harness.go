package gosym

import (
	"fmt"
	"os"
	"runtime/debug"
	"sort"
	"strings"
	"sync"
	"time"

	"golang.org/x/tools/go/ssa"

	"verif/engine/smt"
)

type HarnessRun struct {
	Name         string
	Fn           *ssa.Function
	Eng          *Engine
	Known        []KnownFinding
	MaxPerSite   int
	GrowSlack    int
	OpaqueStrMax int
	SkipInit     map[string]bool
	RunInitFuncs map[string]bool
	Body           func(x *Exec)
	HashCollisions bool
	PoolNondet     bool
	NoMerge      bool
	Lim          Limits
	Workers      int
	MaxPaths     int
	SolverBin    string
	TimeoutMs    int
	Verbose      bool
	SolverLog    string

	recordEvents bool
	mu           sync.Mutex
	sites        map[string]int
	Res          HarnessResult
}

type PathSample struct {
	Decisions int               `json:"decisions"`
	Steps     int               `json:"steps"`
	Outcome   string            `json:"outcome"`
	Model     map[string]uint64 `json:"model,omitempty"`
}

type HarnessResult struct {
	Harness     string          `json:"harness"`
	Paths       int             `json:"paths"`
	PathsDone   int             `json:"paths_completed"`
	Infeasible  int             `json:"paths_infeasible"`
	Ended       int             `json:"paths_ended_by_panic_or_violation"`
	NotEncoded  int             `json:"paths_not_encoded"`
	Budget      int             `json:"paths_budget_exceeded"`
	Steps       int64           `json:"ssa_instructions"`
	Violations  []Violation     `json:"violations,omitempty"`
	Covers      map[string]bool `json:"covers"`
	Notes       map[string]int  `json:"notes,omitempty"`
	Problems    map[string]int  `json:"problems,omitempty"`
	Stats       smt.Stats       `json:"-"`
	Unknowns    int             `json:"solver_unknowns"`
	WallS       float64         `json:"wall_s"`
	Funcs       map[string]bool `json:"-"`
	Samples     []PathSample    `json:"samples,omitempty"`
	Truncated   bool            `json:"truncated"`
	Events      [][]Event       `json:"-"`
	MaxDecision int             `json:"max_decisions_on_a_path"`
}

func (h *HarnessRun) epoch(x *Exec) int { return x.curEpoch }

func (h *HarnessRun) siteSeen(s string) int {
	h.mu.Lock()
	defer h.mu.Unlock()
	return h.sites[s]
}

func (h *HarnessRun) siteHit(s string) {
	h.mu.Lock()
	defer h.mu.Unlock()
	h.sites[s]++
}

func (h *HarnessRun) matchKnown(v *Violation) *KnownFinding {
	for i := range h.Known {
		k := &h.Known[i]
		if k.Status != "open" {
			continue
		}
		if k.Harness != "" && k.Harness != h.Name {
			continue
		}
		if k.Site != "" && !strings.Contains(v.Msg, k.Site) {
			continue
		}
		ok := true
		for _, w := range k.When {
			if len(w) != 3 {
				ok = false
				break
			}
			mv, has := v.Model[w[0]]
			if !has {
				ok = false
				break
			}
			var val uint64
			fmt.Sscan(w[2], &val)
			switch w[1] {
			case "==":
				ok = mv == val
			case "!=":
				ok = mv != val
			case "<":
				ok = mv < val
			case ">":
				ok = mv > val
			case "<=":
				ok = mv <= val
			case ">=":
				ok = mv >= val
			default:
				ok = false
			}
			if !ok {
				break
			}
		}
		if ok {
			return k
		}
	}
	return nil
}

func (h *HarnessRun) defaults() {
	if h.MaxPerSite == 0 {
		h.MaxPerSite = 1
	}
	if h.OpaqueStrMax == 0 {
		h.OpaqueStrMax = 4
	}
	if h.Lim.MaxSteps == 0 {
		h.Lim.MaxSteps = 400000
	}
	if h.Lim.MaxDepth == 0 {
		h.Lim.MaxDepth = 200
	}
	if h.Lim.MaxDecisions == 0 {
		h.Lim.MaxDecisions = 4000
	}
	if h.Workers == 0 {
		h.Workers = 8
	}
	if h.MaxPaths == 0 {
		h.MaxPaths = 200000
	}
	if h.SolverBin == "" {
		h.SolverBin = "z3"
	}
	if h.TimeoutMs == 0 {
		h.TimeoutMs = 20000
	}
	h.sites = map[string]int{}
}

// Run explores all paths of the harness function.
func (h *HarnessRun) Run() *HarnessResult {
	h.defaults()
	t0 := time.Now()
	res := &h.Res
	res.Harness = h.Name
	res.Covers = map[string]bool{}
	res.Notes = map[string]int{}
	res.Problems = map[string]int{}
	res.Funcs = map[string]bool{}

	type work struct{ trace []Decision }
	var mu sync.Mutex
	cond := sync.NewCond(&mu)
	queue := []work{{nil}}
	active := 0
	started := 0
	done := false

	var wg sync.WaitGroup
	if h.Verbose {
		stop := make(chan struct{})
		defer close(stop)
		go func() {
			tk := time.NewTicker(15 * time.Second)
			defer tk.Stop()
			for {
				select {
				case <-stop:
					return
				case <-tk.C:
					mu.Lock()
					fmt.Fprintf(os.Stderr, "  [%s %.0fs] paths=%d queue=%d active=%d done=%d infeasible=%d ended=%d notenc=%d budget=%d viol=%d maxdec=%d\n",
						h.Name, time.Since(t0).Seconds(), res.Paths, len(queue), active, res.PathsDone, res.Infeasible, res.Ended, res.NotEncoded, res.Budget, len(res.Violations), res.MaxDecision)
					for m, n := range res.Problems {
						fmt.Fprintf(os.Stderr, "     problem: %s (x%d)\n", m, n)
					}
					mu.Unlock()
				}
			}
		}()
	}
	for w := 0; w < h.Workers; w++ {
		wg.Add(1)
		go func(wid int) {
			defer wg.Done()
			sol, err := smt.NewSolver(h.SolverBin, h.TimeoutMs)
			if err != nil {
				mu.Lock()
				res.Problems["solver start: "+err.Error()]++
				mu.Unlock()
				return
			}
			if h.SolverLog != "" {
				f, _ := os.Create(fmt.Sprintf("%s.%d", h.SolverLog, wid))
				sol.Log = f
				defer f.Close()
			}
			defer sol.Close()
			for {
				mu.Lock()
				for len(queue) == 0 && active > 0 && !done {
					cond.Wait()
				}
				if done || (len(queue) == 0 && active == 0) {
					done = true
					cond.Broadcast()
					mu.Unlock()
					break
				}
				// DFS order: take from the end
				wk := queue[len(queue)-1]
				queue = queue[:len(queue)-1]
				if started >= h.MaxPaths {
					res.Truncated = true
					queue = nil
					if active == 0 {
						done = true
						cond.Broadcast()
					}
					mu.Unlock()
					continue
				}
				started++
				active++
				mu.Unlock()

				pr := h.runPath(sol, wk.trace)

				mu.Lock()
				active--
				res.Paths++
				res.Steps += int64(pr.steps)
				if pr.ndec > res.MaxDecision {
					res.MaxDecision = pr.ndec
				}
				switch pr.outcome {
				case "done":
					res.PathsDone++
				case "infeasible":
					res.Infeasible++
				case "ended":
					res.Ended++
				case "not-encoded":
					res.NotEncoded++
					res.Problems["not-encoded: "+pr.msg]++
				case "budget":
					res.Budget++
					res.Problems["unwind-exceeded: "+pr.msg]++
				case "internal":
					res.NotEncoded++
					res.Problems["internal-error: "+pr.msg]++
				}
				res.Unknowns += pr.unknowns
				for k := range pr.covers {
					res.Covers[k] = true
				}
				for k, n := range pr.notes {
					res.Notes[k] += n
				}
				for k := range pr.funcs {
					res.Funcs[k] = true
				}
				for _, v := range pr.violations {
					// keep up to MaxPerSite witnesses per site (different paths give different models:
					// the driver replays them in turn until one reproduces on the real build)
					same := 0
					for _, o := range res.Violations {
						if o.Msg == v.Msg && o.Pos == v.Pos && o.Known == v.Known {
							same++
						}
					}
					dup := same >= h.MaxPerSite
					if !dup {
						res.Violations = append(res.Violations, v)
					}
				}
				if len(res.Samples) < 6 && (pr.outcome == "done") {
					res.Samples = append(res.Samples, PathSample{Decisions: pr.ndec, Steps: pr.steps, Outcome: pr.outcome, Model: pr.sample})
				}
				if pr.events != nil {
					res.Events = append(res.Events, pr.events)
				}
				for _, p := range pr.pending {
					queue = append(queue, work{p})
				}
				cond.Broadcast()
				mu.Unlock()
			}
			mu.Lock()
			res.Stats.Add(sol.Stats)
			mu.Unlock()
		}(w)
	}
	wg.Wait()
	res.WallS = time.Since(t0).Seconds()
	sort.Slice(res.Violations, func(i, j int) bool { return res.Violations[i].Msg < res.Violations[j].Msg })
	return res
}

type pathResult struct {
	outcome    string
	msg        string
	steps      int
	ndec       int
	pending    [][]Decision
	violations []Violation
	covers     map[string]bool
	notes      map[string]int
	funcs      map[string]bool
	unknowns   int
	sample     map[string]uint64
	events     []Event
}

func (h *HarnessRun) runPath(sol *smt.Solver, trace []Decision) (pr pathResult) {
	x := &Exec{
		eng: h.Eng, h: h, st: smt.NewStore(), sol: sol,
		trace: trace, names: map[string]int{}, globals: map[*ssa.Global]*Object{},
		inited: map[*ssa.Package]bool{}, initing: map[*ssa.Package]bool{},
		lim: h.Lim, strObjs: map[string]*Object{}, stubs: map[string]Value{},
		covers: map[string]bool{}, funcs: map[string]bool{},
	}
	sol.ClearErr()
	sol.Push()
	defer func() {
		for sol.Depth() > 0 {
			sol.Pop()
		}
		pr.steps = x.steps
		pr.ndec = len(x.decisions)
		pr.pending = x.pending
		pr.violations = x.violations
		pr.covers = x.covers
		pr.notes = x.notes
		pr.funcs = x.funcs
		pr.unknowns = x.unknowns
		if h.recordEvents {
			pr.events = x.events
		}
	}()
	defer func() {
		if r := recover(); r != nil {
			if pa, ok := r.(pathAbort); ok {
				pr.msg = pa.msg
				switch pa.kind {
				case abInfeasible:
					pr.outcome = "infeasible"
				case abEnd:
					pr.outcome = "ended"
				case abNotEncoded:
					pr.outcome = "not-encoded"
				case abBudget:
					pr.outcome = "budget"
				}
				return
			}
			pr.outcome = "internal"
			pr.msg = fmt.Sprintf("%v @%s", r, x.posStr())
			if h.Verbose {
				fmt.Fprintf(os.Stderr, "internal error: %v\n%s\n", r, debug.Stack())
			}
		}
	}()
	if h.Body != nil {
		h.Body(x) // Tier 3: the harness is engine code driving the asm executor
	} else {
		x.call(h.Fn, nil, nil)
	}
	pr.outcome = "done"
	if len(x.pending) == 0 || true {
		// sample model of completed path (cheap: one query) only for the first few
		h.mu.Lock()
		need := len(h.Res.Samples) < 6
		h.mu.Unlock()
		if need && len(x.inputs) > 0 && len(x.inputs) <= 64 {
			if m, r := x.satModel(x.st.True); r == smt.Sat {
				pr.sample = m
			}
		}
	}
	return
}
