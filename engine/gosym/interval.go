package gosym

import (
	"verif/engine/smt"
)

// Cheap unsigned interval analysis over terms (no wrap-around inside an interval);
// used to bound candidate enumeration for symbolic offsets/lengths. Sound over-approximation:
// every value the term can take under the recorded variable ranges lies in [lo,hi].

type ival struct{ lo, hi uint64 }

func wmask(w int) uint64 {
	if w >= 64 {
		return ^uint64(0)
	}
	return (uint64(1) << uint(w)) - 1
}

func (x *Exec) interval(t *smt.Term) ival {
	if t.W == 0 || t.W > 64 {
		return ival{0, 1}
	}
	if x.ivCache == nil {
		x.ivCache = map[int]ival{}
	}
	if v, ok := x.ivCache[t.ID]; ok {
		return v
	}
	full := ival{0, wmask(t.W)}
	r := full
	switch t.Op {
	case smt.OpConst:
		r = ival{t.Val, t.Val}
	case smt.OpVar:
		if v, ok := x.varRange[t.Name]; ok {
			r = v
		}
	case smt.OpAdd:
		a, b := x.interval(t.Args[0]), x.interval(t.Args[1])
		hi := a.hi + b.hi
		if hi >= a.hi && hi <= full.hi {
			r = ival{a.lo + b.lo, hi}
		} else if t.Args[1].IsConst() && t.W == 64 && int64(t.Args[1].Val) < 0 {
			// x + (-c)  ==  x - c
			c := uint64(-int64(t.Args[1].Val))
			if a.lo >= c {
				r = ival{a.lo - c, a.hi - c}
			}
		}
	case smt.OpSub:
		a, b := x.interval(t.Args[0]), x.interval(t.Args[1])
		if a.lo >= b.hi {
			r = ival{a.lo - b.hi, a.hi - b.lo}
		}
	case smt.OpMul:
		a, b := x.interval(t.Args[0]), x.interval(t.Args[1])
		if b.hi == 0 || a.hi <= full.hi/b.hi {
			r = ival{a.lo * b.lo, a.hi * b.hi}
		}
	case smt.OpShl:
		a, b := x.interval(t.Args[0]), x.interval(t.Args[1])
		if b.lo == b.hi && b.hi < 63 && a.hi <= full.hi>>b.hi {
			r = ival{a.lo << b.lo, a.hi << b.hi}
		}
	case smt.OpLShr:
		a, b := x.interval(t.Args[0]), x.interval(t.Args[1])
		if b.lo == b.hi && b.hi < 64 {
			r = ival{a.lo >> b.lo, a.hi >> b.hi}
		} else {
			r = ival{0, a.hi}
		}
	case smt.OpAnd:
		a, b := x.interval(t.Args[0]), x.interval(t.Args[1])
		r = ival{0, min(a.hi, b.hi)}
	case smt.OpURem:
		b := x.interval(t.Args[1])
		if b.lo > 0 {
			r = ival{0, b.hi - 1}
		}
	case smt.OpUDiv:
		a, b := x.interval(t.Args[0]), x.interval(t.Args[1])
		if b.lo > 0 {
			r = ival{a.lo / b.hi, a.hi / b.lo}
		}
	case smt.OpZExt:
		r = x.interval(t.Args[0])
	case smt.OpSExt:
		a := x.interval(t.Args[0])
		if a.hi < uint64(1)<<uint(t.Args[0].W-1) {
			r = a
		}
	case smt.OpExtract:
		if t.Lo == 0 {
			a := x.interval(t.Args[0])
			if a.hi <= full.hi {
				r = a
			}
		}
	case smt.OpIte:
		a, b := x.interval(t.Args[1]), x.interval(t.Args[2])
		r = ival{min(a.lo, b.lo), max(a.hi, b.hi)}
	}
	x.ivCache[t.ID] = r
	return r
}

// learn refines variable ranges from an assumed condition (only simple shapes).
func (x *Exec) learn(c *smt.Term) {
	switch c.Op {
	case smt.OpBAnd:
		x.learn(c.Args[0])
		x.learn(c.Args[1])
		return
	case smt.OpBNot:
		n := c.Args[0]
		switch n.Op {
		case smt.OpUlt: // !(a<b) => b<=a
			x.learnLe(n.Args[1], n.Args[0], false)
		case smt.OpUle: // !(a<=b) => b<a
			x.learnLe(n.Args[1], n.Args[0], true)
		case smt.OpSlt:
			x.learnSLe(n.Args[1], n.Args[0], false)
		case smt.OpSle:
			x.learnSLe(n.Args[1], n.Args[0], true)
		}
		return
	case smt.OpUlt:
		x.learnLe(c.Args[0], c.Args[1], true)
	case smt.OpUle:
		x.learnLe(c.Args[0], c.Args[1], false)
	case smt.OpSlt:
		x.learnSLe(c.Args[0], c.Args[1], true)
	case smt.OpSle:
		x.learnSLe(c.Args[0], c.Args[1], false)
	case smt.OpEq:
		if c.Args[0].Op == smt.OpVar && c.Args[0].W > 0 && c.Args[0].W <= 64 {
			b := x.interval(c.Args[1])
			x.setRange(c.Args[0], b.lo, b.hi)
		}
	}
}

func (x *Exec) setRange(v *smt.Term, lo, hi uint64) {
	if x.varRange == nil {
		x.varRange = map[string]ival{}
	}
	cur, ok := x.varRange[v.Name]
	if !ok {
		cur = ival{0, wmask(v.W)}
	}
	if lo > cur.lo {
		cur.lo = lo
	}
	if hi < cur.hi {
		cur.hi = hi
	}
	if cur.lo > cur.hi {
		return // contradictory: leave to the solver
	}
	x.varRange[v.Name] = cur
	x.ivCache = nil
}

// a <= b (or a < b when strict), unsigned
func (x *Exec) learnLe(a, b *smt.Term, strict bool) {
	if a.W == 0 || a.W > 64 {
		return
	}
	if a.Op == smt.OpVar {
		bi := x.interval(b)
		hi := bi.hi
		if strict {
			if hi == 0 {
				return
			}
			hi--
		}
		x.setRange(a, 0, hi)
	}
	if b.Op == smt.OpVar {
		ai := x.interval(a)
		lo := ai.lo
		if strict {
			if lo == wmask(b.W) {
				return
			}
			lo++
		}
		x.setRange(b, lo, wmask(b.W))
	}
}

// signed a <= b: only when both sides are known non-negative
func (x *Exec) learnSLe(a, b *smt.Term, strict bool) {
	if a.W == 0 || a.W > 64 {
		return
	}
	half := uint64(1) << uint(a.W-1)
	ai, bi := x.interval(a), x.interval(b)
	if ai.hi < half && bi.hi < half {
		x.learnLe(a, b, strict)
	}
}

// ivDecide tries to decide a condition from interval facts alone (no solver query).
// Returns 1 (true), 0 (false) or -1 (unknown).
func (x *Exec) ivDecide(c *smt.Term) int {
	switch c.Op {
	case smt.OpConst:
		return int(c.Val)
	case smt.OpBNot:
		r := x.ivDecide(c.Args[0])
		if r < 0 {
			return r
		}
		return 1 - r
	case smt.OpBAnd:
		a, b := x.ivDecide(c.Args[0]), x.ivDecide(c.Args[1])
		if a == 0 || b == 0 {
			return 0
		}
		if a == 1 && b == 1 {
			return 1
		}
		return -1
	case smt.OpBOr:
		a, b := x.ivDecide(c.Args[0]), x.ivDecide(c.Args[1])
		if a == 1 || b == 1 {
			return 1
		}
		if a == 0 && b == 0 {
			return 0
		}
		return -1
	case smt.OpUlt, smt.OpUle, smt.OpSlt, smt.OpSle, smt.OpEq:
		if c.Args[0].W == 0 || c.Args[0].W > 64 {
			return -1
		}
		a, b := x.interval(c.Args[0]), x.interval(c.Args[1])
		if c.Op == smt.OpSlt || c.Op == smt.OpSle {
			half := uint64(1) << uint(c.Args[0].W-1)
			if a.hi >= half || b.hi >= half {
				return -1
			}
		}
		switch c.Op {
		case smt.OpUlt, smt.OpSlt:
			if a.hi < b.lo {
				return 1
			}
			if a.lo >= b.hi {
				return 0
			}
		case smt.OpUle, smt.OpSle:
			if a.hi <= b.lo {
				return 1
			}
			if a.lo > b.hi {
				return 0
			}
		case smt.OpEq:
			if a.hi < b.lo || b.hi < a.lo {
				return 0
			}
			if a.lo == a.hi && b.lo == b.hi && a.lo == b.lo {
				return 1
			}
		}
	}
	return -1
}
