package gosym

import (
	"golang.org/x/tools/go/ssa"

	"verif/engine/smt"
)

type hashApp struct {
	args []*smt.Term
	out  *smt.Term
}

func init() {
	// rt.Strhash(p unsafe.Pointer /* *string */, seed uintptr) uintptr : runtime.strhash.
	// Uninterpreted function of (seed, length, first 4 bytes); longer symbolic strings are not
	// encoded. Unless the harness asks for collisions (HarnessRun.HashCollisions) the function
	// is additionally assumed injective on the strings it is applied to during the path
	// (64-bit collisions are outside the bound; stated in the evidence).
	intrinsics[rtPkg+".Strhash"] = func(x *Exec, fn *ssa.Function, a []Value) Value {
		p := x.asPtr(a[0])
		sv := x.loadT(p, 0, x.eng.stringType()).(Str)
		seed := x.asTerm(a[1])
		iv := x.interval(sv.Len)
		if iv.hi > 4 {
			x.notEncoded("strhash of a string that may be longer than 4 bytes")
		}
		args := []*smt.Term{seed, sv.Len}
		for i := 0; i < 4; i++ {
			in := x.st.Ult(x.c64(int64(i)), sv.Len)
			var b *smt.Term = x.st.Const(8, 0)
			if !in.IsFalse() && i < x.maxLen(sv.P, sv.Len, 1) {
				b = x.st.Ite(in, x.byteIdx(sv.P, i), x.st.Const(8, 0))
			}
			args = append(args, b)
		}
		out := x.st.UF("uf!strhash", 64, args...)
		allConst := true
		for _, t := range args {
			if !t.IsConst() {
				allConst = false
			}
		}
		if allConst && !x.h.HashCollisions {
			// concrete string: fix the uninterpreted function at this point to a concrete,
			// collision-free value (FNV-1a of the arguments); only equality of hashes is observable
			h := uint64(14695981039346656037)
			for _, t := range args {
				for k := 0; k < 8; k++ {
					h ^= (t.Val >> (8 * uint(k))) & 0xff
					h *= 1099511628211
				}
			}
			out = x.st.Const(64, h|1)
		}
		if !x.h.HashCollisions {
			x.note("assumed:strhash-injective")
			for _, prev := range x.hashApps {
				if prev.out == out {
					continue
				}
				same := x.st.True
				for i := range args {
					same = x.st.BAnd(same, x.st.Eq(args[i], prev.args[i]))
				}
				x.assume(x.st.BOr(same, x.st.Ne(out, prev.out)))
			}
			x.hashApps = append(x.hashApps, hashApp{args, out})
		}
		return out
	}
}
