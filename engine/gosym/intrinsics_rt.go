package gosym

import (
	"go/types"

	"golang.org/x/tools/go/ssa"

	"verif/engine/smt"
)

const rtPkg = "github.com/bytedance/sonic/internal/rt"

func init() {
	intrinsics[rtPkg+".Memmove"] = func(x *Exec, fn *ssa.Function, a []Value) Value {
		x.memmove(x.asPtr(a[0]), x.asPtr(a[1]), x.asTerm(a[2]))
		return nil
	}
	intrinsics["runtime.memmove"] = intrinsics[rtPkg+".Memmove"]
	memclr := func(x *Exec, fn *ssa.Function, a []Value) Value {
		p := x.asPtr(a[0])
		n := x.asTerm(a[1])
		if n.IsConst() && n.Val == 0 {
			return nil
		}
		if p.Obj == nil {
			x.checkAccess(p, 1, "memclr")
		}
		if !n.IsConst() || !p.Off.IsConst() {
			nn := int(x.Concretize(n))
			off := int(x.Concretize(p.Off))
			n, p = x.c64(int64(nn)), Ptr{Obj: p.Obj, Off: x.c64(int64(off))}
		}
		nn, off := int(n.Val), int(p.Off.Val)
		x.checkAccess(p, nn, "memclr")
		// drop every cell inside the range; split partial overlaps
		o := p.Obj
		if o.Junk != nil {
			for i := 0; i < nn; i++ {
				x.storeLeaf(o, off+i, 1, x.st.Const(8, 0))
			}
			return nil
		}
		for s := range o.Cells {
			c := o.Cells[s]
			if s+c.size <= off || s >= off+nn {
				continue
			}
			if s >= off && s+c.size <= off+nn {
				if x.spec != nil {
					x.specNote(o, s, c.size)
				}
				delete(o.Cells, s)
				continue
			}
			x.splitCell(o, s)
		}
		for i := off; i < off+nn; i++ {
			if _, ok := o.Cells[i]; ok {
				if x.spec != nil {
					x.specNote(o, i, 1)
				}
				delete(o.Cells, i)
			}
		}
		return nil
	}
	intrinsics[rtPkg+".MemclrNoHeapPointers"] = memclr
	intrinsics[rtPkg+".MemclrHasPointers"] = memclr
	intrinsics[rtPkg+".MemEqual"] = func(x *Exec, fn *ssa.Function, a []Value) Value {
		n := x.asTerm(a[2])
		return x.strEq(Str{x.asPtr(a[0]), n}, Str{x.asPtr(a[1]), n})
	}
	intrinsics[rtPkg+".MoreStack"] = func(x *Exec, fn *ssa.Function, a []Value) Value { return nil }
	intrinsics[rtPkg+".StopProf"] = func(x *Exec, fn *ssa.Function, a []Value) Value { return nil }
	intrinsics[rtPkg+".StartProf"] = func(x *Exec, fn *ssa.Function, a []Value) Value { return nil }
	// dirtmake.Bytes(len, cap): uninitialised memory => junk bytes
	intrinsics["github.com/bytedance/sonic/internal/rt.Mallocgc"] = func(x *Exec, fn *ssa.Function, a []Value) Value {
		n := int(x.Concretize(x.asTerm(a[0])))
		o := x.newObject(n, nil, "mallocgc")
		if z, ok := a[2].(*smt.Term); ok && !z.IsTrue() {
			o.Junk = func(off int) *smt.Term { return x.junk(8) }
		}
		return Ptr{Obj: o, Off: x.c64(0)}
	}
	intrinsics["github.com/bytedance/gopkg/lang/dirtmake.Bytes"] = func(x *Exec, fn *ssa.Function, a []Value) Value {
		l, c := x.asTerm(a[0]), x.asTerm(a[1])
		x.panicIf(x.st.BOr(x.st.Slt(l, x.c64(0)), x.st.Slt(c, l)), "dirtmake.Bytes: len/cap out of range")
		cv := int(x.Concretize(c))
		if cv > 1<<20 {
			x.notEncoded("dirtmake.Bytes with capacity %d", cv)
		}
		if cv == 0 {
			o := x.newObject(0, nil, "dirtmake")
			return Slice{P: Ptr{Obj: o, Off: x.c64(0)}, Len: l, Cap: x.c64(0)}
		}
		o := x.newObject(cv, types.NewArray(types.Typ[types.Uint8], int64(cv)), "dirtmake")
		o.Junk = func(off int) *smt.Term { return x.junk(8) }
		return Slice{P: Ptr{Obj: o, Off: x.c64(0)}, Len: l, Cap: x.c64(int64(cv))}
	}
	intrinsics["runtime.SetFinalizer"] = func(x *Exec, fn *ssa.Function, a []Value) Value { return nil }
	intrinsics["os.Getenv"] = func(x *Exec, fn *ssa.Function, a []Value) Value { return x.constString("") }
	intrinsics["reflect.TypeOf"] = func(x *Exec, fn *ssa.Function, a []Value) Value {
		// opaque reflect.Type value: dynamic type *reflect.rtype holding a pointer to the type object
		iv, _ := a[0].(Iface)
		rp := x.eng.Package("reflect")
		if rp == nil || rp.Type("rtype") == nil {
			x.notEncoded("reflect not loaded")
		}
		if iv.T == nil {
			return Iface{}
		}
		return Iface{T: types.NewPointer(rp.Type("rtype").Type()), V: Ptr{Obj: x.typeObject(iv.T), Off: x.c64(0)}}
	}
}
