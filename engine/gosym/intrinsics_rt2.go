package gosym

import (
	"go/types"

	"golang.org/x/tools/go/ssa"

	"verif/engine/smt"
)

func init() {
	// rt.growslice(oldPtr, newLen, oldCap, num, et) GoSlice   (linkname runtime.growslice)
	// Model (element size 1 only, i.e. typeByte): fresh object of capacity newLen+slack, the
	// first newLen-num bytes copied, everything else junk.
	intrinsics[rtPkg+".growslice"] = func(x *Exec, fn *ssa.Function, a []Value) Value {
		oldp := x.asPtr(a[0])
		newLen := x.asTerm(a[1])
		num := x.asTerm(a[3])
		x.panicIf(x.st.Slt(newLen, x.c64(0)), "growslice: len out of range")
		nl := int(x.Concretize(newLen))
		if nl > 1<<20 {
			x.notEncoded("growslice to %d", nl)
		}
		slack := x.h.GrowSlack
		o := x.newObject(nl+slack, types.NewArray(types.Typ[types.Uint8], int64(nl+slack)), "growslice")
		o.Junk = func(off int) *smt.Term { return x.junk(8) }
		np := Ptr{Obj: o, Off: x.c64(0)}
		oldLen := x.st.Sub(newLen, num)
		if oldp.Obj != nil {
			x.memmove(np, oldp, oldLen)
		}
		// GoSlice{Ptr, Len, Cap}
		return Struct{np, x.c64(int64(nl)), x.c64(int64(nl + slack))}
	}
}
