package gosym

import (
	"golang.org/x/tools/go/ssa"
)

func init() {
	// rt.newarray(typ *GoType, n int) unsafe.Pointer (linkname reflect.unsafe_NewArray):
	// zeroed storage for n elements; the element size is read from the descriptor, a
	// placeholder descriptor (size 0) gets 16 bytes per element (an interface{} slot).
	intrinsics[rtPkg+".newarray"] = func(x *Exec, fn *ssa.Function, a []Value) Value {
		n := int(int64(x.Concretize(x.asTerm(a[1]))))
		if n < 0 || n > 1<<16 {
			x.notEncoded("newarray of %d elements", n)
		}
		size := 16
		if tp, ok := a[0].(Ptr); ok && tp.Obj != nil {
			if t := x.asTerm(x.loadLeafP(tp, 0, 8, lkInt)); t.IsConst() && t.Val > 0 && t.Val <= 4096 {
				size = int(t.Val)
			}
		}
		o := x.newObject(n*size, nil, "newarray")
		return Ptr{Obj: o, Off: x.c64(0)}
	}
}
