package gosym

import (
	"golang.org/x/tools/go/ssa"

	"verif/engine/smt"
)

func init() {
	// strings.ToLower / ToUpper on ASCII strings (a non-ASCII byte makes the path not-encoded).
	mk := func(lower bool) intrinsicFn {
		return func(x *Exec, fn *ssa.Function, a []Value) Value {
			s := a[0].(Str)
			n := x.maxLen(s.P, s.Len, 1)
			if n == 0 {
				return s
			}
			st := x.st
			nonASCII := st.False
			o := x.newBytes(n, "strings.ToLower")
			if !s.Len.IsConst() {
				o.LSize = s.Len
			}
			for i := 0; i < n; i++ {
				b := x.byteIdx(s.P, i)
				in := st.Ult(x.c64(int64(i)), s.Len)
				nonASCII = st.BOr(nonASCII, st.BAnd(in, st.Uge(b, st.Const(8, 0x80))))
				var isCase *smt.Term
				var delta uint64
				if lower {
					isCase = st.BAnd(st.Uge(b, st.Const(8, 'A')), st.Ule(b, st.Const(8, 'Z')))
					delta = 32
				} else {
					isCase = st.BAnd(st.Uge(b, st.Const(8, 'a')), st.Ule(b, st.Const(8, 'z')))
					delta = 256 - 32
				}
				x.storeLeaf(o, i, 1, st.Ite(isCase, st.Add(b, st.Const(8, delta)), b))
			}
			if x.Branch(nonASCII) {
				x.notEncoded("strings.ToLower/ToUpper on a non-ASCII byte")
			}
			o.ReadOnly = true
			return Str{P: Ptr{Obj: o, Off: x.c64(0)}, Len: s.Len}
		}
	}
	intrinsics["strings.ToLower"] = mk(true)
	intrinsics["strings.ToUpper"] = mk(false)
}
