// Package gosym: symbolic executor for go/ssa (Engine A).
package gosym

import (
	"sync"
	"fmt"
	"go/token"
	"go/types"
	"os"
	"path/filepath"
	"sort"
	"strings"

	"golang.org/x/tools/go/packages"
	"golang.org/x/tools/go/ssa"
	"golang.org/x/tools/go/ssa/ssautil"
)

// Engine holds the loaded program; read-only after Load.
type Engine struct {
	Prog  *ssa.Program
	Pkgs  []*packages.Package
	Fset  *token.FileSet
	Sizes types.Sizes
	byPkg map[string]*ssa.Package
	// FuncByName resolves "pkgpath.Func" and "(pkgpath.T).M" / "(*pkgpath.T).M".
	funcIdx map[string]*ssa.Function
	mu       sync.Mutex
	offCache map[*types.Struct][]int
	pdomCache   map[*ssa.Function]map[*ssa.BasicBlock]*ssa.BasicBlock
	regionCache map[*ssa.BasicBlock][]regionPath
}

type LoadConfig struct {
	RepoDir    string            // /repo
	WorkDir    string            // scratch for go.work copy
	Patterns   []string          // package patterns relative to repo module
	Overlay    map[string][]byte // absolute path -> contents
	GOARCH     string            // "" = host
	Tags       []string
	ModuleDir  string // directory to load from ("" = RepoDir)
	ExtraEnv   []string
	NoWorkFile bool
}

// PrepareGoWork writes a scratch go.work with absolute use lines so that go
// commands never rewrite /repo/go.work.sum.
func PrepareGoWork(repo, work string) (string, error) {
	if err := os.MkdirAll(work, 0o755); err != nil {
		return "", err
	}
	p := filepath.Join(work, "go.work")
	txt := "go 1.18\n\nuse (\n\t" + repo + "\n\t" + filepath.Join(repo, "loader") + "\n)\n"
	if old, err := os.ReadFile(p); err == nil && string(old) == txt {
		return p, nil
	}
	if err := os.WriteFile(p, []byte(txt), 0o644); err != nil {
		return "", err
	}
	// seed go.work.sum from the repository's so nothing needs the network
	if b, err := os.ReadFile(filepath.Join(repo, "go.work.sum")); err == nil {
		os.WriteFile(filepath.Join(work, "go.work.sum"), b, 0o644)
	}
	return p, nil
}

func Load(cfg LoadConfig) (*Engine, error) {
	gowork, err := PrepareGoWork(cfg.RepoDir, cfg.WorkDir)
	if err != nil {
		return nil, err
	}
	env := append(os.Environ(), "GOFLAGS=", "GOPROXY=off", "GOSUMDB=off", "GOTOOLCHAIN=local", "GOWORK="+gowork)
	if cfg.GOARCH != "" {
		env = append(env, "GOARCH="+cfg.GOARCH)
	}
	env = append(env, cfg.ExtraEnv...)
	dir := cfg.ModuleDir
	if dir == "" {
		dir = cfg.RepoDir
	}
	pc := &packages.Config{
		Mode:    packages.LoadAllSyntax,
		Dir:     dir,
		Env:     env,
		Overlay: cfg.Overlay,
		Fset:    token.NewFileSet(),
	}
	if len(cfg.Tags) > 0 {
		pc.BuildFlags = []string{"-tags=" + strings.Join(cfg.Tags, ",")}
	}
	pkgs, err := packages.Load(pc, cfg.Patterns...)
	if err != nil {
		return nil, err
	}
	var errs []string
	packages.Visit(pkgs, nil, func(p *packages.Package) {
		for _, e := range p.Errors {
			errs = append(errs, e.Error())
		}
	})
	if len(errs) > 0 {
		if len(errs) > 20 {
			errs = errs[:20]
		}
		return nil, fmt.Errorf("package load errors:\n  %s", strings.Join(errs, "\n  "))
	}
	prog, _ := ssautil.AllPackages(pkgs, ssa.InstantiateGenerics)
	prog.Build()
	e := &Engine{Prog: prog, Pkgs: pkgs, Fset: pc.Fset, byPkg: map[string]*ssa.Package{}, funcIdx: map[string]*ssa.Function{}, offCache: map[*types.Struct][]int{},
		pdomCache: map[*ssa.Function]map[*ssa.BasicBlock]*ssa.BasicBlock{}, regionCache: map[*ssa.BasicBlock][]regionPath{}}
	e.Sizes = types.SizesFor("gc", "amd64")
	if cfg.GOARCH != "" {
		if s := types.SizesFor("gc", cfg.GOARCH); s != nil {
			e.Sizes = s
		}
	}
	for _, p := range prog.AllPackages() {
		e.byPkg[p.Pkg.Path()] = p
	}
	return e, nil
}

func (e *Engine) Package(path string) *ssa.Package { return e.byPkg[path] }

func (e *Engine) stringType() types.Type { return types.Typ[types.String] }

// Func resolves names of the form "pkg/path.Func", "pkg/path.Type.Method" (value or
// pointer receiver; both are tried).
func (e *Engine) Func(name string) *ssa.Function {
	if f, ok := e.funcIdx[name]; ok {
		return f
	}
	f := e.lookupFunc(name)
	e.funcIdx[name] = f
	return f
}

func (e *Engine) lookupFunc(name string) *ssa.Function {
	// find longest package-path prefix
	var pkgs []string
	for p := range e.byPkg {
		if strings.HasPrefix(name, p+".") {
			pkgs = append(pkgs, p)
		}
	}
	sort.Slice(pkgs, func(i, j int) bool { return len(pkgs[i]) > len(pkgs[j]) })
	for _, pp := range pkgs {
		p := e.byPkg[pp]
		rest := name[len(pp)+1:]
		parts := strings.Split(rest, ".")
		if len(parts) == 1 {
			if f := p.Func(parts[0]); f != nil {
				return f
			}
			continue
		}
		if len(parts) == 2 {
			t := p.Type(parts[0])
			if t == nil {
				continue
			}
			for _, typ := range []types.Type{t.Type(), types.NewPointer(t.Type())} {
				ms := e.Prog.MethodSets.MethodSet(typ)
				for i := 0; i < ms.Len(); i++ {
					if ms.At(i).Obj().Name() == parts[1] {
						return e.Prog.MethodValue(ms.At(i))
					}
				}
			}
		}
	}
	return nil
}
