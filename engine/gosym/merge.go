package gosym

import (
	"golang.org/x/tools/go/ssa"

	"verif/engine/smt"
)

// Region merging: at a symbolic If whose region up to the immediate post-dominator is a
// small acyclic, call-free piece of code, all paths through the region are executed
// speculatively and their effects (phi values, memory writes) are merged into ite terms.
// This is an optimisation only: when anything does not fit, the caller forks as usual.

const (
	mergeMaxPaths  = 24
	mergeMaxBlocks = 10
	mergeMaxInstrs = 60
)

// ipdom computes immediate post-dominators of fn's blocks (nil = exit).
func (e *Engine) ipdom(fn *ssa.Function) map[*ssa.BasicBlock]*ssa.BasicBlock {
	e.mu.Lock()
	if r, ok := e.pdomCache[fn]; ok {
		e.mu.Unlock()
		return r
	}
	e.mu.Unlock()
	n := len(fn.Blocks)
	// reverse post-order on the reversed CFG starting from a virtual exit (index n)
	succRev := make([][]int, n+1) // edges of reversed graph: from block to its CFG preds
	predRev := make([][]int, n+1) // preds in reversed graph = CFG succs (+ exit)
	for _, b := range fn.Blocks {
		if len(b.Succs) == 0 {
			succRev[n] = append(succRev[n], b.Index)
			predRev[b.Index] = append(predRev[b.Index], n)
		}
		for _, s := range b.Succs {
			succRev[s.Index] = append(succRev[s.Index], b.Index)
			predRev[b.Index] = append(predRev[b.Index], s.Index)
		}
	}
	order := []int{}
	seen := make([]bool, n+1)
	var dfs func(int)
	dfs = func(u int) {
		seen[u] = true
		for _, v := range succRev[u] {
			if !seen[v] {
				dfs(v)
			}
		}
		order = append(order, u)
	}
	dfs(n)
	rpoNum := make([]int, n+1)
	for i := range rpoNum {
		rpoNum[i] = -1
	}
	for i, j := 0, len(order)-1; i < j; i, j = i+1, j-1 {
		order[i], order[j] = order[j], order[i]
	}
	for i, u := range order {
		rpoNum[u] = i
	}
	idom := make([]int, n+1)
	for i := range idom {
		idom[i] = -1
	}
	idom[n] = n
	intersect := func(a, b int) int {
		for a != b {
			for rpoNum[a] > rpoNum[b] {
				a = idom[a]
			}
			for rpoNum[b] > rpoNum[a] {
				b = idom[b]
			}
		}
		return a
	}
	for changed := true; changed; {
		changed = false
		for _, u := range order {
			if u == n {
				continue
			}
			newI := -1
			for _, p := range predRev[u] {
				if rpoNum[p] < 0 || idom[p] < 0 {
					continue
				}
				if newI < 0 {
					newI = p
				} else {
					newI = intersect(p, newI)
				}
			}
			if newI >= 0 && idom[u] != newI {
				idom[u] = newI
				changed = true
			}
		}
	}
	r := map[*ssa.BasicBlock]*ssa.BasicBlock{}
	for _, b := range fn.Blocks {
		if i := idom[b.Index]; i >= 0 && i < n {
			r[b] = fn.Blocks[i]
		}
	}
	e.mu.Lock()
	e.pdomCache[fn] = r
	e.mu.Unlock()
	return r
}

type regionPath struct {
	blocks []*ssa.BasicBlock // blocks after the If block, ending with the predecessor of join
	dirs   []bool            // direction taken at each If along the path (first: at the head block)
}

// enumRegion lists the acyclic paths from head's successors to join.
func enumRegion(head, join *ssa.BasicBlock) ([]regionPath, bool) {
	var out []regionPath
	ok := true
	var walk func(b *ssa.BasicBlock, blocks []*ssa.BasicBlock, dirs []bool, instrs int)
	walk = func(b *ssa.BasicBlock, blocks []*ssa.BasicBlock, dirs []bool, instrs int) {
		if !ok {
			return
		}
		if b == join {
			out = append(out, regionPath{append([]*ssa.BasicBlock{}, blocks...), append([]bool{}, dirs...)})
			if len(out) > mergeMaxPaths {
				ok = false
			}
			return
		}
		if len(blocks) >= mergeMaxBlocks {
			ok = false
			return
		}
		for _, q := range blocks {
			if q == b {
				ok = false // cycle
				return
			}
		}
		if b == head {
			ok = false
			return
		}
		instrs += len(b.Instrs)
		if instrs > mergeMaxInstrs {
			ok = false
			return
		}
		for _, ins := range b.Instrs {
			switch ins.(type) {
			case *ssa.If, *ssa.Jump, *ssa.Phi:
				continue
			}
			if !specAllowed(ins) {
				ok = false
				return
			}
		}
		nb := append(blocks, b)
		switch len(b.Succs) {
		case 1:
			walk(b.Succs[0], nb, dirs, instrs)
		case 2:
			walk(b.Succs[0], nb, append(dirs, true), instrs)
			walk(b.Succs[1], nb, append(append([]bool{}, dirs...), false), instrs)
		default:
			ok = false
		}
	}
	walk(head.Succs[0], nil, []bool{true}, 0)
	walk(head.Succs[1], nil, []bool{false}, 0)
	return out, ok && len(out) >= 2
}

type pathEffect struct {
	cond *smt.Term
	pred *ssa.BasicBlock
	locs []specLoc
	vals []Value
	phis []Value
}

// tryMergeRegion returns true when the region was merged; fr.block/fr.prev/fr.envMerged
// are then set for the main loop to continue at the join block.
func (x *Exec) tryMergeRegion(fr *frame, b *ssa.BasicBlock, c *smt.Term) bool {
	if c.IsConst() || x.h.NoMerge || x.spec != nil || x.lenient > 0 {
		return false
	}
	join := x.eng.ipdom(b.Parent())[b]
	if join == nil || join == b {
		return false
	}
	x.eng.mu.Lock()
	key := b
	paths, cached := x.eng.regionCache[key]
	x.eng.mu.Unlock()
	if !cached {
		ps, ok := enumRegion(b, join)
		if !ok {
			ps = nil
		}
		x.eng.mu.Lock()
		x.eng.regionCache[key] = ps
		x.eng.mu.Unlock()
		paths = ps
	}
	if paths == nil {
		return false
	}
	var nphi int
	for _, ins := range join.Instrs {
		if _, ok := ins.(*ssa.Phi); !ok {
			break
		}
		nphi++
	}
	var effs []pathEffect
	for _, rp := range paths {
		eff, ok := x.specPath(fr, b, c, join, rp, nphi)
		if !ok {
			return false
		}
		if eff.cond.IsFalse() {
			continue
		}
		effs = append(effs, eff)
	}
	if len(effs) == 0 {
		return false
	}
	// merge memory
	type mloc struct {
		l    specLoc
		vals []Value // per effect (nil = not written)
	}
	var mls []mloc
	idx := map[specLoc]int{}
	for ei, e := range effs {
		for k, l := range e.locs {
			i, ok := idx[l]
			if !ok {
				// partial overlap with an existing location => give up
				for _, m := range mls {
					if m.l.o == l.o && m.l.off < l.off+l.size && l.off < m.l.off+m.l.size {
						return false
					}
				}
				i = len(mls)
				idx[l] = i
				mls = append(mls, mloc{l: l, vals: make([]Value, len(effs))})
			}
			mls[i].vals[ei] = e.vals[k]
		}
	}
	merged := make([]Value, len(mls))
	okm := true
	func() {
		defer func() {
			if r := recover(); r != nil {
				if pa, is := r.(pathAbort); is && pa.kind == abNotEncoded {
					okm = false
					return
				}
				panic(r)
			}
		}()
		for i, m := range mls {
			old := x.rawAt(m.l.o, m.l.off, m.l.size)
			var acc Value
			for ei := len(effs) - 1; ei >= 0; ei-- {
				v := m.vals[ei]
				if v == nil {
					v = old
				}
				if acc == nil {
					acc = v
					continue
				}
				nv, ok := x.iteRaw(effs[ei].cond, v, acc, m.l.size)
				if !ok {
					okm = false
					return
				}
				acc = nv
			}
			merged[i] = acc
		}
	}()
	if !okm {
		return false
	}
	// merge phis
	phiVals := make([]Value, nphi)
	for k := 0; k < nphi; k++ {
		var acc Value
		for ei := len(effs) - 1; ei >= 0; ei-- {
			v := effs[ei].phis[k]
			if acc == nil {
				acc = v
				continue
			}
			nv, ok := x.iteValue(effs[ei].cond, v, acc)
			if !ok {
				return false
			}
			acc = nv
		}
		phiVals[k] = acc
	}
	// commit
	for i, m := range mls {
		x.storeLeaf(m.l.o, m.l.off, m.l.size, merged[i])
	}
	fr.envMerged = map[*ssa.Phi]Value{}
	for k := 0; k < nphi; k++ {
		fr.envMerged[join.Instrs[k].(*ssa.Phi)] = phiVals[k]
	}
	fr.block = join
	fr.prev = effs[0].pred
	x.merges++
	return true
}

// specPath executes one path of the region speculatively.
func (x *Exec) specPath(fr *frame, head *ssa.BasicBlock, c *smt.Term, join *ssa.BasicBlock, rp regionPath, nphi int) (eff pathEffect, ok bool) {
	x.spec = &specLog{}
	ok = true
	cond := c
	if !rp.dirs[0] {
		cond = x.st.BNot(c)
	}
	pred := head
	func() {
		defer func() {
			if r := recover(); r != nil {
				if pa, is := r.(pathAbort); is && (pa.kind == abNotEncoded || pa.kind == abSpec) {
					ok = false
					return
				}
				sp := x.spec
				x.spec = nil
				x.undoSpec(sp)
				panic(r)
			}
		}()
		di := 1
		prev := head
		for _, blk := range rp.blocks {
			// phis of region blocks
			var pv []Value
			np := 0
			for _, ins := range blk.Instrs {
				phi, isPhi := ins.(*ssa.Phi)
				if !isPhi {
					break
				}
				np++
				k := -1
				for i, pb := range blk.Preds {
					if pb == prev {
						k = i
					}
				}
				if k < 0 {
					ok = false
					return
				}
				pv = append(pv, x.get(fr, phi.Edges[k]))
			}
			for i := 0; i < np; i++ {
				fr.locals[blk.Instrs[i].(*ssa.Phi)] = pv[i]
			}
			for _, ins := range blk.Instrs[np:] {
				switch i := ins.(type) {
				case *ssa.Jump:
				case *ssa.If:
					ct := x.get(fr, i.Cond).(*smt.Term)
					if rp.dirs[di] {
						cond = x.st.BAnd(cond, ct)
					} else {
						cond = x.st.BAnd(cond, x.st.BNot(ct))
					}
					di++
				default:
					x.step(fr, ins)
				}
				if cond.IsFalse() {
					return
				}
			}
			prev = blk
		}
		pred = prev
		// phi inputs at the join
		k := -1
		for i, pb := range join.Preds {
			if pb == pred {
				k = i
			}
		}
		if k < 0 {
			ok = false
			return
		}
		for i := 0; i < nphi; i++ {
			eff.phis = append(eff.phis, x.get(fr, join.Instrs[i].(*ssa.Phi).Edges[k]))
		}
	}()
	sp := x.spec
	x.spec = nil
	if ok && !cond.IsFalse() {
		seen := map[specLoc]bool{}
		func() {
			defer func() {
				if r := recover(); r != nil {
					if pa, is := r.(pathAbort); is && pa.kind == abNotEncoded {
						ok = false
						return
					}
					x.undoSpec(sp)
					panic(r)
				}
			}()
			for _, l := range sp.locs {
				if seen[l] {
					continue
				}
				seen[l] = true
				eff.locs = append(eff.locs, l)
				eff.vals = append(eff.vals, x.rawAt(l.o, l.off, l.size))
			}
		}()
	}
	x.undoSpec(sp)
	eff.cond = cond
	eff.pred = pred
	return eff, ok
}

func (x *Exec) undoSpec(sp *specLog) {
	for i := len(sp.undo) - 1; i >= 0; i-- {
		u := sp.undo[i]
		if u.old == nil {
			delete(u.o.Cells, u.off)
		} else {
			u.o.Cells[u.off] = u.old
		}
	}
}
