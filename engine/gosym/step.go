package gosym

import (
	"go/constant"
	"go/token"
	"go/types"
	"math"

	"golang.org/x/tools/go/ssa"

	"verif/engine/smt"
)

func constantBool(c *ssa.Const) bool     { return constant.BoolVal(c.Value) }
func constantString(c *ssa.Const) string { return constant.StringVal(c.Value) }

func (x *Exec) floatConst(f float64, w int) *smt.Term {
	if w == 32 {
		return x.st.Const(32, uint64(math.Float32bits(float32(f))))
	}
	return x.st.Const(64, math.Float64bits(f))
}

func (x *Exec) step(fr *frame, ins ssa.Instruction) {
	switch i := ins.(type) {
	case *ssa.DebugRef:
	case *ssa.Alloc:
		et := i.Type().(*types.Pointer).Elem()
		o := x.newObject(x.sizeof(et), et, i.Comment)
		o.Epoch = x.h.epoch(x)
		fr.locals[i] = Ptr{Obj: o, Off: x.c64(0)}
	case *ssa.BinOp:
		fr.locals[i] = x.binop(i.Op, i.X.Type(), x.get(fr, i.X), x.get(fr, i.Y), i.Y.Type())
	case *ssa.UnOp:
		fr.locals[i] = x.unop(fr, i)
	case *ssa.Call:
		fr.locals[i] = x.doCall(fr, &i.Call)
	case *ssa.Defer:
		c := i.Call
		// evaluate now
		fnv, args := x.prepareCall(fr, &c)
		fr.defers = append(fr.defers, func() { x.invoke(fnv, args) })
	case *ssa.RunDefers:
		x.runDefers(fr)
	case *ssa.Go:
		x.notEncoded("go statement")
	case *ssa.ChangeType:
		fr.locals[i] = x.get(fr, i.X)
	case *ssa.Convert:
		fr.locals[i] = x.convert(x.get(fr, i.X), i.X.Type(), i.Type())
	case *ssa.MultiConvert:
		fr.locals[i] = x.convert(x.get(fr, i.X), i.X.Type(), i.Type())
	case *ssa.ChangeInterface:
		fr.locals[i] = x.get(fr, i.X)
	case *ssa.MakeInterface:
		fr.locals[i] = Iface{T: i.X.Type(), V: x.get(fr, i.X)}
	case *ssa.SliceToArrayPointer:
		s := x.get(fr, i.X).(Slice)
		n := i.Type().(*types.Pointer).Elem().Underlying().(*types.Array).Len()
		x.panicIf(x.st.Slt(s.Len, x.c64(n)), "slice to array pointer: length too short")
		fr.locals[i] = s.P
	case *ssa.Extract:
		fr.locals[i] = x.get(fr, i.Tuple).(Tuple)[i.Index]
	case *ssa.Field:
		fr.locals[i] = x.get(fr, i.X).(Struct)[i.Field]
	case *ssa.FieldAddr:
		p := x.asPtr(x.get(fr, i.X))
		if p.Obj == nil {
			x.checkAccess(p, 1, "field address")
		}
		st := i.X.Type().Underlying().(*types.Pointer).Elem().Underlying().(*types.Struct)
		fr.locals[i] = x.ptrAddConst(p, x.fieldOffsets(st)[i.Field])
	case *ssa.Index:
		fr.locals[i] = x.index(x.get(fr, i.X), i.X.Type(), x.get(fr, i.Index).(*smt.Term), i.Index.Type())
	case *ssa.IndexAddr:
		fr.locals[i] = x.indexAddr(x.get(fr, i.X), i.X.Type(), x.get(fr, i.Index).(*smt.Term), i.Index.Type())
	case *ssa.Lookup:
		fr.locals[i] = x.lookup(fr, i)
	case *ssa.MakeClosure:
		fn := i.Fn.(*ssa.Function)
		env := make([]Value, len(i.Bindings))
		for k, b := range i.Bindings {
			env[k] = x.get(fr, b)
		}
		fr.locals[i] = &Func{Fn: fn, Env: env}
	case *ssa.MakeMap:
		mt := i.Type().Underlying().(*types.Map)
		x.nextObj++
		fr.locals[i] = MapRef{&MapObj{ID: x.nextObj, KT: mt.Key(), VT: mt.Elem()}}
	case *ssa.MakeSlice:
		fr.locals[i] = x.makeSlice(i.Type(), x.get(fr, i.Len).(*smt.Term), x.get(fr, i.Cap).(*smt.Term), i.Len.Type())
	case *ssa.MapUpdate:
		x.mapUpdate(x.get(fr, i.Map).(MapRef), x.get(fr, i.Key), x.get(fr, i.Value))
	case *ssa.Range:
		fr.locals[i] = x.rangeStart(x.get(fr, i.X), i.X.Type())
	case *ssa.Next:
		fr.locals[i] = x.rangeNext(x.get(fr, i.Iter).(*RangeIter), i)
	case *ssa.Slice:
		fr.locals[i] = x.sliceOp(fr, i)
	case *ssa.Store:
		p := x.asPtr(x.get(fr, i.Addr))
		x.store(p, i.Val.Type(), x.get(fr, i.Val))
	case *ssa.TypeAssert:
		fr.locals[i] = x.typeAssert(i, x.get(fr, i.X))
	case *ssa.Phi:
		x.notEncoded("internal: phi in step")
	default:
		x.notEncoded("instruction %T", ins)
	}
}

func (x *Exec) intWidthOf(t types.Type) int { return x.width(t) }

// normShift adapts a shift count to operand width w (Go semantics: counts >= w shift everything out).
func (x *Exec) normShift(cnt *smt.Term, w int) *smt.Term {
	if cnt.W == w {
		return cnt
	}
	if cnt.W < w {
		return x.st.ZExt(cnt, w)
	}
	big := x.st.Uge(cnt, x.st.Const(cnt.W, uint64(w)))
	return x.st.Ite(big, x.st.Const(w, uint64(w)), x.st.Extract(cnt, w-1, 0))
}

func (x *Exec) binop(op token.Token, t types.Type, a, b Value, bt types.Type) Value {
	if _, ok := a.(poison); ok {
		x.notEncoded("use of unknown init value")
	}
	if _, ok := b.(poison); ok {
		x.notEncoded("use of unknown init value")
	}
	s := x.st
	switch u := t.Underlying().(type) {
	case *types.Basic:
		switch {
		case u.Info()&types.IsString != 0:
			as, bs := a.(Str), b.(Str)
			switch op {
			case token.ADD:
				return x.strConcat(as, bs)
			case token.EQL:
				return x.strEq(as, bs)
			case token.NEQ:
				return s.BNot(x.strEq(as, bs))
			case token.LSS:
				return x.strLess(as, bs)
			case token.GTR:
				return x.strLess(bs, as)
			case token.LEQ:
				return s.BNot(x.strLess(bs, as))
			case token.GEQ:
				return s.BNot(x.strLess(as, bs))
			}
		case u.Info()&types.IsBoolean != 0:
			at, btm := a.(*smt.Term), b.(*smt.Term)
			switch op {
			case token.EQL:
				return s.Eq(at, btm)
			case token.NEQ:
				return s.BNot(s.Eq(at, btm))
			case token.AND, token.LAND:
				return s.BAnd(at, btm)
			case token.OR, token.LOR:
				return s.BOr(at, btm)
			}
		case u.Info()&types.IsFloat != 0:
			return x.floatBin(op, x.width(t), a.(*smt.Term), b.(*smt.Term))
		case u.Kind() == types.UnsafePointer:
			return x.ptrCmp(op, a, b)
		case u.Info()&types.IsInteger != 0:
			// tagged pointers as uintptr
			_, ap := a.(Ptr)
			_, bp := b.(Ptr)
			if ap || bp {
				return x.uintptrOp(op, a, b)
			}
			at, btm := a.(*smt.Term), b.(*smt.Term)
			signed := u.Info()&types.IsUnsigned == 0
			switch op {
			case token.ADD:
				return s.Add(at, btm)
			case token.SUB:
				return s.Sub(at, btm)
			case token.MUL:
				return s.Mul(at, btm)
			case token.QUO:
				x.panicIf(s.Eq(btm, s.Const(btm.W, 0)), "integer divide by zero")
				if signed {
					return s.SDiv(at, btm)
				}
				return s.UDiv(at, btm)
			case token.REM:
				x.panicIf(s.Eq(btm, s.Const(btm.W, 0)), "integer divide by zero")
				if signed {
					return s.SRem(at, btm)
				}
				return s.URem(at, btm)
			case token.AND:
				return s.And(at, btm)
			case token.OR:
				return s.Or(at, btm)
			case token.XOR:
				return s.Xor(at, btm)
			case token.AND_NOT:
				return s.And(at, s.Not(btm))
			case token.SHL, token.SHR:
				if isSigned(bt) {
					x.panicIf(s.Slt(btm, s.Const(btm.W, 0)), "negative shift amount")
				}
				c := x.normShift(btm, at.W)
				if op == token.SHL {
					return s.Shl(at, c)
				}
				if signed {
					return s.AShr(at, c)
				}
				return s.LShr(at, c)
			case token.EQL:
				return s.Eq(at, btm)
			case token.NEQ:
				return s.Ne(at, btm)
			case token.LSS:
				if signed {
					return s.Slt(at, btm)
				}
				return s.Ult(at, btm)
			case token.LEQ:
				if signed {
					return s.Sle(at, btm)
				}
				return s.Ule(at, btm)
			case token.GTR:
				if signed {
					return s.Sgt(at, btm)
				}
				return s.Ugt(at, btm)
			case token.GEQ:
				if signed {
					return s.Sge(at, btm)
				}
				return s.Uge(at, btm)
			}
		}
	case *types.Pointer, *types.Chan:
		return x.ptrCmp(op, a, b)
	case *types.Signature:
		af, _ := a.(*Func)
		bf, _ := b.(*Func)
		eq := af == bf || (af != nil && bf != nil && af.Fn == bf.Fn && af.Builtin == bf.Builtin && len(af.Env) == 0 && len(bf.Env) == 0)
		if op == token.NEQ {
			eq = !eq
		}
		return s.Bool(eq)
	case *types.Map:
		eq := a.(MapRef).M == b.(MapRef).M
		if op == token.NEQ {
			eq = !eq
		}
		return s.Bool(eq)
	case *types.Slice:
		// only comparison with nil
		as, ok1 := a.(Slice)
		bs, ok2 := b.(Slice)
		if ok1 && ok2 {
			var e *smt.Term
			if isNilPtr(bs.P) {
				e = x.ptrIsNil(as.P)
			} else {
				e = x.ptrIsNil(bs.P)
			}
			if op == token.NEQ {
				e = s.BNot(e)
			}
			return e
		}
	case *types.Interface:
		e := x.ifaceEq(a.(Iface), b.(Iface))
		if op == token.NEQ {
			e = s.BNot(e)
		}
		return e
	case *types.Struct:
		e := x.valueEq(t, a, b)
		if op == token.NEQ {
			e = s.BNot(e)
		}
		return e
	case *types.Array:
		e := x.valueEq(t, a, b)
		if op == token.NEQ {
			e = s.BNot(e)
		}
		return e
	}
	x.notEncoded("binop %s on %s", op, t)
	return nil
}

func (x *Exec) ptrIsNil(p Ptr) *smt.Term {
	if p.Obj != nil {
		return x.st.False
	}
	return x.st.Eq(p.Off, x.c64(0))
}

func (x *Exec) ptrEq(a, b Ptr) *smt.Term {
	if a.Obj != b.Obj {
		return x.st.False
	}
	return x.st.Eq(a.Off, b.Off)
}

func (x *Exec) ptrCmp(op token.Token, a, b Value) Value {
	ap, bp := x.asPtr(a), x.asPtr(b)
	switch op {
	case token.EQL:
		return x.ptrEq(ap, bp)
	case token.NEQ:
		return x.st.BNot(x.ptrEq(ap, bp))
	}
	x.notEncoded("pointer comparison %s", op)
	return nil
}

func (x *Exec) uintptrOp(op token.Token, a, b Value) Value {
	s := x.st
	ap, aIsP := a.(Ptr)
	bp, bIsP := b.(Ptr)
	if aIsP && ap.Obj == nil {
		a, aIsP = ap.Off, false
	}
	if bIsP && bp.Obj == nil {
		b, bIsP = bp.Off, false
	}
	if !aIsP && !bIsP {
		return x.binop(op, types.Typ[types.Uintptr], a, b, types.Typ[types.Uintptr])
	}
	switch {
	case aIsP && !bIsP:
		bt := b.(*smt.Term)
		switch op {
		case token.ADD:
			return x.ptrAdd(ap, bt, 1)
		case token.SUB:
			return x.ptrAdd(ap, s.Neg(bt), 1)
		case token.XOR, token.OR:
			if bt.IsConst() && bt.Val == 0 {
				return ap
			}
		case token.EQL:
			return s.False // live object address vs integer: only 0 matters
		case token.NEQ:
			return s.True
		case token.AND:
			// alignment tests on object base: objects are at least 8-aligned... keep precise only for offset part
			if bt.IsConst() && bt.Val < 8 {
				return s.And(ap.Off, bt)
			}
		}
	case !aIsP && bIsP:
		at := a.(*smt.Term)
		switch op {
		case token.ADD:
			return x.ptrAdd(bp, at, 1)
		case token.EQL:
			return s.False
		case token.NEQ:
			return s.True
		}
	case aIsP && bIsP:
		if ap.Obj == bp.Obj {
			switch op {
			case token.SUB:
				return s.Sub(ap.Off, bp.Off)
			case token.EQL:
				return s.Eq(ap.Off, bp.Off)
			case token.NEQ:
				return s.Ne(ap.Off, bp.Off)
			case token.LSS:
				return s.Ult(ap.Off, bp.Off)
			case token.LEQ:
				return s.Ule(ap.Off, bp.Off)
			case token.GTR:
				return s.Ugt(ap.Off, bp.Off)
			case token.GEQ:
				return s.Uge(ap.Off, bp.Off)
			}
		} else {
			switch op {
			case token.EQL:
				return s.False
			case token.NEQ:
				return s.True
			}
		}
	}
	x.notEncoded("uintptr arithmetic %s on tagged pointers", op)
	return nil
}

func (x *Exec) floatBin(op token.Token, w int, a, b *smt.Term) Value {
	s := x.st
	if a.IsConst() && b.IsConst() {
		var fa, fb float64
		if w == 32 {
			fa, fb = float64(math.Float32frombits(uint32(a.Val))), float64(math.Float32frombits(uint32(b.Val)))
		} else {
			fa, fb = math.Float64frombits(a.Val), math.Float64frombits(b.Val)
		}
		mk := func(f float64) Value { return x.floatConst(f, w) }
		switch op {
		case token.ADD:
			if w == 32 {
				return mk(float64(float32(fa) + float32(fb)))
			}
			return mk(fa + fb)
		case token.SUB:
			if w == 32 {
				return mk(float64(float32(fa) - float32(fb)))
			}
			return mk(fa - fb)
		case token.MUL:
			if w == 32 {
				return mk(float64(float32(fa) * float32(fb)))
			}
			return mk(fa * fb)
		case token.QUO:
			if w == 32 {
				return mk(float64(float32(fa) / float32(fb)))
			}
			return mk(fa / fb)
		case token.EQL:
			return s.Bool(fa == fb)
		case token.NEQ:
			return s.Bool(fa != fb)
		case token.LSS:
			return s.Bool(fa < fb)
		case token.LEQ:
			return s.Bool(fa <= fb)
		case token.GTR:
			return s.Bool(fa > fb)
		case token.GEQ:
			return s.Bool(fa >= fb)
		}
	}
	switch op {
	case token.EQL:
		return s.FP(smt.OpFPEq, 0, a, b)
	case token.NEQ:
		return s.BNot(s.FP(smt.OpFPEq, 0, a, b))
	case token.LSS:
		return s.FP(smt.OpFPLt, 0, a, b)
	case token.LEQ:
		return s.FP(smt.OpFPLe, 0, a, b)
	case token.GTR:
		return s.FP(smt.OpFPLt, 0, b, a)
	case token.GEQ:
		return s.FP(smt.OpFPLe, 0, b, a)
	}
	x.notEncoded("symbolic floating-point arithmetic %s", op)
	return nil
}

func (x *Exec) ifaceEq(a, b Iface) *smt.Term {
	if a.T == nil || b.T == nil {
		return x.st.Bool(a.T == nil && b.T == nil)
	}
	if !types.Identical(a.T, b.T) {
		return x.st.False
	}
	return x.valueEq(a.T, a.V, b.V)
}

func (x *Exec) valueEq(t types.Type, a, b Value) *smt.Term {
	s := x.st
	switch u := t.Underlying().(type) {
	case *types.Basic:
		if u.Info()&types.IsString != 0 {
			return x.strEq(a.(Str), b.(Str))
		}
		if u.Info()&types.IsFloat != 0 {
			return x.floatBin(token.EQL, x.width(t), a.(*smt.Term), b.(*smt.Term)).(*smt.Term)
		}
		if u.Kind() == types.UnsafePointer {
			return x.ptrEq(x.asPtr(a), x.asPtr(b))
		}
		r := x.binop(token.EQL, t, a, b, t)
		return r.(*smt.Term)
	case *types.Pointer:
		return x.ptrEq(x.asPtr(a), x.asPtr(b))
	case *types.Struct:
		r := s.True
		as, bs := a.(Struct), b.(Struct)
		for i := range as {
			r = s.BAnd(r, x.valueEq(u.Field(i).Type(), as[i], bs[i]))
		}
		return r
	case *types.Array:
		r := s.True
		as, bs := a.(Array), b.(Array)
		for i := range as {
			r = s.BAnd(r, x.valueEq(u.Elem(), as[i], bs[i]))
		}
		return r
	case *types.Interface:
		return x.ifaceEq(a.(Iface), b.(Iface))
	}
	x.notEncoded("equality on %s", t)
	return nil
}

func (x *Exec) unop(fr *frame, i *ssa.UnOp) Value {
	v := x.get(fr, i.X)
	if _, ok := v.(poison); ok {
		x.notEncoded("use of unknown init value")
	}
	switch i.Op {
	case token.MUL:
		return x.load(x.asPtr(v), i.Type())
	case token.NOT:
		return x.st.BNot(v.(*smt.Term))
	case token.SUB:
		t := v.(*smt.Term)
		if isFloat(i.Type()) {
			return x.st.Xor(t, x.st.Const(t.W, uint64(1)<<uint(t.W-1)))
		}
		return x.st.Neg(t)
	case token.XOR:
		return x.st.Not(v.(*smt.Term))
	}
	x.notEncoded("unop %s", i.Op)
	return nil
}

func (x *Exec) convert(v Value, from, to types.Type) Value {
	if _, ok := v.(poison); ok {
		x.notEncoded("use of unknown init value")
	}
	s := x.st
	fu, tu := from.Underlying(), to.Underlying()
	fb, fIsB := fu.(*types.Basic)
	tb, tIsB := tu.(*types.Basic)
	// pointer-ish conversions
	isPtrish := func(t types.Type) bool {
		switch u := t.(type) {
		case *types.Pointer:
			return true
		case *types.Basic:
			return u.Kind() == types.UnsafePointer
		}
		return false
	}
	if isPtrish(fu) && isPtrish(tu) {
		return x.asPtr(v)
	}
	if isPtrish(fu) && tIsB && tb.Kind() == types.Uintptr {
		p := x.asPtr(v)
		if p.Obj == nil {
			return p.Off
		}
		return p
	}
	if fIsB && fb.Kind() == types.Uintptr && isPtrish(tu) {
		return x.asPtr(v)
	}
	if fIsB && tIsB {
		switch {
		case fb.Info()&types.IsInteger != 0 && tb.Info()&types.IsInteger != 0:
			if p, ok := v.(Ptr); ok {
				if x.width(to) == 64 {
					return p
				}
				x.notEncoded("narrowing a tagged pointer")
			}
			t := v.(*smt.Term)
			w := x.width(to)
			if w <= t.W {
				return s.Extract(t, w-1, 0)
			}
			if fb.Info()&types.IsUnsigned == 0 {
				return s.SExt(t, w)
			}
			return s.ZExt(t, w)
		case fb.Info()&types.IsFloat != 0 && tb.Info()&types.IsFloat != 0:
			t := v.(*smt.Term)
			w := x.width(to)
			if t.W == w {
				return t
			}
			if t.IsConst() {
				if w == 32 {
					return x.floatConst(float64(float32(math.Float64frombits(t.Val))), 32)
				}
				return x.floatConst(float64(math.Float32frombits(uint32(t.Val))), 64)
			}
			return s.FP(smt.OpFPCvt, w, t)
		case fb.Info()&types.IsInteger != 0 && tb.Info()&types.IsFloat != 0:
			t := v.(*smt.Term)
			if t.IsConst() {
				if fb.Info()&types.IsUnsigned != 0 {
					return x.floatConst(float64(t.Val), x.width(to))
				}
				return x.floatConst(float64(t.SVal()), x.width(to))
			}
			if fb.Info()&types.IsUnsigned != 0 {
				return s.FP(smt.OpFPFromUInt, x.width(to), t)
			}
			return s.FP(smt.OpFPFromSInt, x.width(to), t)
		case fb.Info()&types.IsFloat != 0 && tb.Info()&types.IsInteger != 0:
			t := v.(*smt.Term)
			if t.IsConst() {
				var f float64
				if t.W == 32 {
					f = float64(math.Float32frombits(uint32(t.Val)))
				} else {
					f = math.Float64frombits(t.Val)
				}
				if tb.Info()&types.IsUnsigned != 0 {
					return s.Const(x.width(to), uint64(f))
				}
				return s.Const(x.width(to), uint64(int64(f)))
			}
			x.notEncoded("symbolic float->int conversion")
		case fb.Info()&types.IsString != 0 && tb.Info()&types.IsString != 0:
			return v
		case fb.Info()&types.IsInteger != 0 && tb.Info()&types.IsString != 0:
			t := v.(*smt.Term)
			if t.IsConst() {
				return x.constString(string(rune(t.SVal())))
			}
			x.notEncoded("symbolic rune->string conversion")
		}
	}
	// string <-> []byte
	if fIsB && fb.Info()&types.IsString != 0 {
		if sl, ok := tu.(*types.Slice); ok {
			if eb, ok := sl.Elem().Underlying().(*types.Basic); ok && eb.Kind() == types.Uint8 {
				str := v.(Str)
				np := x.cloneBytes(str.P, str.Len, "[]byte(string)")
				return Slice{P: np, Len: str.Len, Cap: str.Len}
			}
		}
	}
	if tIsB && tb.Info()&types.IsString != 0 {
		if sl, ok := fu.(*types.Slice); ok {
			if eb, ok := sl.Elem().Underlying().(*types.Basic); ok && eb.Kind() == types.Uint8 {
				sv := v.(Slice)
				np := x.cloneBytes(sv.P, sv.Len, "string([]byte)")
				if np.Obj != nil {
					np.Obj.ReadOnly = true
				}
				return Str{P: np, Len: sv.Len}
			}
		}
	}
	x.notEncoded("conversion %s -> %s", from, to)
	return nil
}

func (x *Exec) strConcat(a, b Str) Value {
	if a.Len.IsConst() && a.Len.Val == 0 {
		return b
	}
	if b.Len.IsConst() && b.Len.Val == 0 {
		return a
	}
	la := x.Concretize(a.Len)
	lb := x.Concretize(b.Len)
	o := x.newBytes(int(la+lb), "concat")
	for i := 0; i < int(la); i++ {
		x.storeLeaf(o, i, 1, x.byteIdx(a.P, i))
	}
	for i := 0; i < int(lb); i++ {
		x.storeLeaf(o, int(la)+i, 1, x.byteIdx(b.P, i))
	}
	o.ReadOnly = true
	return Str{P: Ptr{Obj: o, Off: x.c64(0)}, Len: x.c64(int64(la + lb))}
}

func (x *Exec) idx64(i *smt.Term, it types.Type) *smt.Term {
	if i.W == 64 {
		return i
	}
	if isSigned(it) {
		return x.st.SExt(i, 64)
	}
	return x.st.ZExt(i, 64)
}

func (x *Exec) index(v Value, vt types.Type, i *smt.Term, it types.Type) Value {
	i = x.idx64(i, it)
	switch u := vt.Underlying().(type) {
	case *types.Array:
		a := v.(Array)
		x.panicIf(x.st.Uge(i, x.c64(int64(len(a)))), "index out of range")
		if i.IsConst() {
			return a[int(i.Val)]
		}
		k := x.Concretize(i)
		return a[int(k)]
	case *types.Basic:
		if u.Info()&types.IsString != 0 {
			s := v.(Str)
			x.panicIf(x.st.Uge(i, s.Len), "index out of range")
			p := x.ptrAdd(s.P, i, 1)
			return x.load(p, types.Typ[types.Uint8])
		}
	}
	x.notEncoded("index of %s", vt)
	return nil
}

func (x *Exec) indexAddr(v Value, vt types.Type, i *smt.Term, it types.Type) Value {
	i = x.idx64(i, it)
	switch u := vt.Underlying().(type) {
	case *types.Slice:
		s := v.(Slice)
		x.panicIf(x.st.Uge(i, s.Len), "index out of range")
		es := x.sizeof(u.Elem())
		return x.ptrAdd(s.P, x.st.Mul(i, x.c64(int64(es))), es)
	case *types.Pointer:
		arr := u.Elem().Underlying().(*types.Array)
		p := x.asPtr(v)
		if p.Obj == nil {
			x.checkAccess(p, 1, "index address")
		}
		x.panicIf(x.st.Uge(i, x.c64(arr.Len())), "index out of range")
		es := x.sizeof(arr.Elem())
		return x.ptrAdd(p, x.st.Mul(i, x.c64(int64(es))), es)
	}
	x.notEncoded("indexaddr of %s", vt)
	return nil
}

func (x *Exec) makeSlice(t types.Type, l, c *smt.Term, lt types.Type) Value {
	l, c = x.idx64(l, lt), x.idx64(c, lt)
	et := t.Underlying().(*types.Slice).Elem()
	es := x.sizeof(et)
	x.panicIf(x.st.BOr(x.st.Slt(l, x.c64(0)), x.st.Slt(c, l)), "makeslice: len/cap out of range")
	cv := int(x.Concretize(c))
	if cv > 1<<20 {
		x.notEncoded("make slice with capacity %d", cv)
	}
	o := x.newObject(cv*es, types.NewArray(et, int64(cv)), "make")
	o.Epoch = x.h.epoch(x)
	return Slice{P: Ptr{Obj: o, Off: x.c64(0)}, Len: l, Cap: x.c64(int64(cv))}
}

func (x *Exec) sliceOp(fr *frame, i *ssa.Slice) Value {
	v := x.get(fr, i.X)
	s := x.st
	var lo, hi, mx *smt.Term
	if i.Low != nil {
		lo = x.idx64(x.get(fr, i.Low).(*smt.Term), i.Low.Type())
	} else {
		lo = x.c64(0)
	}
	if i.High != nil {
		hi = x.idx64(x.get(fr, i.High).(*smt.Term), i.High.Type())
	}
	if i.Max != nil {
		mx = x.idx64(x.get(fr, i.Max).(*smt.Term), i.Max.Type())
	}
	switch u := i.X.Type().Underlying().(type) {
	case *types.Basic: // string
		str := v.(Str)
		if hi == nil {
			hi = str.Len
		}
		x.panicIf(s.BOr(s.Ugt(hi, str.Len), s.Ugt(lo, hi)), "slice bounds out of range")
		return Str{P: x.ptrAdd(str.P, lo, 1), Len: s.Sub(hi, lo)}
	case *types.Slice:
		sl := v.(Slice)
		if hi == nil {
			hi = sl.Len
		}
		capv := sl.Cap
		if mx != nil {
			x.panicIf(s.BOr(s.Ugt(mx, sl.Cap), s.Ugt(hi, mx)), "slice bounds out of range (max)")
			capv = mx
		}
		x.panicIf(s.BOr(s.Ugt(hi, sl.Cap), s.Ugt(lo, hi)), "slice bounds out of range")
		es := x.sizeof(u.Elem())
		return Slice{P: x.ptrAdd(sl.P, s.Mul(lo, x.c64(int64(es))), es), Len: s.Sub(hi, lo), Cap: s.Sub(capv, lo)}
	case *types.Pointer: // *array
		arr := u.Elem().Underlying().(*types.Array)
		p := x.asPtr(v)
		n := x.c64(arr.Len())
		if hi == nil {
			hi = n
		}
		capv := n
		if mx != nil {
			x.panicIf(s.BOr(s.Ugt(mx, n), s.Ugt(hi, mx)), "slice bounds out of range (max)")
			capv = mx
		}
		x.panicIf(s.BOr(s.Ugt(hi, n), s.Ugt(lo, hi)), "slice bounds out of range")
		if p.Obj == nil {
			x.checkAccess(p, 1, "slice of nil array pointer")
		}
		es := x.sizeof(arr.Elem())
		return Slice{P: x.ptrAdd(p, s.Mul(lo, x.c64(int64(es))), es), Len: s.Sub(hi, lo), Cap: s.Sub(capv, lo)}
	}
	x.notEncoded("slice of %s", i.X.Type())
	return nil
}

func (x *Exec) typeAssert(i *ssa.TypeAssert, v Value) Value {
	iv, ok := v.(Iface)
	if !ok {
		x.notEncoded("type assert on %T", v)
	}
	at := i.AssertedType
	var okb bool
	var res Value
	if _, isIface := at.Underlying().(*types.Interface); isIface {
		if iv.T != nil {
			okb = types.Implements(iv.T, at.Underlying().(*types.Interface))
			if !okb {
				// pointer receiver method sets are handled by types.Implements on the dynamic type itself
				okb = false
			}
		}
		res = iv
		if !okb {
			res = Iface{}
		}
	} else {
		okb = iv.T != nil && types.Identical(iv.T, at)
		if okb {
			res = iv.V
		} else {
			res = x.zero(at)
		}
	}
	if i.CommaOk {
		return Tuple{res, x.st.Bool(okb)}
	}
	if !okb {
		x.goPanic("interface conversion: type assertion failed")
	}
	return res
}

// ---------- maps ----------

func (x *Exec) keyEq(kt types.Type, a, b Value) *smt.Term {
	return x.valueEq(kt, a, b)
}

func (x *Exec) lookup(fr *frame, i *ssa.Lookup) Value {
	xv := x.get(fr, i.X)
	if s, ok := xv.(Str); ok {
		idx := x.idx64(x.get(fr, i.Index).(*smt.Term), i.Index.Type())
		x.panicIf(x.st.Uge(idx, s.Len), "index out of range")
		return x.load(x.ptrAdd(s.P, idx, 1), types.Typ[types.Uint8])
	}
	m := xv.(MapRef)
	k := x.get(fr, i.Index)
	mt := i.X.Type().Underlying().(*types.Map)
	val, found := x.mapGet(m, mt, k)
	if i.CommaOk {
		return Tuple{val, found}
	}
	return val
}

func isScalarTerm(v Value) bool {
	_, ok := v.(*smt.Term)
	return ok
}

// scalarMap reports whether every stored value (and the candidate) is a plain term, in which
// case map operations are encoded with ite terms instead of forking on key equality.
func scalarMap(m *MapObj, extra Value) bool {
	if extra != nil && !isScalarTerm(extra) {
		return false
	}
	for _, e := range m.Entries {
		if !isScalarTerm(e.V) {
			return false
		}
	}
	return true
}

func (x *Exec) mapGet(m MapRef, mt *types.Map, k Value) (Value, *smt.Term) {
	zero := x.zero(mt.Elem())
	if m.M == nil {
		return zero, x.st.False
	}
	if zt, ok := zero.(*smt.Term); ok && scalarMap(m.M, nil) {
		val, found := zt, x.st.False
		for _, e := range m.M.Entries {
			hit := x.st.BAnd(e.Present, x.keyEq(mt.Key(), e.K, k))
			val = x.st.Ite(hit, e.V.(*smt.Term), val)
			found = x.st.BOr(found, hit)
		}
		return val, found
	}
	// walk entries from newest to oldest; decide matches by branching (keeps values concrete)
	for idx := len(m.M.Entries) - 1; idx >= 0; idx-- {
		e := m.M.Entries[idx]
		c := x.st.BAnd(e.Present, x.keyEq(mt.Key(), e.K, k))
		if x.Branch(c) {
			return e.V, x.st.True
		}
	}
	return zero, x.st.False
}

func (x *Exec) mapUpdate(m MapRef, k, v Value) {
	if m.M == nil {
		x.goPanic("assignment to entry in nil map")
	}
	x.frozenMapWrite(m.M)
	if scalarMap(m.M, v) {
		vt := v.(*smt.Term)
		any := x.st.False
		for _, e := range m.M.Entries {
			hit := x.st.BAnd(e.Present, x.keyEq(m.M.KT, e.K, k))
			e.V = x.st.Ite(hit, vt, e.V.(*smt.Term))
			any = x.st.BOr(any, hit)
		}
		if !any.IsTrue() {
			m.M.Entries = append(m.M.Entries, &mapEntry{K: k, V: v, Present: x.st.BNot(any)})
		}
		return
	}
	for _, e := range m.M.Entries {
		c := x.st.BAnd(e.Present, x.keyEq(m.M.KT, e.K, k))
		if x.Branch(c) {
			e.V = v
			return
		}
	}
	m.M.Entries = append(m.M.Entries, &mapEntry{K: k, V: v, Present: x.st.True})
}

func (x *Exec) mapDelete(m MapRef, k Value) {
	if m.M == nil {
		return
	}
	x.frozenMapWrite(m.M)
	for _, e := range m.M.Entries {
		hit := x.st.BAnd(e.Present, x.keyEq(m.M.KT, e.K, k))
		e.Present = x.st.BAnd(e.Present, x.st.BNot(hit))
	}
}

func (x *Exec) mapLen(m MapRef) *smt.Term {
	r := x.c64(0)
	if m.M == nil {
		return r
	}
	for _, e := range m.M.Entries {
		r = x.st.Add(r, x.st.BoolToBV(e.Present, 64))
	}
	return r
}

func (x *Exec) rangeStart(v Value, t types.Type) Value {
	switch u := v.(type) {
	case MapRef:
		it := &RangeIter{M: u.M}
		if u.M != nil {
			it.Ents = append(it.Ents, u.M.Entries...)
		}
		return it
	case Str:
		s := u
		return &RangeIter{S: &s}
	}
	x.notEncoded("range over %s", t)
	return nil
}

func (x *Exec) rangeNext(it *RangeIter, n *ssa.Next) Value {
	tt := n.Type().(*types.Tuple)
	if n.IsString {
		s := *it.S
		ln := int(x.Concretize(s.Len))
		if it.Pos >= ln {
			return Tuple{x.st.False, x.c64(0), x.st.Const(32, 0)}
		}
		b := x.byteIdx(s.P, it.Pos)
		// ASCII fast path only; multi-byte needs concrete bytes
		if x.Branch(x.st.Ult(b, x.st.Const(8, 0x80))) {
			pos := it.Pos
			it.Pos++
			return Tuple{x.st.True, x.c64(int64(pos)), x.st.ZExt(b, 32)}
		}
		x.notEncoded("range over string with non-ASCII symbolic byte")
	}
	for it.Pos < len(it.Ents) {
		e := it.Ents[it.Pos]
		it.Pos++
		if x.Branch(e.Present) {
			return Tuple{x.st.True, e.K, e.V}
		}
	}
	return Tuple{x.st.False, x.zero(tt.At(1).Type()), x.zero(tt.At(2).Type())}
}
