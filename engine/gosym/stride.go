package gosym

import "verif/engine/smt"

// termStride returns a number that is known to divide every value of t (1 if nothing is known):
// used to enumerate only the aligned candidate offsets of a symbolic pointer such as
// base + i*sizeof(T) computed through uintptr arithmetic.
func termStride(t *smt.Term) int {
	switch t.Op {
	case smt.OpConst:
		if t.Val == 0 {
			return 0 // gcd identity
		}
		if t.Val < 1<<20 {
			return int(t.Val)
		}
	case smt.OpShl:
		if c := t.Args[1]; c.IsConst() && c.Val < 20 {
			s := termStride(t.Args[0])
			if s == 0 {
				return 0
			}
			return s << uint(c.Val)
		}
	case smt.OpMul:
		a, b := termStride(t.Args[0]), termStride(t.Args[1])
		if a == 0 || b == 0 {
			return 0
		}
		if a*b < 1<<20 {
			return a * b
		}
	case smt.OpAdd:
		return gcd(termStride(t.Args[0]), termStride(t.Args[1]))
	case smt.OpZExt, smt.OpSExt:
		return termStride(t.Args[0])
	case smt.OpIte:
		return gcd(termStride(t.Args[1]), termStride(t.Args[2]))
	}
	return 1
}
