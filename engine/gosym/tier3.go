package gosym

import (
	"fmt"
	"strings"

	"verif/engine/smt"
)

// Tier 3 harnesses: properties of the code the JIT assemblers emit, decided on the dumped
// instruction lists. Entry state of a typed decoder (regabi):
//   AX=s.ptr BX=s.len CX=ic DI=vp SI=sb R8=fv ; frame object with SP at its top.

type t3env struct {
	x      *Exec
	p      *AsmProg
	st     *AsmState
	input  *Object // the JSON text
	n      *smt.Term
	maxN   int
	vp     *Object
	sb     *Object
	frame  *Object
	ic0    *smt.Term
	errHit string
}

const t3FrameSize = 1024

func (x *Exec) t3Setup(p *AsmProg, nmax int, alphabet []byte, destSize int) *t3env {
	e := &t3env{x: x, p: p, st: NewAsmState(), maxN: nmax}
	s := x.st
	// input text: nmax symbolic bytes over the alphabet, symbolic length
	e.n = x.newInput("len", 64)
	x.assume(s.Ule(e.n, x.c64(int64(nmax))))
	x.setRange(e.n, 0, uint64(nmax))
	e.input = x.newBytes(nmax, "input")
	e.input.LSize = e.n
	e.input.ReadOnly = true
	for i := 0; i < nmax; i++ {
		b := x.newInput(fmt.Sprintf("in[%d]", i), 8)
		if len(alphabet) > 0 {
			c := s.False
			for _, a := range alphabet {
				c = s.BOr(c, s.Eq(b, s.Const(8, uint64(a))))
			}
			x.assume(c)
		}
		e.input.Cells[i] = &cell{1, b}
	}
	e.vp = x.newObject(destSize, nil, "dest")
	for i := 0; i < destSize; i++ {
		e.vp.Cells[i] = &cell{1, s.Const(8, 0xAA)}
	}
	e.sb = x.newObject(1<<17, nil, "jit-stack")
	e.frame = x.newObject(t3FrameSize, nil, "frame")
	e.ic0 = x.newInput("ic", 64)
	x.assume(s.Ule(e.ic0, e.n))
	x.setRange(e.ic0, 0, uint64(nmax))
	st := e.st
	st.R["AX"] = Ptr{Obj: e.input, Off: x.c64(0)}
	st.R["BX"] = e.n
	st.R["CX"] = e.ic0
	st.R["DI"] = Ptr{Obj: e.vp, Off: x.c64(0)}
	st.R["SI"] = Ptr{Obj: e.sb, Off: x.c64(0)}
	st.R["R8"] = x.newInput("flags", 64)
	st.R["SP"] = Ptr{Obj: e.frame, Off: x.c64(t3FrameSize - 128)}
	st.R["BP"] = x.c64(0)
	st.R["R14"] = SymAddr{"g", 0xdead0000} // goroutine pointer register
	st.X["X15"] = s.Const(64, 0)
	return e
}

func isJSONSpace(s *smt.Store, b *smt.Term) *smt.Term {
	return s.OrAll(s.Eq(b, s.Const(8, ' ')), s.Eq(b, s.Const(8, '\t')), s.Eq(b, s.Const(8, '\n')), s.Eq(b, s.Const(8, '\r')))
}

// model of native lspace(sp, nb, p): first index >= p that is not a JSON space, or nb.
func (e *t3env) callLspace(st *AsmState) {
	x := e.x
	s := x.st
	sp, ok := st.R["DI"].(Ptr)
	if !ok {
		x.notEncoded("lspace: sp is not a pointer")
	}
	nb := x.asmTerm(st.R["SI"])
	p := x.asmTerm(st.R["DX"])
	res := nb
	for i := e.maxN - 1; i >= 0; i-- {
		ci := x.c64(int64(i))
		b := x.byteIdx(sp, i)
		cand := s.BAnd(s.BAnd(s.Ule(p, ci), s.Ult(ci, nb)), s.BNot(isJSONSpace(s, b)))
		res = s.Ite(cand, ci, res)
	}
	st.R["AX"] = res
}

func (e *t3env) clobberCallerSaved() {
	for _, r := range []string{"CX", "DX", "SI", "DI", "R8", "R9", "R10", "R11"} {
		e.st.R[r] = e.x.junk(64)
	}
}

// T3LspaceMonitor: on every typed decoder, whenever the inline whitespace skipper of an
// _OP_lspace finishes (label _lspace_N), the bytes it skipped are exactly JSON white space
// and it stopped at the first non-space byte (C01/C02: no byte other than space, \t, \n, \r
// is ever treated as insignificant between tokens).
func T3LspaceMonitor(p *AsmProg) func(x *Exec) {
	return func(x *Exec) {
		e := x.t3Setup(p, 6, []byte{' ', '\t', '\n', '1', 'I', '`', ',', 0xA0}, 16)
		s := x.st
		reached := false
		hooks := AsmHooks{
			OnIns: func(st *AsmState, in *AsmIns) bool {
				x.asmPos = fmt.Sprintf("%s#%d(%s)", p.Name, in.I, in.Op)
				for _, l := range in.L {
					if strings.HasPrefix(l, "_lspace_") {
						reached = true
						ic := x.asmTerm(st.R["R11"])
						// every byte in [ic0, ic) is a JSON space; the byte at ic is not
						ok := s.BAnd(s.Ule(e.ic0, ic), s.Ule(ic, e.n))
						for i := 0; i < e.maxN; i++ {
							ci := x.c64(int64(i))
							b := x.byteIdx(Ptr{Obj: e.input, Off: x.c64(0)}, i)
							skipped := s.BAnd(s.Ule(e.ic0, ci), s.Ult(ci, ic))
							ok = s.BAnd(ok, s.Implies(skipped, isJSONSpace(s, b)))
							at := s.BAnd(s.Eq(ci, ic), s.Ult(ci, e.n))
							ok = s.BAnd(ok, s.Implies(at, s.BNot(isJSONSpace(s, b))))
						}
						// witness preference: the skipper stopped on a digit that is the last byte, and the
						// start offset is 0, so that the real decoder goes on to succeed on the replayed text
						pref := s.BAnd(s.Eq(e.ic0, x.c64(0)), s.Eq(s.Add(ic, x.c64(1)), e.n))
						for i := 0; i < e.maxN; i++ {
							b := x.byteIdx(Ptr{Obj: e.input, Off: x.c64(0)}, i)
							pref = s.BAnd(pref, s.Implies(s.Eq(x.c64(int64(i)), ic), s.Eq(b, s.Const(8, '1'))))
						}
						x.modelPrefer = pref
						x.check(ok, "assert", "generated decoder treats a byte that is not JSON white space as white space between tokens (or stops before the first token)")
						x.modelPrefer = nil
						x.covers["lspace-done"] = true
						return false
					}
				}
				return true
			},
			OnCall: func(st *AsmState, sym SymAddr) bool {
				if sym.Name == "native.lspace" {
					e.callLspace(st)
					e.clobberCallerSaved()
					return true
				}
				if strings.Contains(sym.Name, "/errors.Error") {
					e.errHit = sym.Name // an error value is being built: the decoder is on its way out
					return true
				}
				return false
			},
		}
		inner := hooks.OnIns
		hooks.OnIns = func(st *AsmState, in *AsmIns) bool {
			if e.errHit != "" {
				return false
			}
			return inner(st, in)
		}
		x.RunAsm(p, e.st, hooks, 4000)
		if e.errHit != "" && !reached {
			// the only error that may precede the first token is end-of-input: everything
			// from the start offset to the end must then be white space
			ok := s.True
			for i := 0; i < e.maxN; i++ {
				ci := x.c64(int64(i))
				b := x.byteIdx(Ptr{Obj: e.input, Off: x.c64(0)}, i)
				ok = s.BAnd(ok, s.Implies(s.BAnd(s.Ule(e.ic0, ci), s.Ult(ci, e.n)), isJSONSpace(s, b)))
			}
			x.check(ok, "assert", "generated decoder reports an error while skipping white space although a token follows")
			x.covers["eof-error"] = true
		}
	}
}

// T3Float32Range: the generated float32 decoder accepts a parsed double exactly when its
// correctly rounded float32 value is finite, and stores that value (C19/C01).
func T3Float32Range(p *AsmProg) func(x *Exec) {
	return func(x *Exec) {
		e := x.t3Setup(p, 2, []byte{'1'}, 16)
		s := x.st
		x.assume(s.Eq(e.ic0, x.c64(0)))
		x.assume(s.Eq(e.n, x.c64(2)))
		dv := x.newInput("double", 64)
		x.assume(s.BNot(s.FP(smt.OpFPIsNaN, 0, dv)))
		x.assume(s.Ne(s.And(dv, s.Const(64, 0x7ff0000000000000)), s.Const(64, 0x7ff0000000000000))) // finite
		rangeErr := false
		hooks := AsmHooks{
			OnIns: func(st *AsmState, in *AsmIns) bool {
				x.asmPos = fmt.Sprintf("%s#%d(%s)", p.Name, in.I, in.Op)
				for _, l := range in.L {
					if l == "_range_error" {
						rangeErr = true
						return false
					}
					if strings.HasPrefix(l, "_f32_end_") {
						return false
					}
				}
				return true
			},
			OnCall: func(st *AsmState, sym SymAddr) bool {
				switch sym.Name {
				case "native.lspace":
					e.callLspace(st)
					e.clobberCallerSaved()
					return true
				case "native.vnumber":
					// contract: *DX = JsonState{Vt: V_DOUBLE(8), Dv: arbitrary finite double}, *SI = new cursor
					stp, ok := st.R["DX"].(Ptr)
					if !ok {
						x.notEncoded("vnumber: state pointer")
					}
					// the scratch digit buffer the native parser falls back to when the fast paths cannot
					// decide the rounding: it must lie in the decoder's stack object and hold the 767
					// significant digits (plus one) that decide halfway cases of float64 literals
					if dbp, isp := x.loadLeafP(stp, 32, 8, lkPtr).(Ptr); !isp || dbp.Obj != e.sb {
						x.check(x.st.False, "assert", "the digit buffer handed to native vnumber is not inside the decoder stack")
					}
					dcap := x.asmTerm(x.loadLeafP(stp, 40, 8, lkInt))
					x.check(x.st.Uge(dcap, x.c64(768)), "assert", "the digit buffer handed to native vnumber holds fewer than 768 digits: long literals near a rounding midpoint are truncated and rounded the wrong way")
					x.check(x.st.Ule(dcap, x.c64(800)), "assert", "the digit capacity handed to native vnumber exceeds the 800-byte buffer of the decoder stack")
					x.covers["digit-buffer"] = true
					x.storeLeafP(stp, 0, 8, x.c64(8))
					x.storeLeafP(stp, 8, 8, dv)
					icp, ok := st.R["SI"].(Ptr)
					if !ok {
						x.notEncoded("vnumber: cursor pointer")
					}
					x.storeLeafP(icp, 0, 8, e.n)
					e.clobberCallerSaved()
					st.R["AX"] = x.junk(64)
					return true
				}
				return false
			},
		}
		x.RunAsm(p, e.st, hooks, 4000)
		r32 := s.FP(smt.OpFPCvt, 32, dv)
		isInf := s.Eq(s.And(r32, s.Const(32, 0x7fffffff)), s.Const(32, 0x7f800000))
		if rangeErr {
			x.check(isInf, "assert", "generated float32 decoder rejects a literal whose rounded float32 value is finite (e.g. 3.4028235e38)")
			x.covers["range-error"] = true
		} else {
			x.check(s.BNot(isInf), "assert", "generated float32 decoder accepts a literal beyond the float32 range")
			got := x.asmTerm(x.loadLeaf(e.vp, 0, 4, lkInt))
			x.check(s.Eq(got, r32), "assert", "generated float32 decoder stores a value other than the correctly rounded float32")
			x.covers["stored"] = true
		}
	}
}

// T3IntRange: the generated decoder for a narrow integer type stores exactly the parsed
// integer when it is in range and reports a range error otherwise (no wrap-around).
func T3IntRange(p *AsmProg, bits int, signed bool, native string) func(x *Exec) {
	return func(x *Exec) {
		e := x.t3Setup(p, 2, []byte{'1'}, 16)
		s := x.st
		x.assume(s.Eq(e.ic0, x.c64(0)))
		x.assume(s.Eq(e.n, x.c64(2)))
		iv := x.newInput("integer", 64)
		rangeErr, done := false, false
		hooks := AsmHooks{
			OnIns: func(st *AsmState, in *AsmIns) bool {
				x.asmPos = fmt.Sprintf("%s#%d(%s)", p.Name, in.I, in.Op)
				for _, l := range in.L {
					if l == "_range_error" {
						rangeErr = true
						return false
					}
					if l == "_jump_pc_3" || l == "_jump_pc_4" {
						if st.Steps > 30 {
							done = true
							return false
						}
					}
				}
				return true
			},
			OnCall: func(st *AsmState, sym SymAddr) bool {
				switch sym.Name {
				case "native.lspace":
					e.callLspace(st)
					e.clobberCallerSaved()
					return true
				case native:
					// contract: *DX = JsonState{Vt: V_INTEGER(9), Iv: arbitrary 64-bit integer}
					stp, ok := st.R["DX"].(Ptr)
					if !ok {
						x.notEncoded("%s: state pointer", native)
					}
					x.storeLeafP(stp, 0, 8, x.c64(9))
					x.storeLeafP(stp, 16, 8, iv)
					if icp, ok := st.R["SI"].(Ptr); ok {
						x.storeLeafP(icp, 0, 8, e.n)
					}
					e.clobberCallerSaved()
					st.R["AX"] = x.junk(64)
					return true
				}
				return false
			},
		}
		x.RunAsm(p, e.st, hooks, 4000)
		var inRange *smt.Term
		if signed {
			lo := x.c64(-(int64(1) << uint(bits-1)))
			hi := x.c64((int64(1) << uint(bits-1)) - 1)
			inRange = s.BAnd(s.Sle(lo, iv), s.Sle(iv, hi))
		} else {
			if bits == 64 {
				inRange = s.True
			} else {
				inRange = s.Ule(iv, s.Const(64, (uint64(1)<<uint(bits))-1))
			}
		}
		switch {
		case rangeErr:
			x.check(s.BNot(inRange), "assert", "generated integer decoder reports a range error for a value that fits the destination")
			x.covers["range-error"] = true
		case done:
			x.check(inRange, "assert", "generated integer decoder accepts a value outside the destination's range (it would be wrapped)")
			got := x.asmTerm(x.loadLeaf(e.vp, 0, bits/8, lkInt))
			x.check(s.Eq(got, s.Extract(iv, bits-1, 0)), "assert", "generated integer decoder stores a value other than the parsed integer")
			x.covers["stored"] = true
		}
	}
}
