package gosym

import (
	"fmt"
	"strings"

	"verif/engine/smt"
)

// T3ArrayDecode: functional check of the code generated for a fixed-size array of integers
// ([N]int). The whole program is executed on a symbolic input text; the native integer parser
// and skip routine are contracts (arbitrary value, arbitrary progress). For every path that
// leaves the program without an error:
//   - "null" leaves the destination untouched,
//   - otherwise element i holds the i-th parsed integer for every parsed element, and every
//     element that was not parsed is zero (encoding/json zeroes the tail of an array).
func T3ArrayDecode(p *AsmProg, elems int) func(x *Exec) {
	return func(x *Exec) {
		const nmax = 7
		e := x.t3Setup(p, nmax, []byte{'[', ']', ',', ' ', '1', 'n', 'u', 'l'}, 8*elems)
		s := x.st
		x.assume(s.Eq(e.ic0, x.c64(0)))
		// the destination starts with stale non-zero data
		stale := make([]*smt.Term, elems)
		for i := 0; i < elems; i++ {
			stale[i] = x.newInput(fmt.Sprintf("stale[%d]", i), 64)
			x.assume(s.Ne(stale[i], x.c64(0)))
			x.storeLeaf(e.vp, 8*i, 8, stale[i])
		}
		endLabel := fmt.Sprintf("_jump_pc_%d", len(p.Program))
		// a type mismatch is recorded by dismatch_err and reported at the end: an error path
		mismatchLabel := ""
		for i, op := range p.Program {
			if strings.HasPrefix(strings.TrimSpace(op), "dismatch_err") {
				mismatchLabel = fmt.Sprintf("_jump_pc_%d", i)
			}
		}
		// every element ends with the program's `load` op: by then it was either parsed by
		// vsigned (lastIv) or it was a null, which leaves the element as it was
		loadLabels := map[string]bool{}
		for i, op := range p.Program {
			if strings.TrimSpace(op) == "load" {
				loadLabels[fmt.Sprintf("_jump_pc_%d", i)] = true
			}
		}
		var parsed []*smt.Term // nil entry: null element
		var lastIv *smt.Term
		nints := 0
		opened, finished, failed := false, false, false
		hooks := AsmHooks{
			OnIns: func(st *AsmState, in *AsmIns) bool {
				x.asmPos = fmt.Sprintf("%s#%d(%s)", p.Name, in.I, in.Op)
				for _, l := range in.L {
					switch {
					case l == endLabel:
						finished = true
						return false
					case l == mismatchLabel:
						failed = true
						return false
					case loadLabels[l]:
						parsed = append(parsed, lastIv)
						lastIv = nil
					case l == "_error" || strings.HasSuffix(l, "_error") || l == "_parsing_error_v":
						failed = true
						return false
					}
				}
				return true
			},
			OnCall: func(st *AsmState, sym SymAddr) bool {
				switch {
				case sym.Name == "native.lspace":
					e.callLspace(st)
					e.clobberCallerSaved()
					return true
				case sym.Name == "native.vsigned":
					// contract: *DX = JsonState{Vt: V_INTEGER(9), Iv: arbitrary}, cursor *SI advances
					stp, ok1 := st.R["DX"].(Ptr)
					icp, ok2 := st.R["SI"].(Ptr)
					if !ok1 || !ok2 {
						x.notEncoded("vsigned: pointer arguments")
					}
					opened = true
					iv := x.newInput(fmt.Sprintf("int[%d]", nints), 64)
					nints++
					lastIv = iv
					p0 := x.asmTerm(x.loadLeafP(icp, 0, 8, lkInt))
					p1 := x.junk(64)
					x.assume(s.Ult(p0, p1))
					x.assume(s.Ule(p1, e.n))
					x.storeLeafP(icp, 0, 8, p1)
					x.storeLeafP(stp, 0, 8, x.c64(9))
					x.storeLeafP(stp, 16, 8, iv)
					e.clobberCallerSaved()
					st.R["AX"] = x.junk(64)
					return true
				case sym.Name == "native.skip_array" || sym.Name == "native.skip_one":
					// contract: skips the rest of the array / one value: cursor advances, AX >= 0; or error
					icp, ok := st.R["SI"].(Ptr)
					if !ok {
						x.notEncoded("%s: cursor pointer", sym.Name)
					}
					p0 := x.asmTerm(x.loadLeafP(icp, 0, 8, lkInt))
					p1 := x.junk(64)
					x.assume(s.Ult(p0, p1))
					x.assume(s.Ule(p1, e.n))
					x.storeLeafP(icp, 0, 8, p1)
					e.clobberCallerSaved()
					st.R["AX"] = p0
					return true
				case sym.Name == "go.runtime.memclrNoHeapPointers":
					ptr, ok := st.R["AX"].(Ptr)
					if !ok || ptr.Obj == nil {
						x.check(s.False, "assert", "memclr of a non-pointer")
						x.abort(abEnd, "memclr")
					}
					n := int(int64(x.Concretize(x.asmTerm(st.R["BX"]))))
					if n < 0 || n > 8*elems {
						x.check(s.False, "assert", "generated array decoder clears more than the array")
						x.abort(abEnd, "memclr")
					}
					for i := 0; i < n; i++ {
						x.storeLeafP(ptr, i, 1, s.Const(8, 0))
					}
					for _, r := range []string{"AX", "BX", "CX", "DX", "SI", "DI", "R8", "R9", "R10", "R11"} {
						st.R[r] = x.junk(64)
					}
					return true
				case strings.Contains(sym.Name, "/errors.Error"):
					failed = true
					e.errHit = sym.Name
					return true
				}
				return false
			},
		}
		inner := hooks.OnIns
		hooks.OnIns = func(st *AsmState, in *AsmIns) bool {
			if e.errHit != "" {
				return false
			}
			return inner(st, in)
		}
		x.RunAsm(p, e.st, hooks, 6000)
		if !finished || failed {
			if failed {
				x.covers["error"] = true
			}
			return
		}
		x.asmPos = p.Name + " at exit"
		// the first token decides: a '[' was consumed iff the text does not start with null
		first := s.Const(8, 0)
		for i := nmax - 1; i >= 0; i-- {
			b := x.byteIdx(Ptr{Obj: e.input, Off: x.c64(0)}, i)
			first = s.Ite(s.BAnd(s.BNot(isJSONSpace(s, b)), s.Ult(x.c64(int64(i)), e.n)), b, first)
		}
		isNull := s.Eq(first, s.Const(8, 'n'))
		_ = opened
		for i := 0; i < elems; i++ {
			got := x.asmTerm(x.loadLeaf(e.vp, 8*i, 8, lkInt))
			var want *smt.Term
			switch {
			case i < len(parsed) && parsed[i] != nil:
				want = parsed[i]
			case i < len(parsed):
				want = stale[i] // a null element leaves what was there
			default:
				want = x.c64(0)
			}
			x.check(s.Implies(s.BNot(isNull), s.Eq(got, want)), "assert",
				fmt.Sprintf("generated [%d]int decoder leaves a wrong value in an element (parsed elements must hold their integer, all others must be zeroed)", elems))
			x.check(s.Implies(isNull, s.Eq(got, stale[i])), "assert", "generated array decoder changes the destination on null")
		}
		if len(parsed) == 0 {
			x.covers["empty-or-null"] = true
		}
		if len(parsed) == elems {
			x.covers["full"] = true
		}
		if len(parsed) > 0 && len(parsed) < elems {
			x.covers["short"] = true
		}
	}
}
