package gosym

import (
	"fmt"
	"strings"
)

// T3Base64Cap: generated []byte decoder (_OP_bin). The buffer handed to the base64 decoder is
// an allocation at least as large as its declared capacity, and that capacity has room for
// everything the decoder can produce from the string: 6 bits per input byte, i.e. at most
// floor(3*len/4) bytes (C06: no write beyond the destination; C05).
func T3Base64Cap(p *AsmProg) func(x *Exec) {
	return func(x *Exec) {
		const nmax = 24
		e := x.t3Setup(p, nmax, []byte{'"', 'A'}, 24)
		s := x.st
		x.assume(s.Eq(e.ic0, x.c64(0)))
		x.assume(s.Uge(e.n, x.c64(3)))
		x.assume(s.Eq(x.byteIdx(Ptr{Obj: e.input, Off: x.c64(0)}, 0), s.Const(8, '"')))
		x.assume(s.Ne(x.byteIdx(Ptr{Obj: e.input, Off: x.c64(0)}, 1), s.Const(8, '"'))) // non-empty string
		strend := x.newInput("strend", 64)                                            // cursor after the closing quote
		b64len := x.newInput("b64len", 64)
		called := false
		hooks := AsmHooks{
			OnIns: func(st *AsmState, in *AsmIns) bool {
				x.asmPos = fmt.Sprintf("%s#%d(%s)", p.Name, in.I, in.Op)
				return !called
			},
			OnCall: func(st *AsmState, sym SymAddr) bool {
				switch {
				case sym.Name == "native.lspace":
					e.callLspace(st)
					e.clobberCallerSaved()
					return true
				case sym.Name == "native.vstring":
					// contract: string body [*p, p'-1), *p = p' (after the closing quote),
					// v = JsonState{Vt: V_STRING(7), Iv: old *p, Ep: -1 (no escapes)}
					icp, ok1 := st.R["SI"].(Ptr)
					stp, ok2 := st.R["DX"].(Ptr)
					if !ok1 || !ok2 {
						x.notEncoded("vstring: pointer arguments")
					}
					p0 := x.asmTerm(x.loadLeafP(icp, 0, 8, lkInt))
					x.assume(s.Ult(p0, strend))
					x.assume(s.Ule(strend, e.n))
					x.storeLeafP(icp, 0, 8, strend)
					x.storeLeafP(stp, 0, 8, x.c64(7))
					x.storeLeafP(stp, 16, 8, p0)
					x.storeLeafP(stp, 24, 8, x.c64(-1))
					e.clobberCallerSaved()
					st.R["AX"] = x.junk(64)
					return true
				case sym.Name == "go.runtime.mallocgc":
					size := x.asmTerm(st.R["AX"])
					o := x.newBytes(nmax, "mallocgc")
					x.assume(s.Ule(size, x.c64(nmax)))
					o.LSize = size
					e.clobberCallerSaved()
					st.R["AX"] = Ptr{Obj: o, Off: x.c64(0)}
					return true
				case strings.HasSuffix(sym.Name, "_b64decode"):
					out, ok := st.R["DI"].(Ptr)
					if !ok {
						x.notEncoded("b64decode: out pointer")
					}
					n := x.asmTerm(st.R["DX"])
					x.assume(s.Eq(b64len, n))
					if mj, ok := p.Consts["MODE_JSON"]; ok {
						// the text comes from a JSON string: escapes inside it (\/ \n \u00XX) are
						// resolved by the decoder only in JSON mode, whatever the CPU level (C13)
						mode := x.asmTerm(st.R["CX"])
						x.check(s.Ne(s.And(mode, x.c64(mj)), x.c64(0)), "assert", "base64 decoder is called without JSON mode: escaped base64 text is rejected (on this CPU level only)")
					}
					buf, ok := x.loadLeafP(out, 0, 8, lkUintptr).(Ptr)
					if !ok || buf.Obj == nil {
						x.check(s.False, "assert", "base64 decoder is handed a non-pointer output buffer")
						x.abort(abEnd, "b64")
					}
					capT := x.asmTerm(x.loadLeafP(out, 16, 8, lkInt))
					lenT := x.asmTerm(x.loadLeafP(out, 8, 8, lkInt))
					x.check(s.Eq(lenT, x.c64(0)), "assert", "base64 decoder output slice does not start empty")
					room := s.Sub(x.objLSize(buf.Obj), buf.Off)
					x.check(s.Ule(capT, room), "assert", "declared capacity of the base64 output buffer exceeds its allocation")
					maxw := s.LShr(s.Mul(n, x.c64(3)), x.c64(2))
					x.modelPrefer = s.Eq(s.And(n, x.c64(3)), x.c64(3))
					x.check(s.Ule(maxw, capT), "assert", "base64 output buffer is smaller than what the decoder can produce from the text (write past the allocation, len > cap)")
					x.modelPrefer = nil
					x.covers["b64decode"] = true
					called = true
					return true
				}
				return false
			},
		}
		x.RunAsm(p, e.st, hooks, 4000)
	}
}
