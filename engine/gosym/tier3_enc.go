package gosym

import (
	"fmt"
	"strings"

	"verif/engine/smt"
)

// Tier 3 on the encoder's x86 assembler (internal/encoder/x86): buffer-bounds monitor.
//
// T3EncBufferBounds runs the code generated for a string-carrying type on an output buffer of
// symbolic length and capacity and an input string of symbolic length whose quoting expands by
// an arbitrary legal amount. The buffer is an object whose logical size is its capacity, so
// every store the generated code makes into it is bounds-checked by the memory model; the
// windows it hands to natives are checked at the call (C06: nothing is written past the
// capacity of the destination).
func T3EncBufferBounds(p *AsmProg, kind string) func(x *Exec) {
	return func(x *Exec) {
		kind := kind // re-parsed on every path: the kind is rewritten below
		s := x.st
		// "omitempty:<bits>[f]": a struct with one omitempty scalar field of that width
		omitW, omitFloat := 0, false
		var omitLen *smt.Term // length word of an omitempty string / []byte field
		omitLenKind := ""
		if kind == "omitempty:string" || kind == "omitempty:bytes" {
			omitLenKind = strings.TrimPrefix(kind, "omitempty:")
			kind = omitLenKind
		}
		if strings.HasPrefix(kind, "omitempty:") {
			w := strings.TrimPrefix(kind, "omitempty:")
			if strings.HasSuffix(w, "f") {
				omitFloat = true
				w = strings.TrimSuffix(w, "f")
			}
			fmt.Sscanf(w, "%d", &omitW)
			kind = "scalar"
		}
		// "outlen:<t>,<f>": a struct with one bool field; the text has <t> bytes when the field is
		// true and <f> bytes when it is false (which decides whether, and under which name
		// length, the field's tag made it a member)
		outT, outF := -1, -1
		outTextT, outTextF := "", ""
		if strings.HasPrefix(kind, "outlen:") {
			spec := strings.TrimPrefix(kind, "outlen:")
			if i := strings.IndexByte(spec, ';'); i >= 0 {
				// the expected texts themselves: "<true text>|<false text>"
				tf := strings.SplitN(spec[i+1:], "|", 2)
				outTextT, outTextF = tf[0], tf[1]
				spec = spec[:i]
			}
			fmt.Sscanf(spec, "%d,%d", &outT, &outF)
			kind = "scalar"
		}
		var scalarIn *smt.Term
		const capMax = 160
		const strMax = 4
		st := NewAsmState()
		frame := x.newObject(t3FrameSize, nil, "frame")
		st.R["SP"] = Ptr{Obj: frame, Off: x.c64(512)}
		st.R["BP"] = x.c64(0)
		st.R["R14"] = SymAddr{"g", 0xdead0000}
		st.X["X15"] = s.Const(64, 0)

		// output buffer: cap0 <= 12, len0 <= cap0
		cap0 := x.newInput("cap", 64)
		len0 := x.newInput("len", 64)
		if outTextT != "" {
			// the text itself is compared: start from an empty buffer, so that every store of the
			// generated code lands at a concrete offset
			x.assume(s.Eq(len0, x.c64(0)))
			len0 = x.c64(0)
		}
		x.assume(s.Ule(cap0, x.c64(12)))
		x.assume(s.Ule(len0, cap0))
		x.setRange(cap0, 0, 12)
		x.setRange(len0, 0, 12)
		buf := x.newBytes(capMax, "outbuf")
		buf.LSize = cap0
		buf.Junk = func(off int) *smt.Term { return x.junk(8) }
		rb := x.newObject(24, nil, "rb")
		x.storeLeaf(rb, 0, 8, Ptr{Obj: buf, Off: x.c64(0)})
		x.storeLeaf(rb, 8, 8, len0)
		x.storeLeaf(rb, 16, 8, cap0)

		// the value: a non-nil string of 0..strMax bytes (content irrelevant: quote is a contract)
		slen := x.newInput("strlen", 64)
		x.assume(s.Ule(slen, x.c64(strMax)))
		x.setRange(slen, 0, strMax)
		str := x.newBytes(strMax, "string")
		str.LSize = slen
		str.ReadOnly = true
		for i := 0; i < strMax; i++ {
			str.Cells[i] = &cell{1, x.junk(8)}
		}
		hdr := x.newObject(16, nil, "string-header")
		x.storeLeaf(hdr, 0, 8, Ptr{Obj: str, Off: x.c64(0)})
		x.storeLeaf(hdr, 8, 8, slen)
		// every source string the generated code may quote, with what the quoter consumed so far
		srcs := map[*Object]*t3src{str: {length: slen, consumed: x.c64(0)}}
		var vp Ptr
		sliceN, marshalerCalls := -1, 0
		switch kind {
		case "string", "qstring":
			vp = Ptr{Obj: hdr, Off: x.c64(0)}
		case "slice_string":
			// []string with 0..2 elements, each a string of 0..2 bytes
			n := int(x.Concretize(func() *smt.Term {
				t := x.newInput("elems", 64)
				x.assume(s.Ule(t, x.c64(2)))
				return t
			}()))
			arr := x.newObject(16*2, nil, "string-array")
			for i := 0; i < n; i++ {
				el := x.newInput(fmt.Sprintf("elemlen[%d]", i), 64)
				x.assume(s.Ule(el, x.c64(2)))
				x.setRange(el, 0, 2)
				eo := x.newBytes(2, fmt.Sprintf("elem%d", i))
				eo.LSize = el
				eo.ReadOnly = true
				eo.Cells[0], eo.Cells[1] = &cell{1, x.junk(8)}, &cell{1, x.junk(8)}
				x.storeLeaf(arr, 16*i, 8, Ptr{Obj: eo, Off: x.c64(0)})
				x.storeLeaf(arr, 16*i+8, 8, el)
				srcs[eo] = &t3src{length: el, consumed: x.c64(0)}
			}
			sh := x.newObject(24, nil, "slice-header")
			x.storeLeaf(sh, 0, 8, Ptr{Obj: arr, Off: x.c64(0)})
			x.storeLeaf(sh, 8, 8, x.c64(int64(n)))
			x.storeLeaf(sh, 16, 8, x.c64(2))
			vp = Ptr{Obj: sh, Off: x.c64(0)}
		case "slice_marshaler":
			// a slice of 0..2 eight-byte elements whose pointer type implements a marshaler
			sliceN = int(x.Concretize(func() *smt.Term {
				t := x.newInput("elems", 64)
				x.assume(s.Ule(t, x.c64(2)))
				return t
			}()))
			arr := x.newObject(8*2, nil, "elem-array")
			for i := 0; i < sliceN; i++ {
				x.storeLeaf(arr, 8*i, 8, x.newInput(fmt.Sprintf("elem[%d]", i), 64))
			}
			sh := x.newObject(24, nil, "slice-header")
			x.storeLeaf(sh, 0, 8, Ptr{Obj: arr, Off: x.c64(0)})
			x.storeLeaf(sh, 8, 8, x.c64(int64(sliceN)))
			x.storeLeaf(sh, 16, 8, x.c64(2))
			vp = Ptr{Obj: sh, Off: x.c64(0)}
		case "bytes":
			// []byte of 0..6 bytes
			bl := x.newInput("byteslen", 64)
			if omitLenKind == "bytes" {
				omitLen = bl
			}
			x.assume(s.Ule(bl, x.c64(6)))
			x.setRange(bl, 0, 6)
			bo := x.newBytes(6, "bytes")
			bo.LSize = bl
			bo.Junk = func(off int) *smt.Term { return x.junk(8) }
			sh := x.newObject(24, nil, "slice-header")
			x.storeLeaf(sh, 0, 8, Ptr{Obj: bo, Off: x.c64(0)})
			x.storeLeaf(sh, 8, 8, bl)
			x.storeLeaf(sh, 16, 8, x.c64(6))
			vp = Ptr{Obj: sh, Off: x.c64(0)}
		case "scalar", "marshaler":
			// an 8-byte scalar (integer of any width, float, bool in the low byte): arbitrary bits
			sc := x.newObject(8, nil, "scalar")
			scalarIn = x.newInput("scalar", 64)
			x.storeLeaf(sc, 0, 8, scalarIn)
			vp = Ptr{Obj: sc, Off: x.c64(0)}
		default:
			x.notEncoded("tier-3 encoder harness: unknown value kind %q", kind)
		}
		stack := x.newObject(8192, nil, "encoder-stack")
		st.R["AX"] = Ptr{Obj: rb, Off: x.c64(0)}
		st.R["BX"] = vp
		st.R["CX"] = Ptr{Obj: stack, Off: x.c64(0)}
		st.R["DI"] = x.newInput("flags", 64)

		cur := buf // the current output buffer (replaced by GrowSlice)
		nospace, ncalls := 0, 0
		marshalerCalled := false
		returned := false
		var dbgTrace []int
		clobber := func(as *AsmState, regs ...string) {
			for _, r := range regs {
				as.R[r] = x.junk(64)
			}
		}
		hooks := AsmHooks{
			OnIns: func(as *AsmState, in *AsmIns) bool {
				x.asmPos = fmt.Sprintf("%s#%d(%s)", p.Name, in.I, in.Op)
				dbgTrace = append(dbgTrace, in.I)
				if in.Op == "RET" {
					returned = true
					return false
				}
				return true
			},
			OnCall: func(as *AsmState, sym SymAddr) bool {
				if sliceN >= 0 && strings.HasPrefix(sym.Name, "native.") {
					// the element type's own method produces the text: a native formatter reached
					// from here means the element is being encoded field by field
					x.check(s.False, "assert", "the elements of a slice whose pointer type implements a marshaler interface are encoded without calling the method")
					x.abort(abEnd, "slice element encoded natively")
				}
				switch {
				case sym.Name == "native.quote":
					// quote(sp DI, nb SI, dp DX, dn *CX, flags R8): writes at most *dn bytes at dp,
					// stores the number written to *dn; returns nb when everything was consumed
					// (then at least one byte per input byte was written), else ~consumed
					dp, ok1 := as.R["DX"].(Ptr)
					dnp, ok2 := as.R["CX"].(Ptr)
					if !ok1 || !ok2 || dp.Obj == nil {
						x.check(s.False, "assert", "native quote is called with a non-pointer destination")
						x.abort(abEnd, "quote")
					}
					nb := x.asmTerm(as.R["SI"])
					// the input window is exactly the part of the string not consumed by earlier
					// rounds: nothing quoted twice, nothing skipped, nothing read past the end
					var src *t3src
					if sp, ok := as.R["DI"].(Ptr); ok && srcs[sp.Obj] != nil {
						src = srcs[sp.Obj]
						x.check(s.BAnd(s.Eq(sp.Off, src.consumed), s.Eq(nb, s.Sub(src.length, src.consumed))), "assert",
							"native quote is resumed with an input window that is not the unconsumed rest of the string (part of it is quoted twice, skipped, or read past its end)")
					} else {
						x.check(s.False, "assert", "native quote is given an input pointer outside the string being encoded")
						x.abort(abEnd, "quote")
					}
					avail := x.asmTerm(x.loadLeafP(dnp, 0, 8, lkInt))
					room := s.Sub(x.objLSize(dp.Obj), dp.Off)
					x.check(s.BAnd(s.Ule(dp.Off, x.objLSize(dp.Obj)), s.Ule(avail, room)), "assert",
						"native quote is given an output window that extends past the capacity of the buffer")
					m := x.junk(64)
					x.assume(s.Ule(m, avail))
					ncalls++
					fits := x.newInput(fmt.Sprintf("quoteFits%d", ncalls), 8)
					if x.Branch(s.Eq(fits, s.Const(8, 1))) {
						x.assume(s.Uge(m, nb))
						clobber(as, "CX", "DX", "SI", "DI", "R8", "R9", "R10", "R11")
						as.R["AX"] = nb
					} else {
						nospace++
						if nospace > 2 {
							x.abort(abEnd, "quote retry bound")
						}
						k := x.junk(64)
						x.assume(s.Ult(k, nb))
						src.consumed = s.Add(src.consumed, k)
						clobber(as, "CX", "DX", "SI", "DI", "R8", "R9", "R10", "R11")
						as.R["AX"] = s.Not(k)
					}
					x.storeLeafP(dnp, 0, 8, m)
					return true
				case sym.Name == "native.i64toa" || sym.Name == "native.u64toa":
					// xtoa(out DI, val SI) -> number of bytes written: the decimal digits of val
					// (and a sign for negative int64)
					dp, ok := as.R["DI"].(Ptr)
					if !ok || dp.Obj == nil {
						x.check(s.False, "assert", "native integer formatter is called with a non-pointer destination")
						x.abort(abEnd, "xtoa")
					}
					val := x.asmTerm(as.R["SI"])
					mag := val
					sign := x.c64(0)
					if sym.Name == "native.i64toa" {
						neg := s.Slt(val, x.c64(0))
						mag = s.Ite(neg, s.Neg(val), val)
						sign = s.Ite(neg, x.c64(1), x.c64(0))
					}
					digits := x.c64(1)
					pow := uint64(10)
					for d := 2; d <= 20; d++ {
						digits = s.Ite(s.Uge(mag, s.Const(64, pow)), x.c64(int64(d)), digits)
						if d < 20 {
							pow *= 10
						}
					}
					n := s.Add(digits, sign)
					room := s.Sub(x.objLSize(dp.Obj), dp.Off)
					x.check(s.BAnd(s.Ule(dp.Off, x.objLSize(dp.Obj)), s.Ule(n, room)), "assert",
						"the space reserved before the native integer formatter is smaller than the digits of the value it is given")
					clobber(as, "CX", "DX", "SI", "DI", "R8", "R9", "R10", "R11")
					as.R["AX"] = n
					x.covers["formatted"] = true
					return true
				case sym.Name == "native.f64toa" || sym.Name == "native.f32toa":
					// ftoa(out DI, val X0) -> bytes written: at most 24 for a float64, 15 for a float32
					// (shortest round-trip representation, sign and exponent included)
					dp, ok := as.R["DI"].(Ptr)
					if !ok || dp.Obj == nil {
						x.check(s.False, "assert", "native float formatter is called with a non-pointer destination")
						x.abort(abEnd, "ftoa")
					}
					maxn := int64(24)
					if sym.Name == "native.f32toa" {
						maxn = 15
					}
					n := x.junk(64)
					x.assume(s.Uge(n, x.c64(1)))
					x.assume(s.Ule(n, x.c64(maxn)))
					room := s.Sub(x.objLSize(dp.Obj), dp.Off)
					x.check(s.BAnd(s.Ule(dp.Off, x.objLSize(dp.Obj)), s.Ule(x.c64(maxn), room)), "assert",
						"the space reserved before the native float formatter is smaller than its longest output")
					clobber(as, "CX", "DX", "SI", "DI", "R8", "R9", "R10", "R11")
					as.R["AX"] = n
					x.covers["formatted"] = true
					return true
				case sym.Name == "native.b64encode":
					// b64encode(out *[]byte DI, src *[]byte SI, mode DX): appends 4*ceil(len(src)/3)
					// bytes at out.ptr+out.len and adds that to out.len; it does not grow the slice
					outp, ok1 := as.R["DI"].(Ptr)
					srcp, ok2 := as.R["SI"].(Ptr)
					if !ok1 || !ok2 || outp.Obj == nil || srcp.Obj == nil {
						x.check(s.False, "assert", "native b64encode is called with non-pointer arguments")
						x.abort(abEnd, "b64encode")
					}
					bp, okb := x.loadLeafP(outp, 0, 8, lkUintptr).(Ptr)
					ol := x.asmTerm(x.loadLeafP(outp, 8, 8, lkInt))
					oc := x.asmTerm(x.loadLeafP(outp, 16, 8, lkInt))
					sl := x.asmTerm(x.loadLeafP(srcp, 8, 8, lkInt))
					if !okb || bp.Obj == nil {
						x.check(s.False, "assert", "native b64encode output slice has no storage")
						x.abort(abEnd, "b64encode")
					}
					n := s.Mul(s.UDiv(s.Add(sl, x.c64(2)), x.c64(3)), x.c64(4))
					x.check(s.BAnd(s.Ule(oc, s.Sub(x.objLSize(bp.Obj), bp.Off)), s.Ule(s.Add(ol, n), oc)), "assert",
						"the space reserved before native b64encode is smaller than the base64 text of the value")
					x.storeLeafP(outp, 8, 8, s.Add(ol, n))
					clobber(as, "AX", "CX", "DX", "SI", "DI", "R8", "R9", "R10", "R11")
					x.covers["formatted"] = true
					return true
				case strings.HasSuffix(sym.Name, "prim.EncodeJsonMarshaler") || strings.HasSuffix(sym.Name, "prim.EncodeTextMarshaler"):
					// the user's marshaler runs: arbitrary success / failure, buffer handled through rb
					marshalerCalled = true
					marshalerCalls++
					clobber(as, "CX", "DX", "SI", "DI", "R8", "R9", "R10", "R11")
					as.R["AX"] = x.c64(0)
					as.R["BX"] = x.c64(0)
					return true
				case strings.HasSuffix(sym.Name, "/rt.GrowSlice"):
					// GrowSlice(et AX, old{ptr BX, len CX, cap DI}, cap SI) -> {ptr AX, len BX, cap CX}:
					// a fresh buffer with the old length and a capacity of at least the requested one
					if pp, isp := as.R["SI"].(Ptr); isp && pp.Obj != nil {
						x.notEncoded("GrowSlice: SI is a pointer into %s trace=%v", pp.Obj.Name, dbgTrace)
					}
					if pp, isp := as.R["CX"].(Ptr); isp && pp.Obj != nil {
						x.notEncoded("GrowSlice: CX is a pointer into %s", pp.Obj.Name)
					}
					want := x.asmTerm(as.R["SI"])
					oldLen := x.asmTerm(as.R["CX"])
					x.assume(s.Ule(want, x.c64(capMax))) // larger requests are outside the bound
					ncap := x.junk(64)
					x.assume(s.Uge(ncap, want))
					x.assume(s.Ule(ncap, x.c64(capMax)))
					nb := x.newBytes(capMax, "grown")
					nb.Junk = func(off int) *smt.Term { return x.junk(8) }
					if outTextT != "" {
						// the text is compared at the end: the grown buffer starts with the old content
						// (only the first 16 bytes are ever compared)
						oldL := cur.LSize
						cur.LSize = nil
						x.copyBytes(Ptr{Obj: nb, Off: x.c64(0)}, Ptr{Obj: cur, Off: x.c64(0)}, oldLen, 16)
						cur.LSize = oldL
					}
					nb.LSize = ncap
					cur = nb
					clobber(as, "DX", "SI", "DI", "R8", "R9", "R10", "R11")
					as.R["AX"] = Ptr{Obj: nb, Off: x.c64(0)}
					as.R["BX"] = oldLen
					as.R["CX"] = ncap
					x.covers["grown"] = true
					return true
				}
				return false
			},
		}
		x.RunAsm(p, st, hooks, 3000)
		if returned {
			// the length written back never exceeds the capacity of the buffer handed back
			l := x.asmTerm(x.loadLeaf(rb, 8, 8, lkInt))
			c := x.asmTerm(x.loadLeaf(rb, 16, 8, lkInt))
			x.check(s.Ule(l, c), "assert", "encoder returns a buffer whose length exceeds its capacity")
			x.check(s.Ule(c, x.objLSize(cur)), "assert", "encoder returns a buffer whose capacity exceeds its allocation")
			x.covers["returned"] = true
			if omitLenKind == "string" {
				omitLen = slen
			}
			if omitLen != nil {
				omitted := s.Eq(s.Sub(l, len0), x.c64(2))
				x.check(s.Eq(omitted, s.Eq(omitLen, x.c64(0))), "assert", "an omitempty string / []byte field is left out although it is not empty, or written although it is empty")
				x.covers["omitempty"] = true
			}
			if omitW > 0 {
				// the field is left out (the object is "{}": two bytes) exactly when it holds the
				// zero value of its type: every bit of its width counts (for floats, -0 may go
				// either way: it decodes to a value equal to zero)
				omitted := s.Eq(s.Sub(l, len0), x.c64(2))
				low := s.Extract(scalarIn, omitW-1, 0)
				isZero := s.Eq(low, s.Const(omitW, 0))
				valueZero := isZero
				if omitFloat {
					valueZero = s.Eq(s.Extract(scalarIn, omitW-2, 0), s.Const(omitW-1, 0))
				}
				x.check(s.Implies(omitted, valueZero), "assert", "an omitempty field holding a non-zero value is left out of the output (the emptiness test looks at fewer bytes than the field has)")
				x.check(s.Implies(isZero, omitted), "assert", "an omitempty field holding the zero value is written")
				x.covers["omitempty"] = true
			}
			if outT >= 0 {
				bit := s.Extract(scalarIn, 7, 0)
				x.assume(s.Ule(bit, s.Const(8, 1)))
				n := s.Sub(l, len0)
				x.check(s.Implies(s.Eq(bit, s.Const(8, 1)), s.Eq(n, x.c64(int64(outT)))), "assert", "the text written for a one-field struct (field true) does not have the length its tag calls for")
				x.check(s.Implies(s.Eq(bit, s.Const(8, 0)), s.Eq(n, x.c64(int64(outF)))), "assert", "the text written for a one-field struct (field false) does not have the length its tag calls for")
				if outTextT != "" {
					// with an empty buffer to start from, the text itself is what the tag calls for
					oldL := cur.LSize
					cur.LSize = nil
					for _, c := range []struct {
						b    int64
						text string
					}{{1, outTextT}, {0, outTextF}} {
						eq := s.True
						for i := 0; i < len(c.text); i++ {
							eq = s.BAnd(eq, s.Eq(x.byteIdx(Ptr{Obj: cur, Off: x.c64(0)}, i), s.Const(8, uint64(c.text[i]))))
						}
						x.check(s.Implies(s.BAnd(s.Eq(len0, x.c64(0)), s.BAnd(s.Eq(bit, s.Const(8, uint64(c.b))), s.Eq(n, x.c64(int64(len(c.text)))))), eq), "assert", "the text written for a one-field struct is not the member its json tag calls for (name or value differ)")
					}
					cur.LSize = oldL
					x.covers["outtext"] = true
				}
				x.covers["outlen"] = true
			}
			if kind == "slice_marshaler" {
				// slice elements are addressable: the pointer-receiver method encodes every element
				x.check(s.Bool(marshalerCalls == sliceN), "assert", "the elements of a slice whose pointer type implements a marshaler interface are encoded without calling the method")
				if marshalerCalls == sliceN && sliceN > 0 {
					x.covers["marshaler-called"] = true
				}
			}
			if kind == "marshaler" {
				// a map (or any non-pointer, non-interface) value whose type implements a marshaler
				// interface is encoded by calling the method - also when the map is nil, as
				// encoding/json does; only nil pointers and nil interfaces become null
				x.check(s.Bool(marshalerCalled), "assert", "a value whose type implements a marshaler interface is encoded without calling the method (a nil map becomes null)")
				if marshalerCalled {
					x.covers["marshaler-called"] = true
				}
			}
		}
	}
}
