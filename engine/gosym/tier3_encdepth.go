package gosym

import (
	"fmt"
)

// T3EncDepthRule decides, on the instruction list of a generated encoder, for which stack
// pointers its state-saving sequence (save_state) accepts one more state. Both encoder back ends
// must apply the same rule (C12): a push is accepted exactly when, afterwards, the stack pointer
// is still below MaxStack*StateSize - i.e. at most MaxStack-1 states are ever held. The
// interpreter's vars.(*Stack).Push is held to the same rule by VerifC12StackLimit. An accepted
// push writes its state inside the Stack object (C07).
func T3EncDepthRule(p *AsmProg) func(x *Exec) {
	return func(x *Exec) {
		s := x.st
		limit, ok := p.Consts["stack_limit"]
		if !ok {
			x.notEncoded("dump carries no stack_limit constant")
		}
		// MOVQ (ST), CX ; LEAQ S(CX), R9 ; CMPQ R9, $limit ; Jcc _error_too_deep
		k := -1
		for i := 1; i+2 < len(p.Ins); i++ {
			q := &p.Ins[i]
			if q.Op == "LEAQ" && q.F.K == "mem" && q.F.R == "CX" && q.T.K == "reg" && q.T.R == "R9" &&
				p.Ins[i-1].Op == "MOVQ" && p.Ins[i-1].F.K == "mem" && p.Ins[i-1].T.R == "CX" && p.Ins[i+1].Op == "CMPQ" {
				k = i
				break
			}
		}
		deep, ok2 := p.labels["_error_too_deep"]
		if k < 0 || !ok2 {
			x.notEncoded("program has no save_state sequence")
		}
		size := int64(p.Ins[k].F.O)
		stReg := p.Ins[k-1].F.R
		sp := x.newInput("sp", 64)
		x.assume(s.Ule(sp, x.c64(limit)))
		x.assume(s.Eq(s.URem(sp, x.c64(size)), x.c64(0)))
		stack := x.newObject(8, nil, "encoder-stack-sp")
		x.storeLeaf(stack, 0, 8, sp)
		st := NewAsmState()
		frame := x.newObject(t3FrameSize, nil, "frame")
		st.R["SP"] = Ptr{Obj: frame, Off: x.c64(512)}
		st.R[stReg] = Ptr{Obj: stack, Off: x.c64(0)}
		st.PC = k - 1
		accepted, refused := false, false
		x.RunAsm(p, st, AsmHooks{OnIns: func(as *AsmState, in *AsmIns) bool {
			x.asmPos = fmt.Sprintf("%s#%d(%s)", p.Name, in.I, in.Op)
			if in.I == deep {
				refused = true
				return false
			}
			if in.I == k+3 {
				accepted = true
				return false
			}
			return true
		}}, 20)
		rule := s.Ult(s.Add(sp, x.c64(size)), x.c64(limit))
		switch {
		case accepted:
			x.check(rule, "assert", "the generated encoder accepts a push that leaves the stack pointer at (or beyond) the limit: the interpreter refuses it, the two back ends disagree at the maximum depth")
			// the slot written: [8+sp, 8+sp+size) inside the Stack object of 8+limit bytes
			x.check(s.Ule(s.Add(sp, x.c64(8+size)), x.c64(8+limit)), "assert", "the generated encoder saves a state past the end of the Stack object")
			x.covers["accepted"] = true
		case refused:
			x.check(s.BNot(rule), "assert", "the generated encoder refuses a push that the interpreter accepts: the two back ends disagree at the maximum depth")
			x.covers["refused"] = true
		default:
			x.notEncoded("save_state window left without a decision")
		}
	}
}
