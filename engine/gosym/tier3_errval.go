package gosym

import (
	"fmt"
)

// T3EncTooDeepError: the generated encoder's "value nests too deep" exit returns the
// package's own error value: the data word of the returned error interface is the pointer held
// in vars.ERR_too_deep (so Error() reads a real message), not some other address (C07: every
// returned error is usable).
func T3EncTooDeepError(p *AsmProg) func(x *Exec) {
	return func(x *Exec) {
		s := x.st
		want, ok := p.Consts["ERR_too_deep"]
		start, ok2 := p.labels["_error_too_deep"]
		if !ok || !ok2 {
			x.notEncoded("dump carries no ERR_too_deep constant / label")
		}
		st := NewAsmState()
		frame := x.newObject(t3FrameSize, nil, "frame")
		st.R["SP"] = Ptr{Obj: frame, Off: x.c64(512)}
		st.X["X15"] = s.Const(64, 0)
		rb := x.newObject(24, nil, "rb")
		// the frame slot holding rb (read by the epilogue): find it from the prologue's first store of AX
		for i := 0; i < 8 && i < len(p.Ins); i++ {
			q := &p.Ins[i]
			if q.Op == "MOVQ" && q.F.K == "reg" && q.F.R == "AX" && q.T.K == "mem" && q.T.R == "SP" {
				// prologue runs after SUBQ: same SP as here once we start below it
				x.storeLeaf(frame, 512+int(q.T.O), 8, Ptr{Obj: rb, Off: x.c64(0)})
				break
			}
		}
		st.R["SI"] = x.junk(64)
		st.PC = start
		returned := false
		hooks := AsmHooks{OnIns: func(as *AsmState, in *AsmIns) bool {
			x.asmPos = fmt.Sprintf("%s#%d(%s)", p.Name, in.I, in.Op)
			if in.Op == "RET" {
				returned = true
				return false
			}
			return true
		}}
		x.RunAsm(p, st, hooks, 200)
		if !returned {
			x.notEncoded("too-deep exit does not reach RET")
		}
		ep := st.R["BX"]
		var got uint64
		switch v := ep.(type) {
		case SymAddr:
			got = v.Addr
		default:
			t := x.asmTerm(ep)
			if !t.IsConst() {
				x.check(s.False, "assert", "too-deep exit returns a non-constant error value")
				return
			}
			got = t.Val
		}
		x.check(s.Bool(got == uint64(want)), "assert", "the generated encoder's too-deep exit returns an error whose data pointer is not vars.ERR_too_deep: Error() reads foreign memory")
		x.covers["returned"] = true
	}
}
