package gosym

import (
	"fmt"
	"strings"

	"verif/engine/smt"
)

// Tier 3 checks on the generic (interface{}) decoder emitted by
// jitdec/generic_regabi_amd64.go (_ValueDecoder).

func (x *Exec) t3Frame(st *AsmState) *Object {
	f := x.newObject(t3FrameSize, nil, "frame")
	st.R["SP"] = Ptr{Obj: f, Off: x.c64(256)}
	st.X["X15"] = x.st.Const(64, 0)
	return f
}

// runToHandler runs until an instruction labelled _decode_V_* is reached and returns the label.
func (x *Exec) runToHandler(p *AsmProg, st *AsmState, what string) string {
	found := ""
	hooks := AsmHooks{
		OnIns: func(st *AsmState, in *AsmIns) bool {
			x.asmPos = fmt.Sprintf("%s#%d(%s) [%s]", p.Name, in.I, in.Op, what)
			if st.Steps > 1 {
				for _, l := range in.L {
					if strings.HasPrefix(l, "_decode_V_") {
						found = l
						return false
					}
				}
			}
			return true
		},
	}
	x.RunAsm(p, st, hooks, 200)
	return found
}

// T3GenericTables: the generic decoder dispatches a token to the same handler whether it was
// recognised by the inline fast path (first byte looked up in _decode_tab) or by the native
// value() scanner after a long run of white space (_switch_table indexed by the token code):
// a structural character means the same thing however much white space precedes it (C02).
func T3GenericTables(p *AsmProg) func(x *Exec) {
	return func(x *Exec) {
		s := x.st
		b := x.newInput("byte", 8)
		type tok struct {
			c    byte
			code uint64
		}
		toks := []tok{{',', 11}, {':', 10}, {'[', 5}, {']', 12}, {'{', 6}, {'}', 13}}
		isTok := s.False
		code := s.Const(64, 0)
		for _, t := range toks {
			e := s.Eq(b, s.Const(8, uint64(t.c)))
			isTok = s.BOr(isTok, e)
			code = s.Ite(e, s.Const(64, t.code), code)
		}
		x.assume(isTok)
		fast, ok1 := p.labels["_decode_fast"]
		native := -1
		for i := range p.Ins {
			if p.Ins[i].Op == "MOVQ" && p.Ins[i].F.Y == "native.value" && i+2 < len(p.Ins) && p.Ins[i+1].Op == "CALL" {
				native = i + 2
			}
		}
		if !ok1 || native < 0 {
			x.notEncoded("generic decoder: entry points not found in the dump")
		}
		// A: inline fast path, AX = the byte
		stA := NewAsmState()
		x.t3Frame(stA)
		stA.PC = fast
		stA.R["AX"] = s.ZExt(b, 64)
		stA.R["R11"] = x.c64(0)
		ha := x.runToHandler(p, stA, "fast path")
		// B: after native value() returned with st.Vt = token code
		stB := NewAsmState()
		fr := x.t3Frame(stB)
		stB.PC = native
		x.storeLeaf(fr, 256+120, 8, code)
		x.storeLeaf(fr, 256+64, 8, x.c64(0))
		stB.R["AX"] = x.c64(1)
		hb := x.runToHandler(p, stB, "native path")
		if ha == "" || hb == "" {
			x.notEncoded("generic decoder: no handler reached (fast=%q native=%q)", ha, hb)
		}
		x.asmPos = p.Name + " dispatch tables"
		x.modelPrefer = nil
		x.check(s.Bool(ha == hb), "assert", fmt.Sprintf("generic decoder dispatches a structural character differently on the fast path (%s) and after native value() (%s): its meaning depends on the amount of preceding white space", ha, hb))
		x.covers["dispatch"] = true
	}
}

// T3GenericDepth: every store into the generic decoder's state stack ST.Vt[i] / ST.Vp[i] has
// i <= MAX_RECURSE-1, starting each stack-growing handler from an arbitrary legal depth
// (inductive step over the nesting depth: C07 "bounded value stack").
func T3GenericDepth(p *AsmProg) func(x *Exec) {
	return func(x *Exec) {
		s := x.st
		vtLen, vtOff, vpLen, vpOff := p.Consts["vt_len"], p.Consts["vt_off"], p.Consts["vp_len"], p.Consts["vp_off"]
		if vtLen <= 0 || vpLen <= 0 {
			x.notEncoded("generic decoder: the dump carries no state-stack layout")
		}
		maxRecurse := int(vtLen)
		sites := []string{"_decode_V_ARRAY", "_decode_V_OBJECT", "_object_key", "_array_append"}
		which := int(x.Concretize(func() *smt.Term {
			t := x.newInput("handler", 64)
			x.assume(s.Ult(t, x.c64(int64(len(sites)))))
			return t
		}()))
		start, ok := p.labels[sites[which]]
		if !ok {
			x.notEncoded("generic decoder: label %s not found", sites[which])
		}
		st := NewAsmState()
		x.t3Frame(st)
		st.PC = start
		// ST: Sp at 0, Vt[4096] at 8, Vp[4096] at 8+8*4096
		stObj := x.newObject(int(vpOff)+8*int(vpLen)+64, nil, "ST")
		sp := x.newInput("depth", 64)
		x.assume(s.Ult(sp, x.c64(int64(maxRecurse)))) // legal depths 0..MAX-1
		x.setRange(sp, 0, uint64(maxRecurse-1))
		stObj.Cells[0] = &cell{8, sp}
		st.R["R13"] = Ptr{Obj: stObj, Off: x.c64(0)}
		st.R["CX"] = sp // handlers are entered with CX = ST.Sp
		// everything else (value slots, the input, Go heap objects) is angelic memory
		st.Lenient = true
		st.Watch = "R13"
		stores := 0
		hooks := AsmHooks{
			OnIns: func(as *AsmState, in *AsmIns) bool {
				x.asmPos = fmt.Sprintf("%s#%d(%s) from %s", p.Name, in.I, in.Op, sites[which])
				if as.Steps > 1 {
					for _, l := range in.L {
						if l == "_next" || l == "_stack_overflow" || l == "_set_value" {
							return false // handler finished (or reported the overflow)
						}
					}
				}
				// a store through ST indexed by a register: ST.Vt (disp 8) or ST.Vp (disp 8+8*MAX)
				for _, o := range []*AsmOperand{&in.T} {
					if o.K == "mem" && o.R == "R13" && o.X != "" && o.S == 8 && in.Op != "CMPQ" && in.Op != "LEAQ" {
						idx := x.asmTerm(x.asmReg(as, o.X))
						var n int64
						switch o.O {
						case vtOff:
							n = vtLen
						case vpOff:
							n = vpLen
						default:
							x.notEncoded("generic decoder: indexed store through ST at unknown displacement %d", o.O)
						}
						stores++
						x.check(s.Ult(idx, x.c64(n)), "assert",
							fmt.Sprintf("generated code stores into the decoder's state stack at an index beyond its %d slots: the depth check lets one level too many through", n))
					}
				}
				return true
			},
			OnCall: func(as *AsmState, sym SymAddr) bool {
				// Go helpers (allocation, write barrier, growslice ...): result pointer fresh,
				// every caller-saved register clobbered; the JIT reloads what it needs from its frame
				if strings.HasPrefix(sym.Name, "go.") {
					for _, r := range []string{"AX", "BX", "CX", "DX", "SI", "DI", "R8", "R9", "R10", "R11"} {
						as.R[r] = x.junk(64)
					}
					return true
				}
				return false
			},
		}
		func() {
			defer func() {
				if r := recover(); r != nil {
					if pa, ok := r.(pathAbort); ok && pa.kind == abNotEncoded && stores > 0 {
						// past the stack stores the handlers go on into allocation details that this
						// window does not model: what was to be checked has been checked
						x.note("t3-depth-window-ended:" + pa.msg)
						return
					}
					panic(r)
				}
			}()
			x.RunAsm(p, st, hooks, 400)
		}()
		if stores > 0 {
			x.covers["stack-store:"+sites[which]] = true
		}
	}
}
