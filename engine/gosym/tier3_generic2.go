package gosym

import (
	"fmt"
	"strings"
)

// T3GenericBlankLoads: the generic (interface{}) decoder's token loop skips up to four white
// space bytes inline before it dispatches on the next byte. Every byte it loads lies inside the
// input (the input object has exactly len(s) readable bytes), for every input of up to 8 bytes
// and every cursor position: nothing after the input is read, so the result cannot depend on
// what follows it in memory (C05).
func T3GenericBlankLoads(p *AsmProg) func(x *Exec) {
	return func(x *Exec) {
		const nmax = 8
		e := x.t3Setup(p, nmax, []byte{' ', '\t', '1', ']'}, 16)
		start, ok := p.labels["_next"]
		if !ok {
			x.notEncoded("generic decoder: label _next not found")
		}
		st := e.st
		st.PC = start
		st.R["R10"] = Ptr{Obj: e.input, Off: x.c64(0)}
		st.R["R11"] = e.ic0
		st.R["R12"] = e.n
		stObj := x.newObject(64, nil, "ST")
		x.storeLeaf(stObj, 0, 8, x.c64(0))
		st.R["R13"] = Ptr{Obj: stObj, Off: x.c64(0)}
		reached := ""
		hooks := AsmHooks{
			OnIns: func(as *AsmState, in *AsmIns) bool {
				x.asmPos = fmt.Sprintf("%s#%d(%s)", p.Name, in.I, in.Op)
				if as.Steps > 1 {
					for _, l := range in.L {
						if l == "_decode_fast" || l == "_decode_native" || strings.HasPrefix(l, "_decode_V_") {
							reached = l
							return false
						}
					}
				}
				return true
			},
		}
		x.RunAsm(p, st, hooks, 400)
		if reached != "" {
			x.covers["dispatched"] = true
		}
		if reached == "_decode_V_EOF" {
			x.covers["eof"] = true
		}
	}
}
