package gosym

import (
	"fmt"
	"strings"

	"verif/engine/smt"
)

// T3MapKeyRange: the code generated for an integer map key (_OP_map_key_u32 etc.) accepts the
// parsed integer exactly when it fits the key type and hands exactly that key to mapassign
// (C19: no silent wrap). The window runs from the opcode's label to the mapassign call or the
// range error; the native parser is a contract (arbitrary 64-bit result).
func T3MapKeyRange(p *AsmProg, opName string, bits int, native string) func(x *Exec) {
	return func(x *Exec) {
		e := x.t3Setup(p, 4, []byte{'"', '1'}, 16)
		s := x.st
		x.assume(s.Eq(e.ic0, x.c64(0)))
		start := -1
		for i, op := range p.Program {
			if strings.HasPrefix(strings.TrimSpace(op), opName) {
				if l, ok := p.labels[fmt.Sprintf("_jump_pc_%d", i)]; ok {
					start = l
					break
				}
			}
		}
		if start < 0 {
			x.notEncoded("program has no %s", opName)
		}
		// prologue: up to the first program instruction
		x.RunAsm(p, e.st, AsmHooks{OnIns: func(st *AsmState, in *AsmIns) bool {
			for _, l := range in.L {
				if l == "_jump_pc_0" {
					return false
				}
			}
			return true
		}}, 200)
		e.st.PC = start
		e.st.Steps = 0
		iv := x.newInput("integer", 64)
		rangeErr, assigned := false, false
		hooks := AsmHooks{
			OnIns: func(st *AsmState, in *AsmIns) bool {
				x.asmPos = fmt.Sprintf("%s#%d(%s)", p.Name, in.I, in.Op)
				if st.Steps > 1 {
					for _, l := range in.L {
						if l == "_range_error" {
							rangeErr = true
							return false
						}
						if strings.HasSuffix(l, "_error") || l == "_error" || l == "_skip_one" {
							return false
						}
					}
				}
				return !assigned
			},
			OnCall: func(st *AsmState, sym SymAddr) bool {
				switch {
				case sym.Name == native:
					stp, ok := st.R["DX"].(Ptr)
					icp, ok2 := st.R["SI"].(Ptr)
					if !ok || !ok2 {
						x.notEncoded("%s: pointer arguments", native)
					}
					x.storeLeafP(stp, 0, 8, x.c64(9))
					x.storeLeafP(stp, 16, 8, iv)
					p0 := x.asmTerm(x.loadLeafP(icp, 0, 8, lkInt))
					p1 := x.junk(64)
					x.assume(s.Ult(p0, p1))
					x.assume(s.Ule(p1, e.n))
					x.storeLeafP(icp, 0, 8, p1)
					e.clobberCallerSaved()
					st.R["AX"] = x.junk(64)
					return true
				case strings.HasPrefix(sym.Name, "go.runtime.mapassign"):
					key := x.asmTerm(st.R["CX"])
					inRange := s.True
					if bits < 64 {
						inRange = s.Ule(iv, s.Const(64, (uint64(1)<<uint(bits))-1))
					}
					x.check(inRange, "assert", "generated map-key decoder accepts an integer outside the key type's range (the key is wrapped)")
					x.check(s.Eq(s.Extract(key, bits-1, 0), s.Extract(iv, bits-1, 0)), "assert", "generated map-key decoder inserts a key other than the parsed integer")
					x.covers["assigned"] = true
					assigned = true
					return true
				}
				return false
			},
		}
		x.RunAsm(p, e.st, hooks, 2000)
		if rangeErr {
			notIn := s.False
			if bits < 64 {
				notIn = s.Ugt(iv, s.Const(64, (uint64(1)<<uint(bits))-1))
			}
			x.check(notIn, "assert", "generated map-key decoder reports a range error for a key that fits the key type")
			x.covers["range-error"] = true
		}
	}
}

// AsmOp is one instruction of the decoder's program IR as dumped next to the machine-level list.
type AsmOp struct {
	Op string `json:"op"`
	B  int    `json:"b"`
	I  int    `json:"i"`
	S  []int  `json:"s"`
}

// newBoolJunk: an arbitrary truth value (undefined flag bits).
func (x *Exec) newBoolJunk() *smt.Term { return x.junk(0) }

// t3src: a source string the generated encoder may hand to the native quoter.
type t3src struct {
	length   *smt.Term
	consumed *smt.Term
}
