package gosym

import (
	"fmt"
	"strings"

	"verif/engine/smt"
)

// T3SliceDecode: functional check of the code generated for []int. The whole program runs on a
// symbolic text; vsigned / skip are contracts; makeslice, GrowSlice and memclr are modelled on
// real objects (GrowSlice copies the old elements and leaves the rest undefined, as the
// runtime does for pointer-free element types). On every path that ends without an error:
//   - null leaves a nil slice, "[]" an empty non-nil one,
//   - otherwise len is the number of elements consumed, cap >= len, element i holds the i-th
//     parsed integer (a null element: zero in fresh storage, untouched in reused storage).
// The destination starts nil or as a slice of capacity 1 holding stale data (storage reuse and
// growth are both crossed with 2+ elements).
func T3SliceDecode(p *AsmProg) func(x *Exec) {
	return func(x *Exec) {
		const nmax = 9
		e := x.t3Setup(p, nmax, []byte{'[', ']', ',', '1', 'n', 'u', 'l'}, 24)
		s := x.st
		x.assume(s.Eq(e.ic0, x.c64(0)))
		if len(p.Ops) == 0 {
			x.notEncoded("dump carries no structured program")
		}
		// destination header
		var stale *smt.Term
		var old *Object
		if x.Branch(s.Eq(x.newInput("reuse", 8), s.Const(8, 1))) {
			old = x.newObject(8, nil, "old-backing")
			stale = x.newInput("stale", 64)
			x.assume(s.Ne(stale, x.c64(0)))
			x.storeLeaf(old, 0, 8, stale)
			x.storeLeaf(e.vp, 0, 8, Ptr{Obj: old, Off: x.c64(0)})
			x.storeLeaf(e.vp, 8, 8, x.c64(1))
			x.storeLeaf(e.vp, 16, 8, x.c64(1))
			x.covers["reused-storage"] = true
		} else {
			x.storeLeaf(e.vp, 0, 8, x.c64(0))
			x.storeLeaf(e.vp, 8, 8, x.c64(0))
			x.storeLeaf(e.vp, 16, 8, x.c64(0))
			x.covers["nil-destination"] = true
		}
		loadLabels := map[string]bool{}
		for i, o := range p.Ops {
			if o.Op == "load" {
				loadLabels[fmt.Sprintf("_jump_pc_%d", i)] = true
			}
		}
		endLabel := fmt.Sprintf("_jump_pc_%d", len(p.Ops))
		mismatchLabel := ""
		for i, o := range p.Ops {
			if o.Op == "dismatch_err" {
				mismatchLabel = fmt.Sprintf("_jump_pc_%d", i)
			}
		}
		var parsed []*smt.Term
		var lastIv *smt.Term
		nints := 0
		finished, failed, grew := false, false, false
		clob := func(st *AsmState) {
			for _, r := range []string{"AX", "BX", "CX", "DX", "SI", "DI", "R8", "R9", "R10", "R11"} {
				st.R[r] = x.junk(64)
			}
		}
		hooks := AsmHooks{
			OnIns: func(st *AsmState, in *AsmIns) bool {
				x.asmPos = fmt.Sprintf("%s#%d(%s)", p.Name, in.I, in.Op)
				for _, l := range in.L {
					switch {
					case l == endLabel:
						finished = true
						return false
					case l == mismatchLabel:
						failed = true
						return false
					case loadLabels[l]:
						parsed = append(parsed, lastIv)
						lastIv = nil
					case l == "_error" || strings.HasSuffix(l, "_error") || l == "_parsing_error_v":
						failed = true
						return false
					}
				}
				return true
			},
			OnCall: func(st *AsmState, sym SymAddr) bool {
				switch {
				case sym.Name == "native.lspace":
					e.callLspace(st)
					e.clobberCallerSaved()
					return true
				case sym.Name == "native.vsigned":
					stp, ok1 := st.R["DX"].(Ptr)
					icp, ok2 := st.R["SI"].(Ptr)
					if !ok1 || !ok2 {
						x.notEncoded("vsigned: pointer arguments")
					}
					iv := x.newInput(fmt.Sprintf("int[%d]", nints), 64)
					nints++
					lastIv = iv
					p0 := x.asmTerm(x.loadLeafP(icp, 0, 8, lkInt))
					p1 := x.junk(64)
					x.assume(s.Ult(p0, p1))
					x.assume(s.Ule(p1, e.n))
					x.storeLeafP(icp, 0, 8, p1)
					x.storeLeafP(stp, 0, 8, x.c64(9))
					x.storeLeafP(stp, 16, 8, iv)
					e.clobberCallerSaved()
					st.R["AX"] = x.junk(64)
					return true
				case sym.Name == "go.runtime.makeslice":
					// makeslice(et AX, len BX, cap CX): zeroed storage for cap elements
					c := int(int64(x.Concretize(x.asmTerm(st.R["CX"]))))
					if c < 0 || c > 64 {
						x.check(s.False, "assert", "generated slice decoder asks makeslice for an absurd capacity")
						x.abort(abEnd, "makeslice")
					}
					o := x.newObject(8*c, nil, "makeslice")
					for i := 0; i < c; i++ {
						x.storeLeaf(o, 8*i, 8, x.c64(0))
					}
					clob(st)
					st.R["AX"] = Ptr{Obj: o, Off: x.c64(0)}
					return true
				case strings.HasSuffix(sym.Name, "/rt.GrowSlice"):
					// GrowSlice(et AX, old{BX, CX len, DI cap}, newcap SI) -> {AX, BX len, CX cap}
					oldp, ok := st.R["BX"].(Ptr)
					ln := int(int64(x.Concretize(x.asmTerm(st.R["CX"]))))
					nc := int(int64(x.Concretize(x.asmTerm(st.R["SI"]))))
					if !ok || oldp.Obj == nil || ln < 0 || nc < ln || nc > 64 {
						x.check(s.False, "assert", "generated slice decoder calls GrowSlice with an inconsistent slice / capacity")
						x.abort(abEnd, "growslice")
					}
					o := x.newObject(8*nc, nil, "grown")
					for i := 0; i < nc; i++ {
						if i < ln {
							x.storeLeaf(o, 8*i, 8, x.loadLeafP(oldp, 8*i, 8, lkInt))
						} else {
							x.storeLeaf(o, 8*i, 8, x.junk(64)) // not zeroed by the runtime
						}
					}
					clob(st)
					st.R["AX"] = Ptr{Obj: o, Off: x.c64(0)}
					st.R["BX"] = x.c64(int64(ln))
					st.R["CX"] = x.c64(int64(nc))
					grew = true
					return true
				case sym.Name == "go.runtime.memclrNoHeapPointers":
					ptr, ok := st.R["AX"].(Ptr)
					if !ok || ptr.Obj == nil {
						x.check(s.False, "assert", "memclr of a non-pointer")
						x.abort(abEnd, "memclr")
					}
					n := int(int64(x.Concretize(x.asmTerm(st.R["BX"]))))
					if n < 0 || n > 8*64 {
						x.check(s.False, "assert", "generated slice decoder clears an absurd amount of memory")
						x.abort(abEnd, "memclr")
					}
					x.checkAccess(ptr, n, "memclr")
					for i := 0; i < n; i++ {
						x.storeLeafP(ptr, i, 1, s.Const(8, 0))
					}
					clob(st)
					return true
				case strings.Contains(sym.Name, "/errors.Error"):
					failed = true
					e.errHit = sym.Name
					return true
				}
				return false
			},
		}
		inner := hooks.OnIns
		hooks.OnIns = func(st *AsmState, in *AsmIns) bool {
			if e.errHit != "" {
				return false
			}
			return inner(st, in)
		}
		x.RunAsm(p, e.st, hooks, 8000)
		if failed {
			x.covers["error"] = true
		}
		if !finished || failed {
			return
		}
		x.asmPos = p.Name + " at exit"
		first := x.byteIdx(Ptr{Obj: e.input, Off: x.c64(0)}, 0)
		hp := x.loadLeaf(e.vp, 0, 8, lkUintptr)
		hl := x.asmTerm(x.loadLeaf(e.vp, 8, 8, lkInt))
		hc := x.asmTerm(x.loadLeaf(e.vp, 16, 8, lkInt))
		if r := x.sol.CheckWith(x.st, s.Eq(first, s.Const(8, 'n'))); r != smt.Unsat {
			// the text is null (no '[' was consumed: no element was parsed on this path)
			if len(parsed) == 0 {
				isNull := s.Eq(first, s.Const(8, 'n'))
				pz := s.True
				if pp, ok := hp.(Ptr); ok && pp.Obj != nil {
					pz = s.False
				} else {
					pz = s.Eq(x.asmTerm(hp), x.c64(0))
				}
				x.check(s.Implies(isNull, s.BAnd(pz, s.BAnd(s.Eq(hl, x.c64(0)), s.Eq(hc, x.c64(0))))), "assert", "generated []int decoder does not leave a nil slice for null")
				x.covers["null"] = true
			}
		}
		notNull := s.Ne(first, s.Const(8, 'n'))
		x.check(s.Implies(notNull, s.Eq(hl, x.c64(int64(len(parsed))))), "assert", "generated []int decoder: slice length differs from the number of elements in the document")
		x.check(s.Implies(notNull, s.Uge(hc, hl)), "assert", "generated []int decoder: slice capacity below its length")
		if len(parsed) > 0 {
			bp, ok := hp.(Ptr)
			if !ok || bp.Obj == nil {
				x.check(s.Implies(notNull, s.False), "assert", "generated []int decoder: non-empty slice without storage")
				return
			}
			for i, want := range parsed {
				got := x.asmTerm(x.loadLeafP(bp, 8*i, 8, lkInt))
				if want == nil {
					// a null element keeps what the storage held: stale data if the old backing is reused
					if i == 0 && old != nil && bp.Obj == old {
						want = stale
					} else if bp.Obj != old {
						continue // fresh or grown storage: zero or copied; not constrained here
					} else {
						continue
					}
				}
				x.check(s.Implies(notNull, s.Eq(got, want)), "assert", fmt.Sprintf("generated []int decoder: element %d differs from the integer parsed for it", i))
			}
			x.covers["elements"] = true
		} else {
			x.covers["empty"] = true
		}
		if grew {
			x.covers["grown"] = true
		}
	}
}
