package gosym

import (
	"encoding/json"
	"fmt"
	"sort"
	"strings"

	"verif/engine/smt"
)

// T3StructSyntax: token monitor on the code generated for a struct type. The whole program is
// executed on a symbolic text; natives and Go helpers are contracts (arbitrary progress,
// arbitrary lookup result), unmodelled memory is angelic. The structural characters the
// program itself consumes are exact. From the order in which the program's ops are passed, the
// monitor reconstructs the token sequence the decoder accepted ({ " key : value , ... }), and
// on every path that ends without an error that sequence must spell a well-formed JSON
// document (encoding/json.Valid on the reconstructed text): no missing or extra separators,
// no trailing comma, balanced braces (C02, C01).
func T3StructSyntax(p *AsmProg, alphabet string) func(x *Exec) {
	return func(x *Exec) {
		const nmax = 16
		if alphabet == "" {
			alphabet = "{}\":,1n"
		}
		e := x.t3Setup(p, nmax, []byte(alphabet), 32)
		s := x.st
		x.assume(s.Eq(e.ic0, x.c64(0)))
		e.st.Lenient = true
		if len(p.Ops) == 0 {
			x.notEncoded("dump carries no structured program")
		}
		ops := p.Ops
		endOp := len(ops)
		var toks []byte
		prev := -1
		open := byte('{')
		hasOpen := false
		finished, failed, unmodelled := false, false, ""
		silent := map[string]bool{"lspace": true, "save": true, "load": true, "drop": true, "drop_2": true, "index": true, "goto": true,
			"slice_init": true, "slice_append": true, "map_init": true, "array_clear": true, "array_clear_p": true,
			"nil_1": true, "nil_2": true, "nil_3": true, "deref": true, "make_state": true}
		valueTok := func(op string) byte {
			switch {
			case op == "bool":
				return 'b'
			case op == "str" || op == "bin" || op == "num":
				return 't'
			case len(op) >= 2 && (op[0] == 'i' || op[0] == 'u' || op[0] == 'f') && op[1] >= '0' && op[1] <= '9':
				return 'i'
			}
			return 0
		}
		onOp := func(k int) {
			if prev >= 0 && prev < len(ops) {
				o := ops[prev]
				switch o.Op {
				case "check_char_0":
					open = byte(o.B)
					hasOpen = true
				case "add":
					if o.I == 1 && prev > 0 && k == prev+1 {
						toks = append(toks, open)
					}
				case "check_char", "check_empty":
					if k == o.I && k != prev+1 {
						toks = append(toks, byte(o.B))
					}
				case "array_skip":
					// skips the surplus elements and the closing bracket
					if k == prev+1 {
						toks = append(toks, 'R')
					}
				case "match_char":
					if k == prev+1 {
						toks = append(toks, byte(o.B))
					}
				case "is_null":
					if k == o.I && k != prev+1 {
						toks = append(toks, 'n')
					}
				case "struct_field":
					if k == prev+1 {
						toks = append(toks, 'K')
					}
				case "switch":
					name := byte('Z')
					for i, t := range o.S {
						if t == k && k != prev+1 {
							name = byte('A' + i)
						}
					}
					for i := len(toks) - 1; i >= 0; i-- {
						if toks[i] == 'K' {
							toks[i] = name
							break
						}
					}
				case "object_next":
					if k == prev+1 {
						toks = append(toks, 's')
					}
				case "skip_empty":
					// a struct without decodable fields: the whole value is skipped
					if k == o.I || k == prev+1 {
						toks = append(toks, 's')
					}
				case "dismatch_err", "go_skip":
					failed = true
				default:
					if strings.HasPrefix(o.Op, "map_key_") {
						// the key text and its closing quote are consumed inside the opcode
						if k == prev+1 {
							toks = append(toks, 'M')
						}
					} else if t := valueTok(o.Op); t != 0 {
						if k == prev+1 {
							toks = append(toks, t)
						}
					} else if !silent[o.Op] {
						unmodelled = o.Op
					}
				}
			}
			prev = k
		}
		hooks := AsmHooks{
			OnIns: func(st *AsmState, in *AsmIns) bool {
				x.asmPos = fmt.Sprintf("%s#%d(%s)", p.Name, in.I, in.Op)
				var ks []int
				for _, l := range in.L {
					if strings.HasPrefix(l, "_jump_pc_") {
						var k int
						fmt.Sscanf(l, "_jump_pc_%d", &k)
						ks = append(ks, k)
					} else if l == "_error" || strings.HasSuffix(l, "_error") || l == "_parsing_error_v" {
						failed = true
						return false
					}
				}
				sort.Ints(ks)
				for _, k := range ks {
					onOp(k)
					if k == endOp {
						finished = true
						return false
					}
				}
				if len(ks) > 0 && !failed {
					k := ks[len(ks)-1]
					if k < len(ops) && ops[k].Op == "struct_field" {
						// the key lookup (hashing, table probes, case-insensitive retry) is summarised:
						// the rest of the key string is consumed and the field index is arbitrary
						var slot *AsmOperand
						for j := in.I + 1; j < in.I+4 && j < len(p.Ins); j++ {
							q := &p.Ins[j]
							if q.Op == "MOVQ" && q.F.K == "reg" && q.F.R == "AX" && q.T.K == "mem" && q.T.R == "SP" {
								slot = &q.T
								break
							}
						}
						next, ok := p.labels[fmt.Sprintf("_jump_pc_%d", k+1)]
						if slot == nil || !ok {
							x.notEncoded("struct_field: cannot locate the result slot")
						}
						x.asmStoreMem(st, slot, 8, x.junk(64))
						ic := x.asmTerm(st.R["R11"])
						p1 := x.junk(64)
						x.assume(s.Ult(ic, p1))
						x.assume(s.Ule(p1, e.n))
						st.R["R11"] = p1
						for _, r := range []string{"AX", "BX", "CX", "DX", "SI", "DI", "R8", "R9"} {
							st.R[r] = x.junk(64)
						}
						st.PC = next
					}
				}
				return !failed
			},
			OnCall: func(st *AsmState, sym SymAddr) bool {
				advance := func(must string) {
					icp, ok := st.R["SI"].(Ptr)
					if !ok {
						x.notEncoded("%s: cursor pointer", sym.Name)
					}
					p0 := x.asmTerm(x.loadLeafP(icp, 0, 8, lkInt))
					p1 := x.junk(64)
					x.assume(s.Ult(p0, p1))
					x.assume(s.Ule(p1, e.n))
					x.storeLeafP(icp, 0, 8, p1)
					_ = must
				}
				switch {
				case sym.Name == "native.lspace":
					e.callLspace(st)
					e.clobberCallerSaved()
					return true
				case sym.Name == "native.vstring":
					stp, ok := st.R["DX"].(Ptr)
					icp, ok2 := st.R["SI"].(Ptr)
					if !ok || !ok2 {
						x.notEncoded("vstring: pointer arguments")
					}
					p0 := x.asmTerm(x.loadLeafP(icp, 0, 8, lkInt))
					advance("")
					x.storeLeafP(stp, 0, 8, x.c64(7))
					x.storeLeafP(stp, 16, 8, p0)
					x.storeLeafP(stp, 24, 8, x.c64(-1))
					e.clobberCallerSaved()
					st.R["AX"] = x.junk(64)
					return true
				case sym.Name == "native.vsigned" || sym.Name == "native.vunsigned":
					stp, ok := st.R["DX"].(Ptr)
					if !ok {
						x.notEncoded("%s: state pointer", sym.Name)
					}
					advance("")
					x.storeLeafP(stp, 0, 8, x.c64(9))
					x.storeLeafP(stp, 16, 8, x.junk(64))
					e.clobberCallerSaved()
					st.R["AX"] = x.junk(64)
					return true
				case sym.Name == "native.skip_one" || sym.Name == "native.skip_array" || sym.Name == "native.skip_object":
					icp, ok := st.R["SI"].(Ptr)
					if !ok {
						x.notEncoded("skip_one: cursor pointer")
					}
					p0 := x.asmTerm(x.loadLeafP(icp, 0, 8, lkInt))
					advance("")
					e.clobberCallerSaved()
					st.R["AX"] = p0
					return true
				case strings.HasPrefix(sym.Name, "go.") && strings.Contains(sym.Name, "/errors.Error"):
					failed = true
					e.errHit = sym.Name
					return true
				case strings.HasPrefix(sym.Name, "go."):
					// Go helpers (strhash, memequal, FieldMap lookups, allocation): arbitrary result
					for _, r := range []string{"AX", "BX", "CX", "DX", "SI", "DI", "R8", "R9", "R10", "R11"} {
						st.R[r] = x.junk(64)
					}
					return true
				}
				return false
			},
		}
		inner := hooks.OnIns
		hooks.OnIns = func(st *AsmState, in *AsmIns) bool {
			if e.errHit != "" {
				return false
			}
			return inner(st, in)
		}
		x.RunAsm(p, e.st, hooks, 8000)
		if failed {
			x.covers["error"] = true
		}
		if !finished || failed {
			return
		}
		if unmodelled != "" {
			x.note("t3-syntax-unmodelled-op:" + unmodelled)
			return
		}
		x.asmPos = p.Name + " at exit"
		if len(toks) > 24 {
			return
		}
		// the token sequence travels with every counterexample (replays spell it as JSON text)
		{
			var c *smt.Term = s.True
			for i := 0; i < 24; i++ {
				ti := x.newInput(fmt.Sprintf("tok[%d]", i), 8)
				v := byte(0)
				if i < len(toks) {
					v = toks[i]
				}
				c = s.BAnd(c, s.Eq(ti, s.Const(8, uint64(v))))
			}
			x.assume(c)
		}
		text := T3TokensToText(toks)
		if hasOpen {
			// a container type accepts only its own opening bracket or null: any other first
			// character is a type mismatch and must have been reported (C01)
			first := x.byteIdx(Ptr{Obj: e.input, Off: x.c64(0)}, 0)
			x.check(s.BOr(s.Eq(first, s.Const(8, uint64(open))), s.Eq(first, s.Const(8, 'n'))), "assert",
				fmt.Sprintf("generated decoder accepts a value that does not start with %q (nor null) for a container type without reporting a type mismatch", string(open)))
		}
		if !json.Valid([]byte(text)) {
			x.check(s.False, "assert", fmt.Sprintf("generated decoder accepts a structurally malformed document: %s", text))
		}
		x.covers["accepted"] = true
		if strings.Contains(text, ",") {
			x.covers["two-members"] = true
		}
	}
}

// T3TokensToText spells a token sequence recorded by the monitor as JSON text.
func T3TokensToText(toks []byte) string {
	var b strings.Builder
	for _, t := range toks {
		switch t {
		case '{', '}', '[', ']', ',', ':', '"':
			b.WriteByte(t)
		case 'n':
			b.WriteString("null")
		case 'i', 's':
			b.WriteString("1")
		case 'R':
			b.WriteString("1]")
		case 'M':
			b.WriteString("1\"")
		case 'b':
			b.WriteString("true")
		case 't':
			b.WriteString(`"x"`)
		case 0:
		default: // a key name: the opening quote was consumed by match_char
			b.WriteByte(t)
			b.WriteByte('"')
		}
	}
	return b.String()
}
