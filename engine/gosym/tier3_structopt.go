package gosym

import (
	"fmt"
	"strings"
)

// T3StructFieldOptions: window on the struct-key opcode of a generated struct decoder, with the
// option word symbolic and every lookup result arbitrary (tables in angelic memory, Go helpers
// as contracts). Decides the documented effect of the two options the opcode tests (C18):
//   - DisallowUnknownFields: the opcode ends normally with "no field" only when the option is
//     off, and reports the field error only when it is on;
//   - CaseSensitive: the case-insensitive lookup is consulted only when the option is off.
func T3StructFieldOptions(p *AsmProg) func(x *Exec) {
	return func(x *Exec) {
		e := x.t3Setup(p, 6, []byte{'"', 'a'}, 16)
		s := x.st
		x.assume(s.Eq(e.ic0, x.c64(0)))
		e.st.Lenient = true
		bitDU, ok1 := p.Consts["F_disable_unknown"]
		bitCS, ok2 := p.Consts["F_case_sensitive"]
		if !ok1 || !ok2 || len(p.Ops) == 0 {
			x.notEncoded("dump carries no option bit numbers / structured program")
		}
		k := -1
		for i, o := range p.Ops {
			if o.Op == "struct_field" {
				k = i
				break
			}
		}
		start, ok := p.labels[fmt.Sprintf("_jump_pc_%d", k)]
		endL := fmt.Sprintf("_jump_pc_%d", k+1)
		if k < 0 || !ok {
			x.notEncoded("program has no struct_field")
		}
		flags := x.asmTerm(e.st.R["R8"])
		// prologue
		x.RunAsm(p, e.st, AsmHooks{OnIns: func(st *AsmState, in *AsmIns) bool {
			for _, l := range in.L {
				if l == "_jump_pc_0" {
					return false
				}
			}
			return true
		}}, 200)
		e.st.PC = start
		e.st.Steps = 0
		var slot *AsmOperand
		for j := start + 1; j < start+4 && j < len(p.Ins); j++ {
			q := &p.Ins[j]
			if q.Op == "MOVQ" && q.F.K == "reg" && q.F.R == "AX" && q.T.K == "mem" && q.T.R == "SP" {
				slot = &q.T
				break
			}
		}
		if slot == nil {
			x.notEncoded("struct_field: cannot locate the result slot")
		}
		du := s.Ne(s.And(flags, s.Const(64, uint64(1)<<uint(bitDU))), x.c64(0))
		cs := s.Ne(s.And(flags, s.Const(64, uint64(1)<<uint(bitCS))), x.c64(0))
		ended, fieldErr, ciCalled, unknown := false, false, false, false
		probes := 0
		hooks := AsmHooks{
			OnIns: func(st *AsmState, in *AsmIns) bool {
				x.asmPos = fmt.Sprintf("%s#%d(%s)", p.Name, in.I, in.Op)
				if st.Steps > 1 {
					for _, l := range in.L {
						switch {
						case l == endL:
							ended = true
							return false
						case l == "_field_error":
							fieldErr = true
							return false
						case strings.HasPrefix(l, "_unknown_"):
							unknown = true // no field matched (exactly, nor case-insensitively when allowed)
						case strings.HasPrefix(l, "_loop_"):
							probes++
							if probes > 2 {
								x.abort(abEnd, "field table probe bound")
							}
						case strings.HasSuffix(l, "_error") || l == "_error" || l == "_parsing_error_v":
							return false
						}
					}
				}
				return true
			},
			OnCall: func(st *AsmState, sym SymAddr) bool {
				switch {
				case sym.Name == "native.vstring":
					stp, ok := st.R["DX"].(Ptr)
					icp, ok2 := st.R["SI"].(Ptr)
					if !ok || !ok2 {
						x.notEncoded("vstring: pointer arguments")
					}
					p0 := x.asmTerm(x.loadLeafP(icp, 0, 8, lkInt))
					p1 := x.junk(64)
					x.assume(s.Ult(p0, p1))
					x.assume(s.Ule(p1, e.n))
					x.storeLeafP(icp, 0, 8, p1)
					x.storeLeafP(stp, 0, 8, x.c64(7))
					x.storeLeafP(stp, 16, 8, p0)
					x.storeLeafP(stp, 24, 8, x.c64(-1))
					e.clobberCallerSaved()
					st.R["AX"] = x.junk(64)
					return true
				case strings.HasSuffix(sym.Name, "GetCaseInsensitive"):
					ciCalled = true
					x.check(s.BNot(cs), "assert", "the case-insensitive field lookup is consulted although CaseSensitive is set")
					for _, r := range []string{"BX", "CX", "DX", "SI", "DI", "R8", "R9", "R10", "R11"} {
						st.R[r] = x.junk(64)
					}
					idx := x.junk(64)
					x.assume(s.Sge(idx, x.c64(-1)))
					st.R["AX"] = idx
					return true
				case strings.HasPrefix(sym.Name, "go."):
					for _, r := range []string{"AX", "BX", "CX", "DX", "SI", "DI", "R8", "R9", "R10", "R11"} {
						st.R[r] = x.junk(64)
					}
					return true
				}
				return false
			},
		}
		x.RunAsm(p, e.st, hooks, 1500)
		switch {
		case ended:
			sr := x.asmTerm(x.asmLoadMem(p, e.st, slot, 8))
			if unknown {
				x.check(s.BNot(du), "assert", "an unknown field is skipped although DisallowUnknownFields is set")
				x.check(s.Eq(sr, x.c64(-1)), "assert", "an unknown field does not leave the 'no field' marker for the switch that follows")
				x.covers["unknown-skipped"] = true
			}
			x.covers["ended"] = true
			if ciCalled {
				x.covers["case-insensitive"] = true
			}
		case fieldErr:
			x.check(du, "assert", "an unknown field is reported as an error although DisallowUnknownFields is not set")
			x.covers["field-error"] = true
		}
	}
}
