package gosym

import "fmt"

// T3UnquoteFlags: every call of native unquote in a generated decoder passes a flag word whose
// UNICODE_REPLACE bit is the complement of the decoder option "disable unicode replacement"
// (Config.UseUnicodeErrors): with the option on, an invalid \u escape must be reported, with it
// off it is replaced by U+FFFD - at every call site, for every 64-bit option word (C18).
// Window: from two instructions before the BTQ that tests the option bit to the CALL, the option
// word in the frame slot symbolic, everything else arbitrary.
func T3UnquoteFlags(p *AsmProg) func(x *Exec) {
	return func(x *Exec) {
		e := x.t3Setup(p, 2, nil, 16)
		s := x.st
		e.st.Lenient = true
		bitURC, ok1 := p.Consts["F_disable_urc"]
		bitREP, ok2 := p.Consts["B_UNICODE_REPLACE"]
		if !ok1 || !ok2 {
			x.notEncoded("dump carries no F_disable_urc / B_UNICODE_REPLACE")
		}
		var sites [][2]int // (window start, index of the MOVQ $native.unquote)
		for c := range p.Ins {
			in := &p.Ins[c]
			if in.Op != "MOVQ" || in.F.Y != "native.unquote" {
				continue
			}
			j := -1
			for k := c - 1; k >= 0 && k >= c-14; k-- {
				q := &p.Ins[k]
				if q.Op == "BTQ" && q.F.K == "const" && q.F.O == bitURC && q.T.K == "mem" {
					j = k
					break
				}
			}
			if j < 0 {
				x.check(s.False, "assert", fmt.Sprintf("call of native unquote at #%d does not test the unicode-replacement option at all", c))
				continue
			}
			st0 := j - 2
			if st0 < 0 {
				st0 = 0
			}
			sites = append(sites, [2]int{st0, j})
		}
		if len(sites) == 0 {
			x.notEncoded("program has no call of native unquote")
		}
		df := x.newInput("flags_df", 64)
		big := x.newObject(16384, nil, "window-frame")
		e.st.R["SP"] = Ptr{Obj: big, Off: x.c64(4096)}
		for si, site := range sites {
			st := e.st
			for _, r := range []string{"AX", "BX", "CX", "DX", "SI", "DI", "R8", "R9", "R10", "R11", "R12", "R13", "R15"} {
				st.R[r] = x.junk(64)
			}
			st.PC = site[0]
			st.Steps = 0
			x.asmStoreMem(st, &p.Ins[site[1]].T, 8, df)
			called := false
			hooks := AsmHooks{
				OnIns: func(as *AsmState, in *AsmIns) bool {
					x.asmPos = fmt.Sprintf("%s#%d(%s)", p.Name, in.I, in.Op)
					return !called
				},
				OnCall: func(as *AsmState, sym SymAddr) bool {
					if sym.Name != "native.unquote" {
						return false
					}
					called = true
					fl := x.asmTerm(as.R["R8"])
					rep := s.Ne(s.And(fl, s.Const(64, uint64(1)<<uint(bitREP))), x.c64(0))
					dis := s.Ne(s.And(df, s.Const(64, uint64(1)<<uint(bitURC))), x.c64(0))
					x.check(s.BOr(s.BNot(dis), s.BNot(rep)), "assert", fmt.Sprintf("unquote call site %d: UNICODE_REPLACE is passed although the option that disables replacement (UseUnicodeErrors) is set", si))
					x.check(s.BOr(dis, rep), "assert", fmt.Sprintf("unquote call site %d: UNICODE_REPLACE is not passed although replacement is enabled", si))
					as.R["AX"] = x.junk(64)
					return true
				},
			}
			x.RunAsm(p, st, hooks, 40)
			if called {
				x.covers[fmt.Sprintf("site%d", si)] = true
			}
		}
		x.covers["end"] = true
	}
}
