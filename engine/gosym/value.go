package gosym

import (
	"fmt"
	"go/types"

	"golang.org/x/tools/go/ssa"

	"verif/engine/smt"
)

// Value is one of: *smt.Term (BV scalar or Bool), Ptr, Str, Slice, Iface, Struct,
// Array, Tuple, *Func, MapRef, RangeIter.
type Value interface{}

// Ptr is a pointer with concrete object identity and a (possibly symbolic) byte offset.
// Obj==nil: nil pointer when Off is const 0, otherwise a wild integer address.
// When Off is symbolic, Off = Base + k*Stride for some k (candidate enumeration).
type Ptr struct {
	Obj    *Object
	Off    *smt.Term
	Base   int
	Stride int
}

type Str struct {
	P   Ptr
	Len *smt.Term
}

type Slice struct {
	P   Ptr
	Len *smt.Term
	Cap *smt.Term
}

type Iface struct {
	T types.Type // dynamic type; nil => nil interface
	V Value
}

type Struct []Value
type Array []Value
type Tuple []Value

type Func struct {
	Fn      *ssa.Function
	Env     []Value
	Builtin *ssa.Builtin
}

type MapRef struct{ M *MapObj }

type mapEntry struct {
	K       Value
	V       Value
	Present *smt.Term // Bool
}

type MapObj struct {
	ID      int
	KT, VT  types.Type
	Entries []*mapEntry
}

type RangeIter struct {
	M   *MapObj
	S   *Str
	Pos int
	// snapshot of entries for map iteration
	Ents []*mapEntry
}

// cell kinds stored in objects
type ifaceTypeWord struct{ T types.Type }
type ifaceDataWord struct {
	V   Value
	raw bool    // V is a raw data pointer (written through rt.GoEface)
	box *Object // object holding the boxed value (for reads through rt.GoEface)
}

type cell struct {
	size int
	v    Value // *smt.Term (width size*8 or Bool for size 1), Ptr, *Func, MapRef, ifaceTypeWord, ifaceDataWord
}

type Object struct {
	ID       int
	Size     int        // physical size in bytes
	LSize    *smt.Term  // logical size (<= Size); nil means Size
	Cells    map[int]*cell
	Typ      types.Type // allocation type (informational)
	Name     string
	ReadOnly bool
	Junk     func(off int) *smt.Term // if non-nil, absent bytes read as fresh junk instead of zero
	// ghost state
	Ghost map[string]interface{}
	Epoch int
	TypeOf types.Type // non-nil: this object stands for the runtime type descriptor of TypeOf
}

func (o *Object) String() string {
	if o == nil {
		return "<nil>"
	}
	return fmt.Sprintf("obj%d(%s,%d)", o.ID, o.Name, o.Size)
}

type leafKind int

const (
	lkInt leafKind = iota
	lkBool
	lkPtr // pointer-like: *T, unsafe.Pointer, uintptr
	lkFunc
	lkMap
	lkIfaceT
	lkIfaceD
	lkUintptr
)

type leaf struct {
	off  int
	size int
	kind leafKind
}

func isNilPtr(p Ptr) bool {
	return p.Obj == nil && p.Off != nil && p.Off.IsConst() && p.Off.Val == 0
}

func typeKey(t types.Type) string { return types.TypeString(t, nil) }
