package smt

import (
	"bufio"
	"fmt"
	"io"
	"os"
	"os/exec"
	"strconv"
	"strings"
	"time"
)

type Result int

const (
	Unsat Result = iota
	Sat
	Unknown
)

func (r Result) String() string { return [...]string{"unsat", "sat", "unknown"}[r] }

type Stats struct {
	Queries   int
	NSat      int
	NUnsat    int
	NUnknown  int
	SolveTime time.Duration
}

func (a *Stats) Add(b Stats) {
	a.Queries += b.Queries
	a.NSat += b.NSat
	a.NUnsat += b.NUnsat
	a.NUnknown += b.NUnknown
	a.SolveTime += b.SolveTime
}

// Solver drives one persistent solver process over SMT-LIB2 text.
type Solver struct {
	cmd     *exec.Cmd
	in      io.WriteCloser
	lines   chan string
	Stats   Stats
	Log     io.Writer // optional transcript
	levels  [][]int   // per push level: term IDs defined / var names declared
	defined map[int]bool
	declUF  map[string]bool
	ufLevel [][]string
	Timeout int // ms
	Bin     string
	LastErr string
}

func NewSolver(bin string, timeoutMs int) (*Solver, error) {
	s := &Solver{Bin: bin, Timeout: timeoutMs}
	if err := s.start(); err != nil {
		return nil, err
	}
	return s, nil
}

func (s *Solver) start() error {
	args := []string{"-in"}
	switch {
	case strings.Contains(s.Bin, "cvc5"):
		args = []string{"--incremental", "--lang=smt2", "--produce-models", fmt.Sprintf("--tlimit-per=%d", s.Timeout)}
	}
	s.cmd = exec.Command(s.Bin, args...)
	in, err := s.cmd.StdinPipe()
	if err != nil {
		return err
	}
	out, err := s.cmd.StdoutPipe()
	if err != nil {
		return err
	}
	s.cmd.Stderr = os.Stderr
	if err := s.cmd.Start(); err != nil {
		return err
	}
	s.in = in
	s.lines = make(chan string, 4096)
	go s.pump(bufio.NewReaderSize(out, 1<<16), s.lines)
	s.levels = [][]int{nil}
	s.ufLevel = [][]string{nil}
	s.defined = map[int]bool{}
	s.declUF = map[string]bool{}
	if strings.Contains(s.Bin, "cvc5") {
		s.send("(set-logic ALL)")
	} else {
		s.send(fmt.Sprintf("(set-option :timeout %d)", s.Timeout))
		s.send("(set-option :model.completion true)")
	}
	return nil
}

func (s *Solver) Close() {
	if s.cmd != nil {
		s.in.Close()
		s.cmd.Process.Kill()
		s.cmd.Wait()
		s.cmd = nil
	}
}

// Restart kills the process and starts a fresh one (all state lost).
func (s *Solver) Restart() error {
	s.Close()
	return s.start()
}

func (s *Solver) send(line string) {
	if s.Log != nil {
		fmt.Fprintln(s.Log, line)
	}
	io.WriteString(s.in, line)
	io.WriteString(s.in, "\n")
}

func (s *Solver) Push() {
	s.send("(push 1)")
	s.levels = append(s.levels, nil)
	s.ufLevel = append(s.ufLevel, nil)
}

func (s *Solver) Pop() {
	s.send("(pop 1)")
	n := len(s.levels) - 1
	for _, id := range s.levels[n] {
		delete(s.defined, id)
	}
	for _, u := range s.ufLevel[n] {
		delete(s.declUF, u)
	}
	s.levels = s.levels[:n]
	s.ufLevel = s.ufLevel[:n]
}

func (s *Solver) Depth() int { return len(s.levels) - 1 }

// define makes sure t (and all its subterms) are defined in the solver.
func (s *Solver) define(st *Store, t *Term) {
	if t.Op == OpConst {
		return
	}
	if s.defined[t.ID] {
		return
	}
	// iterative post-order to avoid deep recursion
	type fr struct {
		t *Term
		i int
	}
	stack := []fr{{t, 0}}
	for len(stack) > 0 {
		f := &stack[len(stack)-1]
		if f.i < len(f.t.Args) {
			a := f.t.Args[f.i]
			f.i++
			if a.Op != OpConst && !s.defined[a.ID] {
				stack = append(stack, fr{a, 0})
			}
			continue
		}
		x := f.t
		stack = stack[:len(stack)-1]
		if s.defined[x.ID] {
			continue
		}
		lv := len(s.levels) - 1
		switch x.Op {
		case OpVar:
			s.send(fmt.Sprintf("(declare-const %s %s)", SMTName(x.Name), sortStr(x.W)))
		case OpUF:
			if !s.declUF[x.Name] {
				d := st.UFs[x.Name]
				var as []string
				for _, w := range d.Args {
					as = append(as, sortStr(w))
				}
				s.send(fmt.Sprintf("(declare-fun %s (%s) %s)", SMTName(x.Name), strings.Join(as, " "), sortStr(d.Ret)))
				s.declUF[x.Name] = true
				s.ufLevel[lv] = append(s.ufLevel[lv], x.Name)
			}
			s.send(fmt.Sprintf("(define-fun t%d () %s %s)", x.ID, sortStr(x.W), Body(x)))
		default:
			s.send(fmt.Sprintf("(define-fun t%d () %s %s)", x.ID, sortStr(x.W), Body(x)))
		}
		s.defined[x.ID] = true
		s.levels[lv] = append(s.levels[lv], x.ID)
	}
}

// Define makes sure t is declared/defined at the current level.
func (s *Solver) Define(st *Store, t *Term) { s.define(st, t) }

func (s *Solver) Assert(st *Store, t *Term) {
	if t.W != 0 {
		panic("Assert: not bool")
	}
	s.define(st, t)
	s.send(fmt.Sprintf("(assert %s)", Ref(t)))
}

// pump drains the solver's stdout into a channel so that a chatty solver (warnings,
// error lines) can never dead-lock against our writes to its stdin.
func (s *Solver) pump(out *bufio.Reader, ch chan string) {
	for {
		line, err := out.ReadString('\n')
		if line != "" {
			ch <- line
		}
		if err != nil {
			close(ch)
			return
		}
	}
}

func (s *Solver) rawLine() (string, error) {
	line, ok := <-s.lines
	if !ok {
		return "", io.EOF
	}
	return line, nil
}

func (s *Solver) readLine() (string, error) {
	line, err := s.rawLine()
	return strings.TrimSpace(line), err
}

func (s *Solver) Check() Result {
	t0 := time.Now()
	s.send("(check-sat)")
	var r Result = Unknown
	for {
		line, err := s.readLine()
		if err != nil {
			s.LastErr = "solver died: " + err.Error()
			s.Restart()
			break
		}
		if line == "" {
			continue
		}
		switch line {
		case "sat":
			r = Sat
		case "unsat":
			r = Unsat
		case "unknown", "timeout":
			r = Unknown
		default:
			if strings.HasPrefix(line, "(error") {
				s.LastErr = line
				fmt.Fprintln(os.Stderr, "SOLVER ERROR:", line)
				continue // keep reading for the verdict; verdict is distrusted below
			}
			s.LastErr = "unexpected solver output: " + line
			continue
		}
		break
	}
	if s.LastErr != "" {
		r = Unknown
	}
	s.Stats.Queries++
	switch r {
	case Sat:
		s.Stats.NSat++
	case Unsat:
		s.Stats.NUnsat++
	default:
		s.Stats.NUnknown++
	}
	s.Stats.SolveTime += time.Since(t0)
	return r
}

// ClearErr resets the sticky error flag.
func (s *Solver) ClearErr() { s.LastErr = "" }

// CheckAssuming: push; assert extra; check; pop.
func (s *Solver) CheckWith(st *Store, extra ...*Term) Result {
	for _, e := range extra {
		s.define(st, e) // define outside the push so definitions persist
	}
	s.Push()
	for _, e := range extra {
		s.send(fmt.Sprintf("(assert %s)", Ref(e)))
	}
	r := s.Check()
	if r == Unknown && s.LastErr == "" && !strings.Contains(s.Bin, "cvc5") {
		// wall-clock timeouts are load dependent: retry once with a longer limit
		s.send(fmt.Sprintf("(set-option :timeout %d)", s.Timeout*4))
		s.Stats.Queries--
		s.Stats.NUnknown--
		r = s.Check()
		s.send(fmt.Sprintf("(set-option :timeout %d)", s.Timeout))
	}
	s.Pop()
	return r
}

// Model returns values of the given terms (must be called right after a Sat Check, same scope).
func (s *Solver) Values(st *Store, ts []*Term) (map[int]uint64, error) {
	res := map[int]uint64{}
	// query in chunks
	for i := 0; i < len(ts); i += 64 {
		j := i + 64
		if j > len(ts) {
			j = len(ts)
		}
		var refs []string
		for _, t := range ts[i:j] {
			if t.Op == OpConst {
				res[t.ID] = t.Val
				continue
			}
			if !s.defined[t.ID] {
				return nil, fmt.Errorf("Values: term t%d not defined in solver", t.ID)
			}
			refs = append(refs, Ref(t))
		}
		if len(refs) == 0 {
			continue
		}
		s.send("(get-value (" + strings.Join(refs, " ") + "))")
		txt, err := s.readSexp()
		if err != nil {
			return nil, err
		}
		vals, err := parseValues(txt)
		if err != nil {
			return nil, fmt.Errorf("%v in %q", err, txt)
		}
		k := 0
		for _, t := range ts[i:j] {
			if t.Op == OpConst {
				continue
			}
			if k >= len(vals) {
				return nil, fmt.Errorf("short get-value answer: %q", txt)
			}
			res[t.ID] = vals[k]
			k++
		}
	}
	return res, nil
}

func (s *Solver) readSexp() (string, error) {
	var b strings.Builder
	depth := 0
	started := false
	inBar := false
	for {
		line, err := s.rawLine()
		if err != nil {
			return "", err
		}
		for i := 0; i < len(line); i++ {
			c := line[i]
			b.WriteByte(c)
			if inBar {
				if c == '|' {
					inBar = false
				}
				continue
			}
			switch c {
			case '|':
				inBar = true
			case '(':
				depth++
				started = true
			case ')':
				depth--
			}
		}
		if started && depth == 0 {
			return b.String(), nil
		}
	}
}

// parseValues parses "((ref val) (ref val) ...)" returning vals in order.
func parseValues(txt string) ([]uint64, error) {
	var out []uint64
	// tokenise
	toks := tokenize(txt)
	// expect ( ( ref val ) ... )
	i := 0
	if i >= len(toks) || toks[i] != "(" {
		return nil, fmt.Errorf("parse: expected (")
	}
	i++
	for i < len(toks) && toks[i] == "(" {
		i++
		// skip ref: a symbol or nested sexp
		i = skipSexp(toks, i)
		// value
		v, ni, err := parseVal(toks, i)
		if err != nil {
			return nil, err
		}
		out = append(out, v)
		i = ni
		if i >= len(toks) || toks[i] != ")" {
			return nil, fmt.Errorf("parse: expected ) at %d", i)
		}
		i++
	}
	return out, nil
}

func tokenize(txt string) []string {
	var toks []string
	i := 0
	for i < len(txt) {
		c := txt[i]
		switch {
		case c == '(' || c == ')':
			toks = append(toks, string(c))
			i++
		case c == ' ' || c == '\n' || c == '\t' || c == '\r':
			i++
		case c == '|':
			j := strings.IndexByte(txt[i+1:], '|')
			toks = append(toks, txt[i:i+j+2])
			i += j + 2
		default:
			j := i
			for j < len(txt) && !strings.ContainsRune("() \n\t\r", rune(txt[j])) {
				j++
			}
			toks = append(toks, txt[i:j])
			i = j
		}
	}
	return toks
}

func skipSexp(toks []string, i int) int {
	if toks[i] != "(" {
		return i + 1
	}
	d := 0
	for ; i < len(toks); i++ {
		if toks[i] == "(" {
			d++
		} else if toks[i] == ")" {
			d--
			if d == 0 {
				return i + 1
			}
		}
	}
	return i
}

func parseVal(toks []string, i int) (uint64, int, error) {
	t := toks[i]
	switch {
	case t == "true":
		return 1, i + 1, nil
	case t == "false":
		return 0, i + 1, nil
	case strings.HasPrefix(t, "#x"):
		s := t[2:]
		if len(s) > 16 {
			s = s[len(s)-16:]
		}
		v, err := strconv.ParseUint(s, 16, 64)
		return v, i + 1, err
	case strings.HasPrefix(t, "#b"):
		s := t[2:]
		if len(s) > 64 {
			s = s[len(s)-64:]
		}
		v, err := strconv.ParseUint(s, 2, 64)
		return v, i + 1, err
	case t == "(":
		// (_ bvN w)
		if i+4 < len(toks) && toks[i+1] == "_" && strings.HasPrefix(toks[i+2], "bv") {
			v, err := strconv.ParseUint(toks[i+2][2:], 10, 64)
			return v, i + 5, err
		}
	}
	return 0, i, fmt.Errorf("parse: unexpected value token %q", t)
}
