// Package smt: hash-consed term DAG over Bool / fixed-width bit-vectors with
// eager constant folding and local rewriting, plus an SMT-LIB2 printer.
package smt

import (
	"fmt"
	"math/bits"
	"strings"
)

type Op uint8

const (
	OpConst Op = iota // bv const (W>0) or bool const (W==0)
	OpVar
	OpAdd
	OpSub
	OpMul
	OpUDiv
	OpURem
	OpSDiv
	OpSRem
	OpAnd
	OpOr
	OpXor
	OpNot
	OpNeg
	OpShl
	OpLShr
	OpAShr
	OpConcat
	OpExtract // Hi, Lo
	OpZExt    // to W
	OpSExt    // to W
	OpIte     // cond bool, a, b (bv or bool)
	OpEq      // bool
	OpUlt
	OpUle
	OpSlt
	OpSle
	OpBAnd // bool and
	OpBOr
	OpBNot
	OpUF    // Name(args)  result width W (0=bool)
	OpFPLt  // IEEE compare on reinterpretation of args; width of args 32/64
	OpFPLe
	OpFPEq
	OpFPIsNaN
	OpFPCvt // convert float of arg width to float of W (RNE), result as bits
	OpFPFromSInt // signed integer -> float of width W (RNE), result as bits
	OpFPFromUInt // unsigned integer -> float of width W (RNE), result as bits
)

var opNames = map[Op]string{
	OpAdd: "bvadd", OpSub: "bvsub", OpMul: "bvmul", OpUDiv: "bvudiv", OpURem: "bvurem",
	OpSDiv: "bvsdiv", OpSRem: "bvsrem", OpAnd: "bvand", OpOr: "bvor", OpXor: "bvxor",
	OpNot: "bvnot", OpNeg: "bvneg", OpShl: "bvshl", OpLShr: "bvlshr", OpAShr: "bvashr",
	OpConcat: "concat", OpIte: "ite", OpEq: "=", OpUlt: "bvult", OpUle: "bvule",
	OpSlt: "bvslt", OpSle: "bvsle", OpBAnd: "and", OpBOr: "or", OpBNot: "not",
}

// Term is immutable once created. W==0 means Bool.
type Term struct {
	ID   int
	Op   Op
	W    int
	Args []*Term
	Val  uint64 // const value (W<=64), bool: 0/1
	Name string // var / UF name
	Hi   int
	Lo   int
}

func (t *Term) IsConst() bool { return t.Op == OpConst }
func (t *Term) IsBool() bool  { return t.W == 0 }
func (t *Term) IsTrue() bool  { return t.Op == OpConst && t.W == 0 && t.Val == 1 }
func (t *Term) IsFalse() bool { return t.Op == OpConst && t.W == 0 && t.Val == 0 }

// SVal returns the constant as a sign-extended int64.
func (t *Term) SVal() int64 {
	if t.W >= 64 {
		return int64(t.Val)
	}
	sh := uint(64 - t.W)
	return int64(t.Val<<sh) >> sh
}

type UFDecl struct {
	Name string
	Args []int // widths, 0=bool
	Ret  int
}

// Store hash-conses terms. Not safe for concurrent use.
type Store struct {
	tab    map[string]*Term
	nextID int
	Vars   []*Term
	varTab map[string]*Term
	UFs    map[string]*UFDecl
	UFList []*UFDecl
	True   *Term
	False  *Term
}

func NewStore() *Store {
	s := &Store{tab: map[string]*Term{}, varTab: map[string]*Term{}, UFs: map[string]*UFDecl{}}
	s.True = s.mk(&Term{Op: OpConst, W: 0, Val: 1})
	s.False = s.mk(&Term{Op: OpConst, W: 0, Val: 0})
	return s
}

func (s *Store) NumTerms() int { return s.nextID }

func (s *Store) key(t *Term) string {
	var b strings.Builder
	fmt.Fprintf(&b, "%d:%d:", t.Op, t.W)
	switch t.Op {
	case OpConst:
		fmt.Fprintf(&b, "%d", t.Val)
	case OpVar:
		b.WriteString(t.Name)
	case OpExtract:
		fmt.Fprintf(&b, "%d,%d,", t.Hi, t.Lo)
	case OpUF:
		b.WriteString(t.Name)
		b.WriteByte(',')
	}
	for _, a := range t.Args {
		fmt.Fprintf(&b, "#%d", a.ID)
	}
	return b.String()
}

func (s *Store) mk(t *Term) *Term {
	k := s.key(t)
	if o, ok := s.tab[k]; ok {
		return o
	}
	t.ID = s.nextID
	s.nextID++
	s.tab[k] = t
	return t
}

func mask(w int) uint64 {
	if w >= 64 {
		return ^uint64(0)
	}
	return (uint64(1) << uint(w)) - 1
}

func (s *Store) Const(w int, v uint64) *Term {
	if w <= 0 {
		panic("Const: bad width")
	}
	if w > 64 {
		// build by concat of zero high part
		return s.Concat(s.Const(w-64, 0), s.Const(64, v))
	}
	return s.mk(&Term{Op: OpConst, W: w, Val: v & mask(w)})
}

func (s *Store) Bool(b bool) *Term {
	if b {
		return s.True
	}
	return s.False
}

// Var declares (or returns) a named variable. w==0 => Bool.
func (s *Store) Var(name string, w int) *Term {
	if t, ok := s.varTab[name]; ok {
		if t.W != w {
			panic(fmt.Sprintf("Var %s redeclared with width %d (was %d)", name, w, t.W))
		}
		return t
	}
	t := s.mk(&Term{Op: OpVar, W: w, Name: name})
	s.varTab[name] = t
	s.Vars = append(s.Vars, t)
	return t
}

func (s *Store) LookupVar(name string) *Term { return s.varTab[name] }

func (s *Store) UF(name string, ret int, args ...*Term) *Term {
	d, ok := s.UFs[name]
	if !ok {
		d = &UFDecl{Name: name, Ret: ret}
		for _, a := range args {
			d.Args = append(d.Args, a.W)
		}
		s.UFs[name] = d
		s.UFList = append(s.UFList, d)
	} else {
		if len(d.Args) != len(args) || d.Ret != ret {
			panic("UF " + name + " used with different signature")
		}
		for i, a := range args {
			if d.Args[i] != a.W {
				panic("UF " + name + " used with different arg widths")
			}
		}
	}
	if len(args) == 0 {
		return s.Var("uf0!"+name, ret)
	}
	return s.mk(&Term{Op: OpUF, W: ret, Name: name, Args: args})
}

func (s *Store) bin(op Op, a, b *Term) *Term {
	if a.W != b.W || a.W == 0 {
		panic(fmt.Sprintf("bin %s: width mismatch %d vs %d", opNames[op], a.W, b.W))
	}
	w := a.W
	if a.IsConst() && b.IsConst() && w <= 64 {
		if v, ok := foldBin(op, w, a, b); ok {
			return s.Const(w, v)
		}
	}
	// canonical order for commutative ops: const second
	switch op {
	case OpAdd, OpMul, OpAnd, OpOr, OpXor:
		if a.IsConst() && !b.IsConst() {
			a, b = b, a
		} else if !a.IsConst() && !b.IsConst() && a.ID > b.ID {
			a, b = b, a
		}
	}
	if w <= 64 {
		switch op {
		case OpAdd:
			if b.IsConst() && b.Val == 0 {
				return a
			}
			// (x + c1) + c2
			if b.IsConst() && a.Op == OpAdd && a.Args[1].IsConst() {
				return s.bin(OpAdd, a.Args[0], s.Const(w, a.Args[1].Val+b.Val))
			}
		case OpSub:
			if b.IsConst() && b.Val == 0 {
				return a
			}
			if a == b {
				return s.Const(w, 0)
			}
			if b.IsConst() {
				return s.bin(OpAdd, a, s.Const(w, -b.Val))
			}
			// (x + c) - x  => c ; (x+c1) - (x+c2) => c1-c2
			{
				ab, ac := splitAddConst(a)
				bb, bc := splitAddConst(b)
				if ab == bb && ab != nil {
					return s.Const(w, ac-bc)
				}
			}
		case OpMul:
			if b.IsConst() {
				if b.Val == 0 {
					return b
				}
				if b.Val == 1 {
					return a
				}
				if b.Val&(b.Val-1) == 0 {
					return s.bin(OpShl, a, s.Const(w, uint64(bits.TrailingZeros64(b.Val))))
				}
			}
		case OpAnd:
			if a == b {
				return a
			}
			if b.IsConst() {
				if b.Val == 0 {
					return b
				}
				if b.Val == mask(w) {
					return a
				}
			}
		case OpOr:
			if a == b {
				return a
			}
			if b.IsConst() {
				if b.Val == 0 {
					return a
				}
				if b.Val == mask(w) {
					return b
				}
			}
		case OpXor:
			if a == b {
				return s.Const(w, 0)
			}
			if b.IsConst() && b.Val == 0 {
				return a
			}
		case OpShl, OpLShr:
			if b.IsConst() {
				if b.Val == 0 {
					return a
				}
				if b.Val >= uint64(w) {
					return s.Const(w, 0)
				}
			}
			if a.IsConst() && a.Val == 0 {
				return a
			}
		case OpAShr:
			if b.IsConst() && b.Val == 0 {
				return a
			}
		case OpUDiv:
			if b.IsConst() && b.Val == 1 {
				return a
			}
			if b.IsConst() && b.Val != 0 && b.Val&(b.Val-1) == 0 {
				return s.bin(OpLShr, a, s.Const(w, uint64(bits.TrailingZeros64(b.Val))))
			}
		case OpURem:
			if b.IsConst() && b.Val != 0 && b.Val&(b.Val-1) == 0 {
				return s.bin(OpAnd, a, s.Const(w, b.Val-1))
			}
		}
	}
	return s.mk(&Term{Op: op, W: w, Args: []*Term{a, b}})
}

func splitAddConst(t *Term) (*Term, uint64) {
	if t.Op == OpAdd && t.Args[1].IsConst() {
		return t.Args[0], t.Args[1].Val
	}
	if t.IsConst() {
		return nil, t.Val
	}
	return t, 0
}

func foldBin(op Op, w int, a, b *Term) (uint64, bool) {
	x, y := a.Val, b.Val
	m := mask(w)
	switch op {
	case OpAdd:
		return (x + y) & m, true
	case OpSub:
		return (x - y) & m, true
	case OpMul:
		return (x * y) & m, true
	case OpUDiv:
		if y == 0 {
			return m, true
		}
		return x / y, true
	case OpURem:
		if y == 0 {
			return x, true
		}
		return x % y, true
	case OpSDiv:
		sx, sy := a.SVal(), b.SVal()
		if sy == 0 {
			if sx < 0 {
				return 1, true
			}
			return m, true
		}
		if sy == -1 {
			return uint64(-sx) & m, true
		}
		return uint64(sx/sy) & m, true
	case OpSRem:
		sx, sy := a.SVal(), b.SVal()
		if sy == 0 {
			return x, true
		}
		if sy == -1 {
			return 0, true
		}
		return uint64(sx%sy) & m, true
	case OpAnd:
		return x & y, true
	case OpOr:
		return x | y, true
	case OpXor:
		return x ^ y, true
	case OpShl:
		if y >= uint64(w) {
			return 0, true
		}
		return (x << y) & m, true
	case OpLShr:
		if y >= uint64(w) {
			return 0, true
		}
		return x >> y, true
	case OpAShr:
		sx := a.SVal()
		if y >= uint64(w) {
			y = uint64(w - 1)
		}
		if y > 63 {
			y = 63
		}
		return uint64(sx>>y) & m, true
	}
	return 0, false
}

func (s *Store) Add(a, b *Term) *Term  { return s.bin(OpAdd, a, b) }
func (s *Store) Sub(a, b *Term) *Term  { return s.bin(OpSub, a, b) }
func (s *Store) Mul(a, b *Term) *Term  { return s.bin(OpMul, a, b) }
func (s *Store) UDiv(a, b *Term) *Term { return s.bin(OpUDiv, a, b) }
func (s *Store) URem(a, b *Term) *Term { return s.bin(OpURem, a, b) }
func (s *Store) SDiv(a, b *Term) *Term { return s.bin(OpSDiv, a, b) }
func (s *Store) SRem(a, b *Term) *Term { return s.bin(OpSRem, a, b) }
func (s *Store) And(a, b *Term) *Term  { return s.bin(OpAnd, a, b) }
func (s *Store) Or(a, b *Term) *Term   { return s.bin(OpOr, a, b) }
func (s *Store) Xor(a, b *Term) *Term  { return s.bin(OpXor, a, b) }
func (s *Store) Shl(a, b *Term) *Term  { return s.bin(OpShl, a, b) }
func (s *Store) LShr(a, b *Term) *Term { return s.bin(OpLShr, a, b) }
func (s *Store) AShr(a, b *Term) *Term { return s.bin(OpAShr, a, b) }

func (s *Store) Not(a *Term) *Term {
	if a.W == 0 {
		return s.BNot(a)
	}
	if a.IsConst() && a.W <= 64 {
		return s.Const(a.W, ^a.Val)
	}
	if a.Op == OpNot {
		return a.Args[0]
	}
	return s.mk(&Term{Op: OpNot, W: a.W, Args: []*Term{a}})
}

func (s *Store) Neg(a *Term) *Term {
	if a.IsConst() && a.W <= 64 {
		return s.Const(a.W, -a.Val)
	}
	return s.mk(&Term{Op: OpNeg, W: a.W, Args: []*Term{a}})
}

func (s *Store) Concat(hi, lo *Term) *Term {
	w := hi.W + lo.W
	if hi.IsConst() && lo.IsConst() && w <= 64 {
		return s.Const(w, hi.Val<<uint(lo.W)|lo.Val)
	}
	// concat(extract(h,l+1? ...)) adjacent extracts of the same term
	if hi.Op == OpExtract && lo.Op == OpExtract && hi.Args[0] == lo.Args[0] && hi.Lo == lo.Hi+1 {
		return s.Extract(hi.Args[0], hi.Hi, lo.Lo)
	}
	if hi.IsConst() && hi.W <= 64 && hi.Val == 0 && w <= 64 {
		return s.ZExt(lo, w)
	}
	return s.mk(&Term{Op: OpConcat, W: w, Args: []*Term{hi, lo}})
}

func (s *Store) Extract(a *Term, hi, lo int) *Term {
	if hi < lo || hi >= a.W || lo < 0 {
		panic(fmt.Sprintf("Extract[%d:%d] of width %d", hi, lo, a.W))
	}
	w := hi - lo + 1
	if w == a.W {
		return a
	}
	if a.IsConst() && a.W <= 64 {
		return s.Const(w, a.Val>>uint(lo))
	}
	switch a.Op {
	case OpExtract:
		return s.Extract(a.Args[0], a.Lo+hi, a.Lo+lo)
	case OpConcat:
		lw := a.Args[1].W
		if hi < lw {
			return s.Extract(a.Args[1], hi, lo)
		}
		if lo >= lw {
			return s.Extract(a.Args[0], hi-lw, lo-lw)
		}
	case OpZExt:
		iw := a.Args[0].W
		if hi < iw {
			return s.Extract(a.Args[0], hi, lo)
		}
		if lo >= iw {
			return s.Const(w, 0)
		}
	case OpSExt:
		iw := a.Args[0].W
		if hi < iw {
			return s.Extract(a.Args[0], hi, lo)
		}
	case OpIte:
		if a.Args[1].IsConst() && a.Args[2].IsConst() {
			return s.Ite(a.Args[0], s.Extract(a.Args[1], hi, lo), s.Extract(a.Args[2], hi, lo))
		}
	case OpAnd, OpOr, OpXor:
		if lo == 0 || a.Args[1].IsConst() {
			return s.bin(a.Op, s.Extract(a.Args[0], hi, lo), s.Extract(a.Args[1], hi, lo))
		}
	case OpAdd, OpSub, OpMul:
		if lo == 0 {
			return s.bin(a.Op, s.Extract(a.Args[0], hi, lo), s.Extract(a.Args[1], hi, lo))
		}
	}
	return s.mk(&Term{Op: OpExtract, W: w, Args: []*Term{a}, Hi: hi, Lo: lo})
}

func (s *Store) ZExt(a *Term, w int) *Term {
	if w == a.W {
		return a
	}
	if w < a.W {
		return s.Extract(a, w-1, 0)
	}
	if a.IsConst() && w <= 64 {
		return s.Const(w, a.Val)
	}
	if a.Op == OpZExt {
		return s.ZExt(a.Args[0], w)
	}
	if a.Op == OpIte && a.Args[1].IsConst() && a.Args[2].IsConst() && w <= 64 {
		return s.Ite(a.Args[0], s.ZExt(a.Args[1], w), s.ZExt(a.Args[2], w))
	}
	return s.mk(&Term{Op: OpZExt, W: w, Args: []*Term{a}})
}

func (s *Store) SExt(a *Term, w int) *Term {
	if w == a.W {
		return a
	}
	if w < a.W {
		return s.Extract(a, w-1, 0)
	}
	if a.IsConst() && w <= 64 {
		return s.Const(w, uint64(a.SVal()))
	}
	if a.Op == OpZExt {
		return s.ZExt(a.Args[0], w)
	}
	if a.Op == OpIte && a.Args[1].IsConst() && a.Args[2].IsConst() && w <= 64 {
		return s.Ite(a.Args[0], s.SExt(a.Args[1], w), s.SExt(a.Args[2], w))
	}
	return s.mk(&Term{Op: OpSExt, W: w, Args: []*Term{a}})
}

func (s *Store) Ite(c, a, b *Term) *Term {
	if c.W != 0 {
		panic("Ite: cond not bool")
	}
	if a.W != b.W {
		panic(fmt.Sprintf("Ite: width mismatch %d vs %d", a.W, b.W))
	}
	if c.IsTrue() {
		return a
	}
	if c.IsFalse() {
		return b
	}
	if a == b {
		return a
	}
	if a.W == 0 {
		// bool ite
		if a.IsTrue() && b.IsFalse() {
			return c
		}
		if a.IsFalse() && b.IsTrue() {
			return s.BNot(c)
		}
		if a.IsTrue() {
			return s.BOr(c, b)
		}
		if a.IsFalse() {
			return s.BAnd(s.BNot(c), b)
		}
		if b.IsTrue() {
			return s.BOr(s.BNot(c), a)
		}
		if b.IsFalse() {
			return s.BAnd(c, a)
		}
	}
	if c.Op == OpBNot {
		return s.Ite(c.Args[0], b, a)
	}
	// ite(c, x, ite(c, y, z)) => ite(c, x, z)
	if b.Op == OpIte && b.Args[0] == c {
		return s.Ite(c, a, b.Args[2])
	}
	if a.Op == OpIte && a.Args[0] == c {
		return s.Ite(c, a.Args[1], b)
	}
	return s.mk(&Term{Op: OpIte, W: a.W, Args: []*Term{c, a, b}})
}

func (s *Store) cmp(op Op, a, b *Term) *Term {
	if a.W != b.W {
		panic(fmt.Sprintf("cmp %s: width mismatch %d vs %d", opNames[op], a.W, b.W))
	}
	if a.IsConst() && b.IsConst() && a.W <= 64 {
		switch op {
		case OpEq:
			return s.Bool(a.Val == b.Val)
		case OpUlt:
			return s.Bool(a.Val < b.Val)
		case OpUle:
			return s.Bool(a.Val <= b.Val)
		case OpSlt:
			return s.Bool(a.SVal() < b.SVal())
		case OpSle:
			return s.Bool(a.SVal() <= b.SVal())
		}
	}
	if a == b {
		switch op {
		case OpEq, OpUle, OpSle:
			return s.True
		default:
			return s.False
		}
	}
	if op == OpEq {
		if a.W == 0 {
			// bool equality
			if a.IsConst() {
				a, b = b, a
			}
			if b.IsTrue() {
				return a
			}
			if b.IsFalse() {
				return s.BNot(a)
			}
		}
		if a.IsConst() && !b.IsConst() {
			a, b = b, a
		} else if !b.IsConst() && a.ID > b.ID {
			a, b = b, a
		}
		if b.IsConst() && a.W > 0 && a.W <= 64 {
			// eq(ite(c,k1,k2), k)
			if a.Op == OpIte {
				x, y := a.Args[1], a.Args[2]
				if x.IsConst() || y.IsConst() {
					return s.Ite(a.Args[0], s.cmp(OpEq, x, b), s.cmp(OpEq, y, b))
				}
			}
			// eq(zext(x), k)
			if a.Op == OpZExt {
				iw := a.Args[0].W
				if iw < 64 && b.Val>>uint(iw) != 0 {
					return s.False
				}
				return s.cmp(OpEq, a.Args[0], s.Const(iw, b.Val))
			}
			// eq(x + c, k) => eq(x, k-c)
			if a.Op == OpAdd && a.Args[1].IsConst() {
				return s.cmp(OpEq, a.Args[0], s.Const(a.W, b.Val-a.Args[1].Val))
			}
		}
	}
	if (op == OpUlt) && b.IsConst() && b.W <= 64 && b.Val == 0 {
		return s.False
	}
	if (op == OpUle) && a.IsConst() && a.W <= 64 && a.Val == 0 {
		return s.True
	}
	if a.W > 0 && a.W <= 64 && a.Op == OpIte && b.IsConst() && a.Args[1].IsConst() && a.Args[2].IsConst() {
		return s.Ite(a.Args[0], s.cmp(op, a.Args[1], b), s.cmp(op, a.Args[2], b))
	}
	if a.W > 0 && a.W <= 64 && b.Op == OpIte && a.IsConst() && b.Args[1].IsConst() && b.Args[2].IsConst() {
		return s.Ite(b.Args[0], s.cmp(op, a, b.Args[1]), s.cmp(op, a, b.Args[2]))
	}
	return s.mk(&Term{Op: op, W: 0, Args: []*Term{a, b}})
}

func (s *Store) Eq(a, b *Term) *Term  { return s.cmp(OpEq, a, b) }
func (s *Store) Ne(a, b *Term) *Term  { return s.BNot(s.cmp(OpEq, a, b)) }
func (s *Store) Ult(a, b *Term) *Term { return s.cmp(OpUlt, a, b) }
func (s *Store) Ule(a, b *Term) *Term { return s.cmp(OpUle, a, b) }
func (s *Store) Slt(a, b *Term) *Term { return s.cmp(OpSlt, a, b) }
func (s *Store) Sle(a, b *Term) *Term { return s.cmp(OpSle, a, b) }
func (s *Store) Ugt(a, b *Term) *Term { return s.cmp(OpUlt, b, a) }
func (s *Store) Uge(a, b *Term) *Term { return s.cmp(OpUle, b, a) }
func (s *Store) Sgt(a, b *Term) *Term { return s.cmp(OpSlt, b, a) }
func (s *Store) Sge(a, b *Term) *Term { return s.cmp(OpSle, b, a) }

func (s *Store) BNot(a *Term) *Term {
	if a.W != 0 {
		panic("BNot: not bool")
	}
	if a.IsConst() {
		return s.Bool(a.Val == 0)
	}
	if a.Op == OpBNot {
		return a.Args[0]
	}
	return s.mk(&Term{Op: OpBNot, W: 0, Args: []*Term{a}})
}

func (s *Store) BAnd(a, b *Term) *Term {
	if a.W != 0 || b.W != 0 {
		panic("BAnd: not bool")
	}
	if a.IsFalse() || b.IsFalse() {
		return s.False
	}
	if a.IsTrue() {
		return b
	}
	if b.IsTrue() {
		return a
	}
	if a == b {
		return a
	}
	if (a.Op == OpBNot && a.Args[0] == b) || (b.Op == OpBNot && b.Args[0] == a) {
		return s.False
	}
	if a.ID > b.ID {
		a, b = b, a
	}
	return s.mk(&Term{Op: OpBAnd, W: 0, Args: []*Term{a, b}})
}

func (s *Store) BOr(a, b *Term) *Term {
	if a.W != 0 || b.W != 0 {
		panic("BOr: not bool")
	}
	if a.IsTrue() || b.IsTrue() {
		return s.True
	}
	if a.IsFalse() {
		return b
	}
	if b.IsFalse() {
		return a
	}
	if a == b {
		return a
	}
	if (a.Op == OpBNot && a.Args[0] == b) || (b.Op == OpBNot && b.Args[0] == a) {
		return s.True
	}
	if a.ID > b.ID {
		a, b = b, a
	}
	return s.mk(&Term{Op: OpBOr, W: 0, Args: []*Term{a, b}})
}

func (s *Store) BXor(a, b *Term) *Term { return s.BNot(s.cmp(OpEq, a, b)) }

func (s *Store) Implies(a, b *Term) *Term { return s.BOr(s.BNot(a), b) }

func (s *Store) AndAll(ts ...*Term) *Term {
	r := s.True
	for _, t := range ts {
		r = s.BAnd(r, t)
	}
	return r
}

func (s *Store) OrAll(ts ...*Term) *Term {
	r := s.False
	for _, t := range ts {
		r = s.BOr(r, t)
	}
	return r
}

// BoolToBV converts a Bool into a w-bit 0/1 vector.
func (s *Store) BoolToBV(b *Term, w int) *Term {
	return s.Ite(b, s.Const(w, 1), s.Const(w, 0))
}

// BVToBool: x != 0
func (s *Store) BVToBool(x *Term) *Term {
	return s.BNot(s.Eq(x, s.Const(x.W, 0)))
}

// FP ops (no folding; compare/convert only).
func (s *Store) FP(op Op, w int, args ...*Term) *Term {
	return s.mk(&Term{Op: op, W: w, Args: args})
}

// ---------- printing ----------

func sortStr(w int) string {
	if w == 0 {
		return "Bool"
	}
	return fmt.Sprintf("(_ BitVec %d)", w)
}

func constStr(t *Term) string {
	if t.W == 0 {
		if t.Val == 1 {
			return "true"
		}
		return "false"
	}
	if t.W%4 == 0 {
		return fmt.Sprintf("#x%0*x", t.W/4, t.Val)
	}
	return fmt.Sprintf("#b%0*b", t.W, t.Val)
}

// SMTName sanitises variable names for SMT-LIB (quoted symbol).
func SMTName(n string) string {
	return "|" + strings.NewReplacer("|", "_", "\\", "_").Replace(n) + "|"
}

func fpSort(w int) (int, int) {
	if w == 32 {
		return 8, 24
	}
	return 11, 53
}

// Ref returns how the term is referenced inside other expressions.
func Ref(t *Term) string {
	switch t.Op {
	case OpConst:
		return constStr(t)
	case OpVar:
		return SMTName(t.Name)
	}
	return fmt.Sprintf("t%d", t.ID)
}

// Body prints the defining expression of a non-leaf term using Ref for children.
func Body(t *Term) string {
	var b strings.Builder
	switch t.Op {
	case OpExtract:
		fmt.Fprintf(&b, "((_ extract %d %d) %s)", t.Hi, t.Lo, Ref(t.Args[0]))
	case OpZExt:
		fmt.Fprintf(&b, "((_ zero_extend %d) %s)", t.W-t.Args[0].W, Ref(t.Args[0]))
	case OpSExt:
		fmt.Fprintf(&b, "((_ sign_extend %d) %s)", t.W-t.Args[0].W, Ref(t.Args[0]))
	case OpUF:
		fmt.Fprintf(&b, "(%s", SMTName(t.Name))
		for _, a := range t.Args {
			b.WriteByte(' ')
			b.WriteString(Ref(a))
		}
		b.WriteByte(')')
	case OpFPLt, OpFPLe, OpFPEq:
		e, m := fpSort(t.Args[0].W)
		op := map[Op]string{OpFPLt: "fp.lt", OpFPLe: "fp.leq", OpFPEq: "fp.eq"}[t.Op]
		fmt.Fprintf(&b, "(%s ((_ to_fp %d %d) %s) ((_ to_fp %d %d) %s))", op, e, m, Ref(t.Args[0]), e, m, Ref(t.Args[1]))
	case OpFPCvt:
		e0, m0 := fpSort(t.Args[0].W)
		e1, m1 := fpSort(t.W)
		fmt.Fprintf(&b, "(fp.to_ieee_bv ((_ to_fp %d %d) RNE ((_ to_fp %d %d) %s)))", e1, m1, e0, m0, Ref(t.Args[0]))
	case OpFPFromSInt:
		e1, m1 := fpSort(t.W)
		fmt.Fprintf(&b, "(fp.to_ieee_bv ((_ to_fp %d %d) RNE %s))", e1, m1, Ref(t.Args[0]))
	case OpFPFromUInt:
		e1, m1 := fpSort(t.W)
		fmt.Fprintf(&b, "(fp.to_ieee_bv ((_ to_fp_unsigned %d %d) RNE %s))", e1, m1, Ref(t.Args[0]))
	case OpFPIsNaN:
		e, m := fpSort(t.Args[0].W)
		fmt.Fprintf(&b, "(fp.isNaN ((_ to_fp %d %d) %s))", e, m, Ref(t.Args[0]))
	default:
		n, ok := opNames[t.Op]
		if !ok {
			panic(fmt.Sprintf("Body: op %d", t.Op))
		}
		fmt.Fprintf(&b, "(%s", n)
		for _, a := range t.Args {
			b.WriteByte(' ')
			b.WriteString(Ref(a))
		}
		b.WriteByte(')')
	}
	return b.String()
}

// Eval evaluates t under a model (var name -> value). Missing vars are 0.
func Eval(t *Term, model map[string]uint64, ufs func(name string, args []uint64) uint64) uint64 {
	memo := map[int]uint64{}
	var ev func(t *Term) uint64
	ev = func(t *Term) uint64 {
		if v, ok := memo[t.ID]; ok {
			return v
		}
		var r uint64
		switch t.Op {
		case OpConst:
			r = t.Val
		case OpVar:
			r = model[t.Name] & mask64(t.W)
		case OpNot:
			r = ^ev(t.Args[0]) & mask(t.W)
		case OpNeg:
			r = (-ev(t.Args[0])) & mask(t.W)
		case OpConcat:
			r = (ev(t.Args[0])<<uint(t.Args[1].W) | ev(t.Args[1])) & mask(t.W)
		case OpExtract:
			r = (ev(t.Args[0]) >> uint(t.Lo)) & mask(t.W)
		case OpZExt:
			r = ev(t.Args[0])
		case OpSExt:
			a := t.Args[0]
			v := ev(a)
			sh := uint(64 - a.W)
			r = uint64(int64(v<<sh)>>sh) & mask(t.W)
		case OpIte:
			if ev(t.Args[0]) != 0 {
				r = ev(t.Args[1])
			} else {
				r = ev(t.Args[2])
			}
		case OpEq:
			r = b2u(ev(t.Args[0]) == ev(t.Args[1]))
		case OpUlt:
			r = b2u(ev(t.Args[0]) < ev(t.Args[1]))
		case OpUle:
			r = b2u(ev(t.Args[0]) <= ev(t.Args[1]))
		case OpSlt:
			r = b2u(sx(ev(t.Args[0]), t.Args[0].W) < sx(ev(t.Args[1]), t.Args[0].W))
		case OpSle:
			r = b2u(sx(ev(t.Args[0]), t.Args[0].W) <= sx(ev(t.Args[1]), t.Args[0].W))
		case OpBAnd:
			r = ev(t.Args[0]) & ev(t.Args[1])
		case OpBOr:
			r = ev(t.Args[0]) | ev(t.Args[1])
		case OpBNot:
			r = 1 - ev(t.Args[0])
		case OpUF:
			var as []uint64
			for _, a := range t.Args {
				as = append(as, ev(a))
			}
			if ufs != nil {
				r = ufs(t.Name, as) & mask64(t.W)
			}
		default:
			a := &Term{Op: OpConst, W: t.W, Val: ev(t.Args[0])}
			bb := &Term{Op: OpConst, W: t.W, Val: ev(t.Args[1])}
			v, ok := foldBin(t.Op, t.W, a, bb)
			if !ok {
				panic(fmt.Sprintf("Eval: op %d", t.Op))
			}
			r = v
		}
		memo[t.ID] = r
		return r
	}
	return ev(t)
}

func mask64(w int) uint64 {
	if w == 0 {
		return 1
	}
	return mask(w)
}
func b2u(b bool) uint64 {
	if b {
		return 1
	}
	return 0
}
func sx(v uint64, w int) int64 {
	if w >= 64 {
		return int64(v)
	}
	sh := uint(64 - w)
	return int64(v<<sh) >> sh
}
