#!/opt/veriftools/pyvenv/bin/python3
"""Checks decided on the machine code of sonic's native subroutines (Engine B, see x86sym.py).

usage: x86checks.py --check <name> [--tier quick|thorough] [--json out.json]

Each check executes both instruction-set variants (internal/native/avx2, internal/native/sse) of one
routine symbolically for every input of the stated geometry, and discharges, per completed path,
  (spec)   outputs == an independent specification of the routine (written from the JSON / Go
           definitions, not transcribed from the C source),
  (memory) every load lies inside the input (or, when the buffer does not end at a page end, in the
           rest of the same page: those bytes are fresh unconstrained junk, so (spec) also decides
           that the result does not depend on them); every store lies inside the output objects,
and, over all paths, (equiv) the AVX2 result function == the SSE result function.
A violation is a z3 model = concrete input; it is printed as JSON for vcheck to replay natively.
"""
import sys, json, time, argparse
import z3
from x86sym import *

IN_PAGE = 0x10000000
STACK_TOP = 0x7ffff000
SPACE = (0x20, 0x09, 0x0a, 0x0d)


def new_state(m, regions, args):
    st = State()
    stack = Region('stack', STACK_TOP - 1536, [BV(0, 8)] * 1600, writable=True)
    st.regions = [Region('text', m.text_base, [BV(b, 8) for b in m.code.blob])] + regions + [stack]
    for r in REG64:
        st.regs[r] = m.fresh('init_' + r, 64)
    for r, v in zip(['rdi', 'rsi', 'rdx', 'rcx', 'r8', 'r9'], args):
        st.regs[r] = v if not isinstance(v, int) else BV(v, 64)
    st.regs['rsp'] = BV(STACK_TOP - 8, 64)
    off = STACK_TOP - 8 - stack.base
    for i in range(8):
        stack.data[off + i] = BV((RET_MAGIC >> (8 * i)) & 0xff, 8)
    st.pc = m.entry
    return st


def in_region(n, at_page_end, syms):
    """input buffer of n symbolic bytes. at_page_end: the byte after the buffer is on the next
    (unmapped) page; otherwise the buffer sits in the middle of a page and the bytes up to the end
    of the page are readable junk"""
    if at_page_end:
        base = IN_PAGE + 4096 - n
        return Region('in', base, syms, slack=0)
    base = IN_PAGE + 4096 + 128
    return Region('in', base, syms, slack=4096 - 128 - n)


def qword(v):
    return [BV((v >> (8 * i)) & 0xff, 8) for i in range(8)]


def rd_q(region, off):
    return simp(z3.Concat(*reversed(region.data[off:off + 8])))


class Result:
    def __init__(self, check):
        self.check = check
        self.funcs = []
        self.paths = self.steps = self.queries = self.unsat = self.sat = self.unknown = 0
        self.solver_time = 0.0
        self.violations = []
        self.incomplete = []
        self.cases = 0
        self.overread_paths = 0
        self.equiv_queries = 0
        self.bounds = ''
        self.notes = []

    def absorb(self, m):
        self.steps += m.steps_total; self.queries += m.queries
        self.unsat += m.q_unsat; self.sat += m.q_sat; self.unknown += m.q_unknown
        self.solver_time += m.solver_time
        self.paths += len(m.finished)
        for x in m.incomplete:
            if len(self.incomplete) < 20:
                self.incomplete.append(x)

    def to_json(self):
        return {'check': self.check, 'functions_encoded': self.funcs, 'bounds': self.bounds, 'cases': self.cases,
                'paths': self.paths, 'instructions': self.steps, 'queries': self.queries + self.equiv_queries,
                'queries_unsat': self.unsat, 'queries_sat': self.sat, 'queries_unknown': self.unknown,
                'solver_time_s': round(self.solver_time, 2), 'violations': self.violations,
                'incomplete': self.incomplete, 'overread_paths': self.overread_paths, 'notes': self.notes}


def model_bytes(model, syms):
    return [model.eval(s, model_completion=True).as_long() for s in syms]


def run_variant(res, variant, name, mk_state, spec, syms, case, max_steps=3000, want_paths=True):
    """executes one variant on one input geometry; returns list of (path-cond, outputs) or None"""
    blob, entry = BLOBS[(variant, name)]
    code = CODES[(variant, name)]
    m = Machine(code, entry, max_steps=max_steps)
    outs = []

    def on_finish(st):
        o = spec['outputs'](st, m)
        if st.region('in').overreads:
            res.overread_paths += 1
        bad = spec['mismatch'](o)
        if bad is not None:
            r = m.check(bad)
            if r == z3.sat:
                mod = m.solver.model()
                res.violations.append({'kind': 'spec', 'variant': variant, 'routine': name, 'case': case,
                                       'input': model_bytes(mod, syms),
                                       'got': {k: str(mod.eval(v, model_completion=True)) for k, v in o.items()},
                                       'msg': 'outputs differ from the specification'})
            elif r == z3.unknown:
                res.incomplete.append('solver unknown on spec query (%s %s %s)' % (variant, name, case))
        if want_paths:
            outs.append((z3.And(*st.path) if st.path else z3.BoolVal(True), o))

    m.on_finish = on_finish
    st0 = mk_state(m)
    m.run(st0)
    for v, st in m.violations:
        # the violation was raised on a feasible path; get a witness
        s = z3.Solver(); s.set('timeout', 20000)
        for c in st.path:
            s.add(c)
        inp = None
        if s.check() == z3.sat:
            inp = model_bytes(s.model(), syms)
        res.violations.append({'kind': v.kind, 'variant': variant, 'routine': name, 'case': case, 'input': inp, 'msg': v.msg})
    res.absorb(m)
    return outs


def equiv(res, name, oa, ob, syms, case, keys):
    """AVX2 result function == SSE result function (both given as path lists)"""
    if not oa or not ob:
        return
    s = z3.Solver(); s.set('timeout', 60000)
    diffs = []
    for k in keys:
        fa = oa[-1][1][k]
        for c, o in oa[:-1]:
            fa = z3.If(c, o[k], fa)
        fb = ob[-1][1][k]
        for c, o in ob[:-1]:
            fb = z3.If(c, o[k], fb)
        diffs.append(fa != fb)
    t = time.time()
    r = s.check(z3.Or(*diffs))
    res.solver_time += time.time() - t
    res.equiv_queries += 1
    if r == z3.sat:
        res.sat += 1
        res.violations.append({'kind': 'equiv', 'routine': name, 'case': case, 'input': model_bytes(s.model(), syms),
                               'msg': 'AVX2 and SSE variants return different results'})
    elif r == z3.unsat:
        res.unsat += 1
    else:
        res.unknown += 1
        res.incomplete.append('solver unknown on equivalence query (%s %s)' % (name, case))


# --------------------------------------------------------------------------- lspace

def is_space(b):
    return z3.Or(*[b == BV(c, 8) for c in SPACE])


def cases_lspace(res, tier):
    ns = list(range(0, 9)) + [31, 32, 33, 34] if tier == 'quick' else list(range(0, 17)) + [31, 32, 33, 34, 40, 63, 64, 65, 66, 70]
    res.bounds = 'lspace(sp, nb, p): nb in %s, every 0 <= p <= nb for nb <= 8 (thorough: <= 16); for larger nb p in {0,1,2,nb-33..nb-31,nb-2,nb-1,nb}, all byte values; buffer ending at a page end and in mid-page' % ns
    out = []
    for n in ns:
        ps = range(0, n + 1) if n <= (8 if tier == 'quick' else 16) else sorted(set(x for x in [0, 1, 2, n - 33, n - 32, n - 31, n - 2, n - 1, n] if 0 <= x <= n))
        for p in ps:
            for page_end in (True, False):
                out.append((n, p, page_end))
    return out


def run_lspace(res, c):
    name = 'lspace'
    for n, p, page_end in [c]:
        for _ in (0,):
            for _ in (0,):
                syms = [z3.BitVec('b%d' % i, 8) for i in range(n)]
                case = {'n': n, 'p': p, 'page_end': page_end}
                res.cases += 1

                def mk(m, n=n, p=p, page_end=page_end, syms=syms):
                    r = in_region(n, page_end, syms)
                    return new_state(m, [r], [r.base, n, p])

                def outputs(st, m):
                    return {'ret': st.regs['rax']}

                def mismatch(o, n=n, p=p, syms=syms):
                    # spec: the index of the first byte at or after p that is not JSON white space, nb if none
                    exp = BV(n, 64)
                    for i in range(n - 1, p - 1, -1):
                        exp = z3.If(is_space(syms[i]), exp, BV(i, 64))
                    return o['ret'] != exp

                sp = {'outputs': outputs, 'mismatch': mismatch}
                oa = run_variant(res, 'avx2', name, mk, sp, syms, case)
                ob = run_variant(res, 'sse', name, mk, sp, syms, case)
                equiv(res, name, oa, ob, syms, case, ['ret'])


# --------------------------------------------------------------------------- vsigned / vunsigned

V_INTEGER, ERR_EOF, ERR_INVAL, ERR_OVERFLOW, ERR_NUMBER_FMT = 9, 1, 2, 5, 6


def vint_spec(syms, n, p, signed):
    """(vt, iv, newp) as 64-bit terms for a text of n bytes scanned from p.  Written from the JSON
    number grammar: -?(0|[1-9][0-9]*) not followed by [.eE]; exact value or overflow at the first
    digit that leaves the range; the error position is the offending byte"""
    def res(vt, iv, np):
        return (BV(vt, 64), iv if not isinstance(iv, int) else BV(iv, 64), BV(np, 64))

    def ite3(c, a, b):
        return tuple(z3.If(c, x, y) for x, y in zip(a, b))

    def isdig(b):
        return z3.And(z3.UGE(b, BV(0x30, 8)), z3.ULE(b, BV(0x39, 8)))

    def isfrac(b):
        return z3.Or(b == BV(ord('.'), 8), b == BV(ord('e'), 8), b == BV(ord('E'), 8))

    W = 72

    def digits(j, val, neg):
        """val: W-bit exact value so far (already sign-applied); j: index of the next byte"""
        end = ite_end(j, val)
        if j >= n:
            return end
        d = z3.ZeroExt(W - 8, syms[j] - BV(0x30, 8))
        nv = val * BV(10, W) + (-d if neg else d)
        if signed:
            inr = z3.And(nv >= BV(-(1 << 63), W), nv <= BV((1 << 63) - 1, W))
        else:
            inr = z3.ULE(nv, BV((1 << 64) - 1, W))
        cont = ite3(inr, digits_cached(j + 1, nv, neg), res(-ERR_OVERFLOW, 0, j))
        return ite3(isdig(syms[j]), cont, end)

    def ite_end(j, val):
        ok = res(V_INTEGER, z3.Extract(63, 0, val), j)
        if j < n:
            return ite3(isfrac(syms[j]), res(-ERR_NUMBER_FMT, 0, j), ok)
        return ok

    def digits_cached(j, val, neg):
        return digits(j, val, neg)

    def body(i, neg):
        if i >= n:
            return res(-ERR_EOF, 0, n)
        c = syms[i]
        zero_alone = z3.And(c == BV(0x30, 8), z3.Not(isfrac(syms[i + 1])) if i + 1 < n else z3.BoolVal(True))
        r = digits(i, BV(0, W), neg)
        r = ite3(zero_alone, res(V_INTEGER, 0, i + 1), r)
        return ite3(isdig(c), r, res(-ERR_INVAL, 0, i))

    if p >= n:
        return res(-ERR_EOF, 0, n)
    minus = syms[p] == BV(ord('-'), 8)
    if signed:
        return ite3(minus, body(p + 1, True), body(p, False))
    return ite3(minus, res(-ERR_NUMBER_FMT, 0, p), body(p, False))


def cases_vint(res, tier, signed):
    name = 'vsigned' if signed else 'vunsigned'
    if tier == 'quick':
        geoms = [(n, p, None) for n in range(0, 5) for p in range(0, n + 1)]
    else:
        geoms = [(n, p, None) for n in range(0, 5) for p in range(0, n + 1)]
    # range boundary: 17 / 18 fixed leading digits, the rest of the text free
    pre_s = '92233720368547758'   # 2^63 = 9223372036854775808
    pre_u = '184467440737095516'  # 2^64 = 18446744073709551616
    pre = pre_s if signed else pre_u
    tails = (3,) if tier == 'quick' else (3, 4)
    for t in tails:
        geoms.append((len(pre) + t, 0, pre))
        if signed:
            geoms.append((len(pre) + t + 1, 0, '-' + pre))
    res.bounds = ('%s(src, &p, &st): all texts of %s bytes from every start offset; plus texts made of the fixed prefix %s%s '
                  'followed by %s free bytes (range boundary); buffer ending at a page end and in mid-page'
                  % (name, '0..4', '[-]' if signed else '', pre, list(tails)))
    return [(n, p, prefix, pe) for n, p, prefix in geoms for pe in (True, False)]


def run_vint(res, c, signed):
    name = 'vsigned' if signed else 'vunsigned'
    for n, p, prefix, page_end in [c]:
        for _ in (0,):
            syms = [z3.BitVec('b%d' % i, 8) for i in range(n)]
            data = list(syms)
            if prefix:
                for i, ch in enumerate(prefix):
                    data[i] = BV(ord(ch), 8)
            case = {'n': n, 'p': p, 'page_end': page_end, 'prefix': prefix or ''}
            res.cases += 1
            SRC, PP, RET = 0x20000000, 0x20001000, 0x20002000

            def mk(m, n=n, p=p, page_end=page_end, data=data):
                r = in_region(n, page_end, data)
                src = Region('src', SRC, qword(r.base) + qword(n))
                pp = Region('p', PP, qword(p), writable=True)
                ret = Region('ret', RET, [m.fresh('ret_init', 8) for _ in range(48)], writable=True)
                return new_state(m, [r, src, pp, ret], [SRC, PP, RET])

            def outputs(st, m):
                ret = st.region('ret')
                return {'vt': rd_q(ret, 0), 'dv': rd_q(ret, 8), 'iv': rd_q(ret, 16), 'ep': rd_q(ret, 24), 'p': rd_q(st.region('p'), 0)}

            def mismatch(o, n=n, p=p, data=data):
                vt, iv, np = vint_spec(data, n, p, signed)
                # the position of an overflow error is the offending digit or the digit before it
                pos_ok = z3.Or(o['p'] == np, z3.And(vt == BV(-ERR_OVERFLOW, 64), o['p'] == np - BV(1, 64)))
                return z3.Or(o['vt'] != vt, z3.Not(pos_ok), z3.And(vt == BV(V_INTEGER, 64), o['iv'] != iv),
                             o['ep'] != BV(p, 64), o['dv'] != BV(0, 64))

            sp = {'outputs': outputs, 'mismatch': mismatch}
            free = [s for s, d in zip(syms, data) if s is d]
            allsyms = [d if s is d else d for s, d in zip(syms, data)]
            oa = run_variant(res, 'avx2', name, mk, sp, data, case)
            ob = run_variant(res, 'sse', name, mk, sp, data, case)
            equiv(res, name, oa, ob, data, case, ['vt', 'iv', 'p'])



# --------------------------------------------------------------------------- validate_utf8_fast

def utf8_valid(b):
    """z3 predicate: the byte list b is well-formed UTF-8 (RFC 3629 / Go unicode/utf8.Valid)"""
    n = len(b)
    memo = {}

    def rng(x, lo, hi):
        return z3.And(z3.UGE(x, BV(lo, 8)), z3.ULE(x, BV(hi, 8)))

    def cont(i):
        return rng(b[i], 0x80, 0xBF) if i < n else z3.BoolVal(False)

    def v(i):
        if i >= n:
            return z3.BoolVal(i == n)
        if i in memo:
            return memo[i]
        c = b[i]
        alts = [z3.And(z3.ULT(c, BV(0x80, 8)), v(i + 1))]
        if i + 1 < n:
            alts.append(z3.And(rng(c, 0xC2, 0xDF), cont(i + 1), v(i + 2)))
        if i + 2 < n:
            alts.append(z3.And(c == BV(0xE0, 8), rng(b[i + 1], 0xA0, 0xBF), cont(i + 2), v(i + 3)))
            alts.append(z3.And(z3.Or(rng(c, 0xE1, 0xEC), rng(c, 0xEE, 0xEF)), cont(i + 1), cont(i + 2), v(i + 3)))
            alts.append(z3.And(c == BV(0xED, 8), rng(b[i + 1], 0x80, 0x9F), cont(i + 2), v(i + 3)))
        if i + 3 < n:
            alts.append(z3.And(c == BV(0xF0, 8), rng(b[i + 1], 0x90, 0xBF), cont(i + 2), cont(i + 3), v(i + 4)))
            alts.append(z3.And(rng(c, 0xF1, 0xF3), cont(i + 1), cont(i + 2), cont(i + 3), v(i + 4)))
            alts.append(z3.And(c == BV(0xF4, 8), rng(b[i + 1], 0x80, 0x8F), cont(i + 2), cont(i + 3), v(i + 4)))
        memo[i] = z3.Or(*alts)
        return memo[i]

    return v(0)


def cases_utf8(res, tier):
    out = []
    small = range(1, 4) if tier == 'quick' else range(1, 5)
    for n in small:
        out.append((n, 0, n, 'a'))
    big = [32, 64, 65, 128] if tier == 'quick' else [31, 32, 33, 63, 64, 65, 96, 127, 128, 129, 192]
    for n in big:
        wins = set([0, n - 2, n - 1] + [x for x in (30, 31, 62, 63, 64, 126, 127) if x < n])
        for w0 in sorted(wins):
            if w0 < 0:
                continue
            out.append((n, w0, min(2, n - w0), 'a'))
        # non-ASCII filler (two-byte characters): the window is aligned to a character boundary
        for w0 in sorted(set([0, n - 2 - n % 2] + [x for x in (30, 62, 126) if x + 2 <= n])):
            if w0 >= 0 and n % 2 == 0:
                out.append((n, w0, 2, 'e'))
    res.bounds = ('validate_utf8_fast(&s): every text of %s bytes; texts of %s bytes made of a filler (ASCII a, or the two-byte character U+00E9) '
                  'with a window of 2 free bytes at the start, the end and across the 32/64/128-byte block boundaries; buffer ending at a page end'
                  % (list(small), big))
    return [c + (pe,) for c in out for pe in ((True, False) if c[0] <= 4 else (True,))]


def run_utf8(res, c):
    name = 'validate_utf8_fast'
    n, w0, wl, filler, page_end = c
    syms = [z3.BitVec('b%d' % i, 8) for i in range(n)]
    data = []
    for i in range(n):
        if w0 <= i < w0 + wl:
            data.append(syms[i])
        elif filler == 'a':
            data.append(BV(0x61, 8))
        else:
            data.append(BV(0xC3 if i % 2 == 0 else 0xA9, 8))
    case = {'n': n, 'p': w0, 'page_end': page_end, 'window': wl, 'filler': filler}
    res.cases += 1
    SRC = 0x20000000

    def mk(m):
        r = in_region(n, page_end, data)
        src = Region('src', SRC, qword(r.base) + qword(n))
        return new_state(m, [r, src], [SRC])

    def outputs(st, m):
        return {'ret': st.regs['rax']}

    valid = utf8_valid(data)

    def mismatch(o):
        return (o['ret'] == BV(0, 64)) != valid

    sp = {'outputs': outputs, 'mismatch': mismatch}
    oa = run_variant(res, 'avx2', name, mk, sp, data, case, max_steps=20000)
    ob = run_variant(res, 'sse', name, mk, sp, data, case, max_steps=20000)
    if oa and ob:
        za = [(c_, {'z': z3.If(o['ret'] == BV(0, 64), BV(1, 1), BV(0, 1))}) for c_, o in oa]
        zb = [(c_, {'z': z3.If(o['ret'] == BV(0, 64), BV(1, 1), BV(0, 1))}) for c_, o in ob]
        equiv(res, name, za, zb, data, case, ['z'])

CHECKS = {
    'validate_utf8_fast': (['validate_utf8_fast'], cases_utf8, run_utf8),
    'lspace': (['lspace'], cases_lspace, run_lspace),
    'vsigned': (['vsigned'], lambda r, t: cases_vint(r, t, True), lambda r, c: run_vint(r, c, True)),
    'vunsigned': (['vunsigned'], lambda r, t: cases_vint(r, t, False), lambda r, c: run_vint(r, c, False)),
}

BLOBS, CODES = {}, {}


def load_all(names, res=None):
    for v in ('avx2', 'sse'):
        for nme in names:
            blob, entry = load_blob(v, nme)
            BLOBS[(v, nme)] = (blob, entry)
            CODES[(v, nme)] = Code(blob)
            if res is not None:
                res.funcs.append('internal/native/%s/%s_text_amd64.go (%d bytes, entry %d, sha256 %s)' % (v, nme, len(blob), entry, blob_digest(blob)))


def worker(arg):
    check, chunk = arg
    names, _, run = CHECKS[check]
    if not BLOBS:
        load_all(names)
    res = Result(check)
    for c in chunk:
        try:
            run(res, c)
        except Exception as e:  # an engine failure is an incomplete run, never a pass
            import traceback
            res.incomplete.append('ENGINE-ERROR on case %s: %s' % (c, traceback.format_exc()[-400:]))
    return res


def main():
    ap = argparse.ArgumentParser()
    ap.add_argument('--check', required=True)
    ap.add_argument('--tier', default='quick')
    ap.add_argument('--json')
    ap.add_argument('--jobs', type=int, default=16)
    a = ap.parse_args()
    names, mkcases, _ = CHECKS[a.check]
    res = Result(a.check)
    t0 = time.time()
    load_all(names, res)
    cases = mkcases(res, a.tier)
    import multiprocessing as mp
    chunks = [(a.check, [c]) for c in cases]
    with mp.Pool(a.jobs) as pool:
        for r in pool.imap_unordered(worker, chunks):
            res.cases += r.cases; res.paths += r.paths; res.steps += r.steps; res.queries += r.queries
            res.unsat += r.unsat; res.sat += r.sat; res.unknown += r.unknown; res.solver_time += r.solver_time
            res.equiv_queries += r.equiv_queries; res.overread_paths += r.overread_paths
            res.violations += r.violations; res.incomplete += r.incomplete
    for c in CODES.values():
        c.close()
    out = res.to_json()
    out['wall_s'] = round(time.time() - t0, 1)
    if a.json:
        json.dump(out, open(a.json, 'w'), indent=1)
    summary = dict(out); summary['violations'] = len(out['violations'])
    print(json.dumps(summary))
    for v in out['violations'][:10]:
        print('X86-VIOLATION', json.dumps(v))
    for x in out['incomplete'][:10]:
        print('X86-INCOMPLETE', x)


if __name__ == '__main__':
    main()
