#!/opt/veriftools/pyvenv/bin/python3
"""Engine B: bounded symbolic execution of the x86-64 machine code of sonic's native subroutines.

The bytes are parsed from /repo/internal/native/{avx2,sse}/<fn>_text_amd64.go on every run (hex
literals only), the entry offset from <fn>_subr.go, decoded with binutils objdump and executed
symbolically: registers, flags and memory bytes are z3 bit-vector terms, every conditional jump on a
symbolic flag forks (feasibility decided by z3), every load/store is attributed to a region and
checked.  Result: a list of (path condition, outputs) per routine, from which the checks in
x86checks.py build their queries.
"""
import os, re, subprocess, tempfile, hashlib, time
import z3

REPO = os.environ.get('VERIF_REPO', '/repo')

# --------------------------------------------------------------------------- blobs

def load_blob(variant, name):
    d = os.path.join(REPO, 'internal/native', variant)
    out = bytearray()
    for line in open(os.path.join(d, name + '_text_amd64.go')).read().splitlines():
        line = line.split('//')[0]
        for m in re.finditer(r'\b0x([0-9a-fA-F]{2})\b', line):
            out.append(int(m.group(1), 16))
    sub = open(os.path.join(d, name + '_subr.go')).read()
    m = re.search(r'_entry__' + name + r'\s*=\s*(\d+)', sub)
    entry = int(m.group(1)) if m else 0
    return bytes(out), entry


class Ins:
    __slots__ = ('addr', 'len', 'mn', 'ops', 'text')

    def __init__(self, addr, ln, mn, ops, text):
        self.addr, self.len, self.mn, self.ops, self.text = addr, ln, mn, ops, text


def _split_ops(s):
    ops, depth, cur = [], 0, ''
    for ch in s:
        if ch == '[':
            depth += 1
        if ch == ']':
            depth -= 1
        if ch == ',' and depth == 0:
            ops.append(cur.strip()); cur = ''
        else:
            cur += ch
    if cur.strip():
        ops.append(cur.strip())
    return ops


class Code:
    """lazy disassembly of a blob (objdump is re-synchronised at every jump target not seen yet)"""

    def __init__(self, blob):
        self.blob = blob
        self.ins = {}
        self.tmp = tempfile.NamedTemporaryFile(suffix='.bin', delete=False)
        self.tmp.write(blob); self.tmp.close()

    def close(self):
        try:
            os.unlink(self.tmp.name)
        except OSError:
            pass

    def _disasm(self, start):
        out = subprocess.run(['objdump', '-D', '-b', 'binary', '-mi386:x86-64', '-Mintel', '-w',
                              '--start-address=%d' % start, self.tmp.name],
                             capture_output=True, text=True).stdout
        for l in out.splitlines():
            m = re.match(r'\s*([0-9a-f]+):\t([0-9a-f ]+?)\s*\t(.*)$', l)
            if not m:
                continue
            addr = int(m.group(1), 16)
            nbytes = len(m.group(2).split())
            text = m.group(3).split('#')[0].strip()
            if addr in self.ins:
                break  # re-joined known code
            parts = text.split(None, 1)
            mn = parts[0]
            rest = parts[1] if len(parts) > 1 else ''
            # prefixes objdump prints as separate words
            while mn in ('rep', 'repz', 'repnz', 'lock', 'data16', 'notrack', 'bnd') and rest:
                p2 = rest.split(None, 1)
                mn = mn + ' ' + p2[0] if mn.startswith('rep') else p2[0]
                rest = p2[1] if len(p2) > 1 else ''
            self.ins[addr] = Ins(addr, nbytes, mn, _split_ops(rest), text)

    def at(self, addr):
        if addr not in self.ins:
            self._disasm(addr)
        return self.ins.get(addr)


# --------------------------------------------------------------------------- values

def BV(v, w):
    return z3.BitVecVal(v & ((1 << w) - 1), w)


def simp(e):
    return z3.simplify(e)


def is_c(e):
    return z3.is_bv_value(e)


def cval(e):
    return e.as_long()


REG64 = ['rax', 'rcx', 'rdx', 'rbx', 'rsp', 'rbp', 'rsi', 'rdi'] + ['r%d' % i for i in range(8, 16)]
SUB = {}
for i, r in enumerate(REG64):
    SUB[r] = (r, 0, 64)
for r32, r in zip(['eax', 'ecx', 'edx', 'ebx', 'esp', 'ebp', 'esi', 'edi'], REG64):
    SUB[r32] = (r, 0, 32)
for r16, r in zip(['ax', 'cx', 'dx', 'bx', 'sp', 'bp', 'si', 'di'], REG64):
    SUB[r16] = (r, 0, 16)
for r8, r in zip(['al', 'cl', 'dl', 'bl', 'spl', 'bpl', 'sil', 'dil'], REG64):
    SUB[r8] = (r, 0, 8)
for r8, r in zip(['ah', 'ch', 'dh', 'bh'], REG64):
    SUB[r8] = (r, 8, 8)
for i in range(8, 16):
    SUB['r%dd' % i] = ('r%d' % i, 0, 32)
    SUB['r%dw' % i] = ('r%d' % i, 0, 16)
    SUB['r%db' % i] = ('r%d' % i, 0, 8)

PTRSZ = {'BYTE': 8, 'WORD': 16, 'DWORD': 32, 'QWORD': 64, 'XMMWORD': 128, 'YMMWORD': 256}


class Violation(Exception):
    def __init__(self, kind, msg):
        Exception.__init__(self, kind + ': ' + msg)
        self.kind, self.msg = kind, msg


class NotEncoded(Exception):
    pass


class Region:
    """a memory region with concrete base. bytes: list of 8-bit terms.  readable beyond `size` up to
    `slack` bytes (same-page over-read: fresh junk), never writable beyond size"""

    def __init__(self, name, base, data, writable=False, slack=0, junk_prefix=None):
        self.name, self.base, self.writable, self.slack = name, base, writable, slack
        self.data = list(data)
        self.size = len(self.data)
        self.junk = {}
        self.junk_prefix = junk_prefix or (name + '_junk')
        self.overreads = 0

    def copy(self):
        if not self.writable and self.slack == 0:
            return self
        r = Region.__new__(Region)
        r.__dict__ = dict(self.__dict__)
        r.data = list(self.data)
        r.junk = dict(self.junk)
        return r


class State:
    def __init__(self):
        self.regs = {r: None for r in REG64}
        self.ymm = [BV(0, 256) for _ in range(16)]
        self.flags = {f: None for f in ('CF', 'ZF', 'SF', 'OF', 'PF')}
        self.regions = []
        self.pc = 0
        self.path = []
        self.steps = 0
        self.df = False
        self.log = []  # (kind, region, offset, size)

    def copy(self):
        s = State.__new__(State)
        s.regs = dict(self.regs)
        s.ymm = list(self.ymm)
        s.flags = dict(self.flags)
        s.regions = [r.copy() for r in self.regions]
        s.pc, s.path, s.steps, s.df = self.pc, list(self.path), self.steps, self.df
        s.log = list(self.log)
        return s

    def region(self, name):
        for r in self.regions:
            if r.name == name:
                return r
        raise KeyError(name)


RET_MAGIC = 0x0DEAD0000


class Machine:
    def __init__(self, code, entry, text_base=0x400000, max_steps=4000, max_paths=200000, timeout_ms=20000):
        self.code, self.entry, self.text_base = code, entry, text_base
        self.solver = z3.Solver()
        self.solver.set('timeout', timeout_ms)
        self.max_steps, self.max_paths = max_steps, max_paths
        self.queries = self.q_sat = self.q_unsat = self.q_unknown = 0
        self.solver_time = 0.0
        self.finished = []   # (state)
        self.violations = [] # (Violation, state)
        self.incomplete = [] # reasons
        self.fresh_n = 0
        self.steps_total = 0
        self.base_assumptions = []
        self.on_finish = None

    # ---- solver
    def check(self, *conds):
        t = time.time()
        self.queries += 1
        r = self.solver.check(*conds)
        self.solver_time += time.time() - t
        if r == z3.sat:
            self.q_sat += 1
        elif r == z3.unsat:
            self.q_unsat += 1
        else:
            self.q_unknown += 1
        return r

    def fresh(self, prefix, w):
        self.fresh_n += 1
        return z3.BitVec('%s_%d' % (prefix, self.fresh_n), w)

    # ---- registers
    def get(self, st, name):
        base, lo, w = SUB[name]
        v = st.regs[base]
        if v is None:
            v = self.fresh('uninit_' + base, 64)
            st.regs[base] = v
        if w == 64:
            return v
        return simp(z3.Extract(lo + w - 1, lo, v))

    def put(self, st, name, val):
        base, lo, w = SUB[name]
        if w == 64:
            st.regs[base] = simp(val)
        elif w == 32:
            st.regs[base] = simp(z3.ZeroExt(32, val))
        else:
            old = st.regs[base]
            if old is None:
                old = self.fresh('uninit_' + base, 64)
            parts = []
            if lo + w < 64:
                parts.append(z3.Extract(63, lo + w, old))
            parts.append(val)
            if lo > 0:
                parts.append(z3.Extract(lo - 1, 0, old))
            st.regs[base] = simp(z3.Concat(*parts))

    # ---- operands
    def parse_mem(self, op):
        m = re.match(r'(?:(\w+) PTR )?(?:[a-z]s:)?\[(.*)\]$', op)
        if not m:
            return None
        size = PTRSZ.get(m.group(1)) if m.group(1) else None
        expr = m.group(2)
        terms = re.findall(r'([+-]?)([^+-]+)', expr)
        base = index = None
        scale, disp, rip = 1, 0, False
        for sign, t in terms:
            t = t.strip()
            if '*' in t:
                r, s = t.split('*')
                index, scale = r, int(s, 0)
            elif t == 'rip':
                rip = True
            elif t in SUB:
                if base is None:
                    base = t
                else:
                    index = t
            else:
                v = int(t, 16) if t.startswith('0x') else int(t)
                disp += -v if sign == '-' else v
        return (size, base, index, scale, disp, rip)

    def ea(self, st, mem, ins):
        size, base, index, scale, disp, rip = mem
        a = BV(disp, 64)
        if rip:
            a = a + BV(self.text_base + ins.addr + ins.len, 64)
        if base:
            a = a + z3.ZeroExt(64 - SUB[base][2], self.get(st, base)) if SUB[base][2] < 64 else a + self.get(st, base)
        if index:
            a = a + self.get(st, index) * BV(scale, 64)
        return simp(a)

    # ---- memory
    def resolve(self, st, addr, nbytes, write):
        """returns list of (cond, region, offset) alternatives for a (possibly symbolic) address"""
        if is_c(addr):
            a = cval(addr)
            for r in st.regions:
                lim = r.size + (0 if write else r.slack)
                if r.base <= a and a + nbytes <= r.base + lim:
                    if write and not r.writable:
                        raise Violation('memory', 'store of %d bytes to read-only region %s+%d at pc=%#x' % (nbytes, r.name, a - r.base, st.pc))
                    return [(None, r, a - r.base)]
            raise Violation('memory', '%s of %d bytes at %s outside every region at pc=%#x' % ('store' if write else 'load', nbytes, self.where(st, a), st.pc))
        # symbolic: enumerate feasible values (bounded)
        alts = []
        self.solver.push()
        try:
            for _ in range(300):
                r = self.check()
                if r != z3.sat:
                    if r == z3.unknown:
                        raise NotEncoded('solver unknown while enumerating an address')
                    break
                v = self.solver.model().eval(addr, model_completion=True).as_long()
                alts.append(v)
                self.solver.add(addr != BV(v, 64))
            else:
                raise NotEncoded('symbolic address with > 300 feasible values at pc=%#x' % st.pc)
        finally:
            self.solver.pop()
        res = []
        for v in sorted(alts):
            found = None
            for r in st.regions:
                lim = r.size + (0 if write else r.slack)
                if r.base <= v and v + nbytes <= r.base + lim:
                    found = r
            if found is None or (write and not found.writable):
                # feasible address outside every region: a violation with that address as witness
                st.path.append(addr == BV(v, 64))
                raise Violation('memory', '%s of %d bytes at %s (symbolic address) outside every region at pc=%#x' % ('store' if write else 'load', nbytes, self.where(st, v), st.pc))
            res.append((addr == BV(v, 64), found, v - found.base))
        return res

    def where(self, st, a):
        """describes an address relative to the nearest data region (stable across runs)"""
        best = None
        for r in st.regions:
            if r.name in ('text', 'stack'):
                continue
            if a >= r.base + r.size:
                d = ('%s end+%d' % (r.name, a - r.base - r.size), a - r.base - r.size)
            elif a < r.base:
                d = ('%s start-%d' % (r.name, r.base - a), r.base - a)
            else:
                d = ('%s+%d' % (r.name, a - r.base), 0)
            if best is None or d[1] < best[1]:
                best = d
        return best[0] if best else hex(a)

    def _rbyte(self, st, r, off):
        if off < r.size:
            return r.data[off]
        if off not in r.junk:
            r.junk[off] = self.fresh(r.junk_prefix, 8)
            r.overreads += 1
            st.log.append(('overread', r.name, off, 1))
        return r.junk[off]

    def load(self, st, addr, nbits):
        n = nbits // 8
        alts = self.resolve(st, addr, n, False)
        val = None
        for cond, r, off in reversed(alts):
            bs = [self._rbyte(st, r, off + i) for i in range(n)]
            v = z3.Concat(*reversed(bs)) if n > 1 else bs[0]
            if r.name not in ('text', 'stack'):
                st.log.append(('load', r.name, off, n))
            val = v if val is None else z3.If(cond, v, val)
        return simp(val)

    def store(self, st, addr, val, nbits):
        n = nbits // 8
        alts = self.resolve(st, addr, n, True)
        for cond, r, off in alts:
            for i in range(n):
                b = z3.Extract(8 * i + 7, 8 * i, val)
                if cond is not None and len(alts) > 1:
                    b = z3.If(cond, b, r.data[off + i])
                r.data[off + i] = simp(b)
            if r.name != 'stack':
                st.log.append(('store', r.name, off, n))

    # ---- operand read / write
    def opsize(self, op):
        if op in SUB:
            return SUB[op][2]
        if op.startswith('ymm'):
            return 256
        if op.startswith('xmm'):
            return 128
        m = self.parse_mem(op)
        if m:
            return m[0]
        return None

    def rd(self, st, op, ins, w=None):
        if op in SUB:
            return self.get(st, op)
        if op.startswith('ymm'):
            return st.ymm[int(op[3:])]
        if op.startswith('xmm'):
            return simp(z3.Extract(127, 0, st.ymm[int(op[3:])]))
        m = self.parse_mem(op)
        if m:
            size = m[0] or w
            return self.load(st, self.ea(st, m, ins), size)
        v = int(op, 16) if op.startswith('0x') or op.startswith('-0x') else int(op)
        return BV(v, w)

    def wr(self, st, op, val, ins, vex=False):
        if op in SUB:
            self.put(st, op, val); return
        if op.startswith('ymm'):
            st.ymm[int(op[3:])] = simp(val); return
        if op.startswith('xmm'):
            i = int(op[3:])
            if vex:
                st.ymm[i] = simp(z3.ZeroExt(128, val))
            else:
                st.ymm[i] = simp(z3.Concat(z3.Extract(255, 128, st.ymm[i]), val))
            return
        m = self.parse_mem(op)
        self.store(st, self.ea(st, m, ins), val, val.size())

    # ---- flags
    def set_flags_logic(self, st, res):
        w = res.size()
        st.flags['CF'] = z3.BoolVal(False); st.flags['OF'] = z3.BoolVal(False)
        self._zsp(st, res)

    def _zsp(self, st, res):
        w = res.size()
        st.flags['ZF'] = simp(res == BV(0, w))
        st.flags['SF'] = simp(z3.Extract(w - 1, w - 1, res) == BV(1, 1))
        st.flags['PF'] = None

    def set_flags_add(self, st, a, b, res, carry_in=None):
        w = res.size()
        ea, eb = z3.ZeroExt(1, a), z3.ZeroExt(1, b)
        full = ea + eb if carry_in is None else ea + eb + z3.ZeroExt(w, carry_in)
        st.flags['CF'] = simp(z3.Extract(w, w, full) == BV(1, 1))
        sa, sb, sr = (z3.Extract(w - 1, w - 1, x) for x in (a, b, res))
        st.flags['OF'] = simp(z3.And(sa == sb, sa != sr))
        self._zsp(st, res)

    def set_flags_sub(self, st, a, b, res):
        w = res.size()
        st.flags['CF'] = simp(z3.ULT(a, b))
        sa, sb, sr = (z3.Extract(w - 1, w - 1, x) for x in (a, b, res))
        st.flags['OF'] = simp(z3.And(sa != sb, sa != sr))
        self._zsp(st, res)

    def flag(self, st, f):
        v = st.flags[f]
        if v is None:
            raise NotEncoded('flag %s read while undefined at pc=%#x' % (f, st.pc))
        return v

    def cond(self, st, cc):
        F = lambda f: self.flag(st, f)
        if cc in ('e', 'z'): return F('ZF')
        if cc in ('ne', 'nz'): return z3.Not(F('ZF'))
        if cc in ('b', 'c', 'nae'): return F('CF')
        if cc in ('ae', 'nb', 'nc'): return z3.Not(F('CF'))
        if cc in ('a', 'nbe'): return z3.And(z3.Not(F('CF')), z3.Not(F('ZF')))
        if cc in ('be', 'na'): return z3.Or(F('CF'), F('ZF'))
        if cc == 's': return F('SF')
        if cc == 'ns': return z3.Not(F('SF'))
        if cc == 'o': return F('OF')
        if cc == 'no': return z3.Not(F('OF'))
        if cc in ('l', 'nge'): return F('SF') != F('OF')
        if cc in ('ge', 'nl'): return F('SF') == F('OF')
        if cc in ('le', 'ng'): return z3.Or(F('ZF'), F('SF') != F('OF'))
        if cc in ('g', 'nle'): return z3.And(z3.Not(F('ZF')), F('SF') == F('OF'))
        raise NotEncoded('condition ' + cc)

    # ---- vector helpers
    @staticmethod
    def lanes(v, lw):
        n = v.size() // lw
        return [z3.Extract(lw * i + lw - 1, lw * i, v) for i in range(n)]

    @staticmethod
    def pack(ls):
        return simp(z3.Concat(*reversed(ls))) if len(ls) > 1 else simp(ls[0])

    def vec_bin(self, a, b, lw, f):
        return self.pack([f(x, y) for x, y in zip(self.lanes(a, lw), self.lanes(b, lw))])

    def pshufb128(self, a, m):
        ab = self.lanes(a, 8)
        out = []
        for mb in self.lanes(m, 8):
            idx = z3.Extract(3, 0, mb)
            sel = ab[15]
            for k in range(14, -1, -1):
                sel = z3.If(idx == BV(k, 4), ab[k], sel)
            out.append(z3.If(z3.Extract(7, 7, mb) == BV(1, 1), BV(0, 8), sel))
        return self.pack(out)

    # ---- one instruction; returns list of successor states
    def step(self, st):
        ins = self.code.at(st.pc)
        if ins is None:
            raise NotEncoded('no instruction at %#x' % st.pc)
        mn, ops = ins.mn, ins.ops
        nxt = ins.addr + ins.len
        st.steps += 1
        self.steps_total += 1
        # ---------------- control
        if mn == 'nop' or mn.startswith('nop') or mn == 'vzeroupper' and self._vzeroupper(st) or mn in ('endbr64',):
            st.pc = nxt; return [st]
        if mn == 'jmp':
            t = ops[0]
            if t.startswith('0x'):
                st.pc = int(t, 16); return [st]
            # indirect jump: enumerate targets
            tv = self.rd(st, t, ins, 64)
            return self._indirect(st, tv)
        if mn[0] == 'j' and mn != 'jmp':
            c = simp(self.cond(st, mn[1:]))
            tgt = int(ops[0], 16)
            return self._branch(st, c, tgt, nxt)
        if mn == 'call':
            t = ops[0]
            rsp = simp(self.get(st, 'rsp') - BV(8, 64))
            self.put(st, 'rsp', rsp)
            self.store(st, rsp, BV(self.text_base + nxt, 64), 64)
            if t.startswith('0x'):
                st.pc = int(t, 16); return [st]
            raise NotEncoded('indirect call at %#x' % ins.addr)
        if mn == 'ret':
            rsp = self.get(st, 'rsp')
            ra = self.load(st, rsp, 64)
            self.put(st, 'rsp', simp(rsp + BV(8, 64)))
            if not is_c(ra):
                raise Violation('control', 'symbolic return address at pc=%#x' % ins.addr)
            if cval(ra) == RET_MAGIC:
                st.pc = None
                return [st]
            st.pc = cval(ra) - self.text_base
            return [st]
        if mn == 'push':
            v = self.rd(st, ops[0], ins, 64)
            rsp = simp(self.get(st, 'rsp') - BV(8, 64)); self.put(st, 'rsp', rsp)
            self.store(st, rsp, v, 64); st.pc = nxt; return [st]
        if mn == 'pop':
            rsp = self.get(st, 'rsp')
            v = self.load(st, rsp, 64)
            self.put(st, 'rsp', simp(rsp + BV(8, 64)))
            self.wr(st, ops[0], v, ins); st.pc = nxt; return [st]
        # ---------------- data movement
        if mn in ('mov', 'movabs'):
            w = self.opsize(ops[0]) or self.opsize(ops[1])
            self.wr(st, ops[0], self.rd(st, ops[1], ins, w), ins)
        elif mn in ('movzx', 'movsx', 'movsxd'):
            w = self.opsize(ops[0])
            v = self.rd(st, ops[1], ins)
            v = z3.ZeroExt(w - v.size(), v) if mn == 'movzx' else z3.SignExt(w - v.size(), v)
            self.wr(st, ops[0], v, ins)
        elif mn == 'cdqe':
            self.put(st, 'rax', z3.SignExt(32, self.get(st, 'eax')))
        elif mn == 'lea':
            m = self.parse_mem(ops[1])
            a = self.ea(st, m, ins)
            w = self.opsize(ops[0])
            self.wr(st, ops[0], a if w == 64 else z3.Extract(w - 1, 0, a), ins)
        elif mn.startswith('cmov'):
            w = self.opsize(ops[0])
            c = self.cond(st, mn[4:])
            src = self.rd(st, ops[1], ins, w)  # the load happens regardless of the condition
            self.wr(st, ops[0], z3.If(c, src, self.rd(st, ops[0], ins, w)), ins)
        elif mn.startswith('set'):
            c = self.cond(st, mn[3:])
            self.wr(st, ops[0], z3.If(c, BV(1, 8), BV(0, 8)), ins)
        elif mn == 'bswap':
            v = self.rd(st, ops[0], ins)
            self.wr(st, ops[0], self.pack(list(reversed(self.lanes(v, 8)))), ins)
        # ---------------- ALU
        elif mn in ('add', 'sub', 'cmp', 'and', 'or', 'xor', 'test', 'adc', 'sbb'):
            w = self.opsize(ops[0]) or self.opsize(ops[1])
            a = self.rd(st, ops[0], ins, w)
            b = self.rd(st, ops[1], ins, w)
            if b.size() != w:
                b = z3.SignExt(w - b.size(), b)
            if mn == 'add':
                r = simp(a + b); self.set_flags_add(st, a, b, r)
            elif mn == 'adc':
                cf = z3.If(self.flag(st, 'CF'), BV(1, 1), BV(0, 1))
                r = simp(a + b + z3.ZeroExt(w - 1, cf)); self.set_flags_add(st, a, b, r, cf)
            elif mn in ('sub', 'cmp'):
                r = simp(a - b); self.set_flags_sub(st, a, b, r)
            elif mn == 'sbb':
                cf = z3.ZeroExt(w - 1, z3.If(self.flag(st, 'CF'), BV(1, 1), BV(0, 1)))
                r = simp(a - b - cf)
                full = z3.ZeroExt(1, a) - z3.ZeroExt(1, b) - z3.ZeroExt(1, cf)
                st.flags['CF'] = simp(z3.Extract(w, w, full) == BV(1, 1))
                st.flags['OF'] = None
                self._zsp(st, r)
            elif mn in ('and', 'test'):
                r = simp(a & b); self.set_flags_logic(st, r)
            elif mn == 'or':
                r = simp(a | b); self.set_flags_logic(st, r)
            else:
                r = simp(a ^ b); self.set_flags_logic(st, r)
            if mn not in ('cmp', 'test'):
                self.wr(st, ops[0], r, ins)
        elif mn in ('inc', 'dec'):
            a = self.rd(st, ops[0], ins)
            w = a.size()
            cf = st.flags['CF']
            if mn == 'inc':
                r = simp(a + BV(1, w)); self.set_flags_add(st, a, BV(1, w), r)
            else:
                r = simp(a - BV(1, w)); self.set_flags_sub(st, a, BV(1, w), r)
            st.flags['CF'] = cf
            self.wr(st, ops[0], r, ins)
        elif mn == 'neg':
            a = self.rd(st, ops[0], ins); w = a.size()
            r = simp(-a); self.set_flags_sub(st, BV(0, w), a, r)
            self.wr(st, ops[0], r, ins)
        elif mn == 'not':
            a = self.rd(st, ops[0], ins)
            self.wr(st, ops[0], simp(~a), ins)
        elif mn in ('shl', 'shr', 'sar', 'sal'):
            a = self.rd(st, ops[0], ins); w = a.size()
            cnt = self.rd(st, ops[1], ins, 8) if len(ops) > 1 else BV(1, 8)
            cnt = simp(z3.ZeroExt(w - 8, cnt) & BV(63 if w == 64 else 31, w))
            if not is_c(cnt):
                # variable count: result only, flags undefined-ish (mark unknown)
                r = simp(a << cnt if mn in ('shl', 'sal') else (z3.LShR(a, cnt) if mn == 'shr' else a >> cnt))
                self.wr(st, ops[0], r, ins)
                zf = simp(r == BV(0, w))
                st.flags = {'CF': None, 'OF': None, 'PF': None,
                            'ZF': None, 'SF': None}
                # flags stay unchanged when count==0; callers in these blobs never use them after variable shifts
            else:
                c = cval(cnt)
                if c != 0:
                    if mn in ('shl', 'sal'):
                        r = simp(a << cnt); cfb = z3.Extract(w - c, w - c, a) if c <= w else BV(0, 1)
                    elif mn == 'shr':
                        r = simp(z3.LShR(a, cnt)); cfb = z3.Extract(c - 1, c - 1, a)
                    else:
                        r = simp(a >> cnt); cfb = z3.Extract(min(c - 1, w - 1), min(c - 1, w - 1), a)
                    st.flags['CF'] = simp(cfb == BV(1, 1)); st.flags['OF'] = None
                    self._zsp(st, r)
                    self.wr(st, ops[0], r, ins)
        elif mn in ('rol', 'ror'):
            a = self.rd(st, ops[0], ins); w = a.size()
            cnt = self.rd(st, ops[1], ins, 8) if len(ops) > 1 else BV(1, 8)
            if not is_c(simp(cnt)):
                raise NotEncoded('variable rotate')
            c = cval(simp(cnt)) % w
            r = z3.RotateLeft(a, c) if mn == 'rol' else z3.RotateRight(a, c)
            self.wr(st, ops[0], simp(r), ins)
            st.flags['CF'] = None; st.flags['OF'] = None
        elif mn == 'bt':
            a = self.rd(st, ops[0], ins); w = a.size()
            b = self.rd(st, ops[1], ins, 8)
            if b.size() < w:
                b = z3.ZeroExt(w - b.size(), b)
            b = b & BV(w - 1, w)
            st.flags['CF'] = simp(z3.Extract(0, 0, z3.LShR(a, b)) == BV(1, 1))
        elif mn in ('bsf', 'tzcnt', 'bsr'):
            a = self.rd(st, ops[1], ins); w = a.size()
            if mn == 'bsr':
                r = BV(0, w)
                for k in range(w):
                    r = z3.If(z3.Extract(k, k, a) == BV(1, 1), BV(k, w), r)
            else:
                r = BV(w, w) if mn == 'tzcnt' else self.rd(st, ops[0], ins)
                for k in range(w - 1, -1, -1):
                    r = z3.If(z3.Extract(k, k, a) == BV(1, 1), BV(k, w), r)
            st.flags['ZF'] = simp(a == BV(0, w)) if mn != 'tzcnt' else None
            st.flags['CF'] = simp(a == BV(0, w)) if mn == 'tzcnt' else None
            st.flags['SF'] = st.flags['OF'] = st.flags['PF'] = None
            self.wr(st, ops[0], r, ins)
        elif mn == 'imul':
            if len(ops) == 1:
                raise NotEncoded('one-operand imul')
            w = self.opsize(ops[0])
            if len(ops) == 3:
                a = self.rd(st, ops[1], ins, w); b = self.rd(st, ops[2], ins, w)
            else:
                a = self.rd(st, ops[0], ins, w); b = self.rd(st, ops[1], ins, w)
            if b.size() != w:
                b = z3.SignExt(w - b.size(), b)
            full = z3.SignExt(w, a) * z3.SignExt(w, b)
            r = simp(z3.Extract(w - 1, 0, full))
            ovf = simp(full != z3.SignExt(w, r))
            st.flags['CF'] = ovf; st.flags['OF'] = ovf
            st.flags['ZF'] = st.flags['SF'] = st.flags['PF'] = None
            self.wr(st, ops[0], r, ins)
        elif mn == 'mul':
            b = self.rd(st, ops[0], ins); w = b.size()
            if w != 64 and w != 32:
                raise NotEncoded('mul width')
            a = self.get(st, 'rax' if w == 64 else 'eax')
            full = simp(z3.ZeroExt(w, a) * z3.ZeroExt(w, b))
            lo, hi = z3.Extract(w - 1, 0, full), z3.Extract(2 * w - 1, w, full)
            self.put(st, 'rax' if w == 64 else 'eax', lo)
            self.put(st, 'rdx' if w == 64 else 'edx', hi)
            ovf = simp(hi != BV(0, w))
            st.flags['CF'] = ovf; st.flags['OF'] = ovf
            st.flags['ZF'] = st.flags['SF'] = st.flags['PF'] = None
        # ---------------- SIMD
        elif mn in ('vmovdqu', 'vmovdqa', 'vmovups', 'vmovaps', 'movdqu', 'movdqa', 'movups', 'movaps'):
            w = self.opsize(ops[0]) or self.opsize(ops[1])
            v = self.rd(st, ops[1], ins, w)
            self.wr(st, ops[0], v, ins, vex=mn[0] == 'v')
        elif mn in ('vmovq', 'movq', 'vmovd', 'movd'):
            lw = 64 if mn.endswith('q') else 32
            if ops[0].startswith('xmm'):
                v = self.rd(st, ops[1], ins, lw)
                if v.size() > lw:
                    v = z3.Extract(lw - 1, 0, v)
                # movq/movd xmm, r/m zero the rest of the 128 bits (and VEX the upper half)
                i = int(ops[0][3:])
                hi = z3.Extract(255, 128, st.ymm[i]) if mn[0] != 'v' else BV(0, 128)
                st.ymm[i] = simp(z3.Concat(hi, z3.ZeroExt(128 - lw, v)))
            else:
                v = z3.Extract(lw - 1, 0, self.rd(st, ops[1], ins, 128))
                self.wr(st, ops[0], v, ins)
        elif mn in ('vpextrq', 'pextrq'):
            k = int(ops[2], 0)
            v = self.rd(st, ops[1], ins, 128)
            self.wr(st, ops[0], z3.Extract(64 * k + 63, 64 * k, v), ins)
        elif mn in ('vpcmpeqb', 'vpcmpgtb', 'vpcmpeqd', 'vpand', 'vpor', 'vpxor', 'vpandn', 'vpsubusb', 'vpaddb', 'vxorps',
                    'vpsubd', 'vpsubw', 'vpmullw', 'vpmulhuw', 'vpmuludq', 'vpackuswb', 'vpunpcklwd', 'vpshufb',
                    'pcmpeqb', 'pcmpgtb', 'pcmpeqd', 'pand', 'por', 'pxor', 'pandn', 'psubusb', 'paddb', 'xorps',
                    'psubd', 'psubw', 'pmullw', 'pmulhuw', 'pmuludq', 'packuswb', 'punpcklwd', 'pshufb'):
            vex = mn[0] == 'v'
            base = mn[1:] if vex else mn
            w = self.opsize(ops[0])
            if vex:
                a = self.rd(st, ops[1], ins, w); b = self.rd(st, ops[2], ins, w)
            else:
                a = self.rd(st, ops[0], ins, w); b = self.rd(st, ops[1], ins, w)
            r = self.vec_op(base, a, b)
            self.wr(st, ops[0], r, ins, vex=vex)
        elif mn in ('vpmovmskb', 'pmovmskb'):
            v = self.rd(st, ops[1], ins)
            bits = [z3.Extract(7, 7, l) for l in self.lanes(v, 8)]
            r = self.pack(bits)
            w = self.opsize(ops[0])
            self.wr(st, ops[0], z3.ZeroExt(w - r.size(), r), ins)
        elif mn in ('vpsrlw', 'vpsllq', 'vpsrlq', 'vpsllw', 'psrlw', 'psllq', 'psrlq', 'psllw', 'vpsrld', 'psrld', 'vpslld', 'pslld'):
            vex = mn[0] == 'v'
            base = mn[1:] if vex else mn
            lw = {'w': 16, 'd': 32, 'q': 64}[base[-1]]
            w = self.opsize(ops[0])
            src = self.rd(st, ops[1] if vex else ops[0], ins, w)
            cnt = int(ops[-1], 0)
            if base[2] == 'r':
                f = (lambda x: z3.LShR(x, BV(cnt, lw))) if cnt < lw else (lambda x: BV(0, lw))
            else:
                f = (lambda x: x << BV(cnt, lw)) if cnt < lw else (lambda x: BV(0, lw))
            self.wr(st, ops[0], self.pack([f(x) for x in self.lanes(src, lw)]), ins, vex=vex)
        elif mn in ('vpalignr', 'palignr'):
            vex = mn[0] == 'v'
            w = self.opsize(ops[0])
            a = self.rd(st, ops[1] if vex else ops[0], ins, w)
            b = self.rd(st, ops[2] if vex else ops[1], ins, w)
            k = int(ops[-1], 0)
            outs = []
            for h in range(w // 128):
                ah = z3.Extract(128 * h + 127, 128 * h, a); bh = z3.Extract(128 * h + 127, 128 * h, b)
                cat = z3.Concat(ah, bh)
                sh = z3.LShR(cat, BV(8 * k, 256)) if k < 32 else BV(0, 256)
                outs.append(z3.Extract(127, 0, sh))
            self.wr(st, ops[0], self.pack(outs), ins, vex=vex)
        elif mn == 'vperm2i128':
            a = self.rd(st, ops[1], ins, 256); b = self.rd(st, ops[2], ins, 256)
            k = int(ops[3], 0)
            def sel(c):
                if c & 8:
                    return BV(0, 128)
                src = [z3.Extract(127, 0, a), z3.Extract(255, 128, a), z3.Extract(127, 0, b), z3.Extract(255, 128, b)][c & 3]
                return src
            st.ymm[int(ops[0][3:])] = simp(z3.Concat(sel(k >> 4), sel(k & 15)))
        elif mn in ('vpbroadcastq', 'vpbroadcastb', 'vpbroadcastd'):
            lw = {'q': 64, 'b': 8, 'd': 32}[mn[-1]]
            v = self.rd(st, ops[1], ins, lw)
            v = z3.Extract(lw - 1, 0, v)
            w = self.opsize(ops[0])
            self.wr(st, ops[0], self.pack([v] * (w // lw)), ins, vex=True)
        elif mn in ('vpshufd', 'pshufd', 'vpshuflw', 'pshuflw'):
            vex = mn[0] == 'v'
            w = self.opsize(ops[0])
            a = self.rd(st, ops[1], ins, w)
            k = int(ops[2], 0)
            outs = []
            for h in range(w // 128):
                ah = z3.Extract(128 * h + 127, 128 * h, a)
                if mn.endswith('d'):
                    l = self.lanes(ah, 32)
                    outs.append(self.pack([l[(k >> (2 * i)) & 3] for i in range(4)]))
                else:
                    l = self.lanes(ah, 16)
                    outs.append(self.pack([l[(k >> (2 * i)) & 3] for i in range(4)] + l[4:]))
            self.wr(st, ops[0], self.pack(outs), ins, vex=vex)
        elif mn in ('vptest', 'ptest'):
            a = self.rd(st, ops[0], ins); b = self.rd(st, ops[1], ins, a.size())
            st.flags['ZF'] = simp((a & b) == BV(0, a.size()))
            st.flags['CF'] = simp((~a & b) == BV(0, a.size()))
            st.flags['SF'] = st.flags['OF'] = st.flags['PF'] = z3.BoolVal(False)
        elif mn == 'vzeroupper':
            for i in range(16):
                st.ymm[i] = simp(z3.ZeroExt(128, z3.Extract(127, 0, st.ymm[i])))
        else:
            raise NotEncoded('mnemonic %s (%s) at %#x' % (mn, ins.text, ins.addr))
        st.pc = nxt
        return [st]

    def _vzeroupper(self, st):
        for i in range(16):
            st.ymm[i] = simp(z3.ZeroExt(128, z3.Extract(127, 0, st.ymm[i])))
        return True

    def vec_op(self, base, a, b):
        if base == 'pcmpeqb':
            return self.vec_bin(a, b, 8, lambda x, y: z3.If(x == y, BV(0xff, 8), BV(0, 8)))
        if base == 'pcmpeqd':
            return self.vec_bin(a, b, 32, lambda x, y: z3.If(x == y, BV(0xffffffff, 32), BV(0, 32)))
        if base == 'pcmpgtb':
            return self.vec_bin(a, b, 8, lambda x, y: z3.If(x > y, BV(0xff, 8), BV(0, 8)))
        if base in ('pand',):
            return simp(a & b)
        if base in ('por',):
            return simp(a | b)
        if base in ('pxor', 'xorps'):
            return simp(a ^ b)
        if base == 'pandn':
            return simp(~a & b)
        if base == 'psubusb':
            return self.vec_bin(a, b, 8, lambda x, y: z3.If(z3.ULT(x, y), BV(0, 8), x - y))
        if base == 'paddb':
            return self.vec_bin(a, b, 8, lambda x, y: x + y)
        if base == 'psubd':
            return self.vec_bin(a, b, 32, lambda x, y: x - y)
        if base == 'psubw':
            return self.vec_bin(a, b, 16, lambda x, y: x - y)
        if base == 'pmullw':
            return self.vec_bin(a, b, 16, lambda x, y: x * y)
        if base == 'pmulhuw':
            return self.vec_bin(a, b, 16, lambda x, y: z3.Extract(31, 16, z3.ZeroExt(16, x) * z3.ZeroExt(16, y)))
        if base == 'pmuludq':
            return self.vec_bin(a, b, 64, lambda x, y: z3.ZeroExt(32, z3.Extract(31, 0, x)) * z3.ZeroExt(32, z3.Extract(31, 0, y)))
        if base == 'packuswb':
            def sat(x):
                return z3.If(x < BV(0, 16), BV(0, 8), z3.If(x > BV(255, 16), BV(255, 8), z3.Extract(7, 0, x)))
            outs = []
            for h in range(a.size() // 128):
                ah = self.lanes(z3.Extract(128 * h + 127, 128 * h, a), 16)
                bh = self.lanes(z3.Extract(128 * h + 127, 128 * h, b), 16)
                outs.append(self.pack([sat(x) for x in ah] + [sat(x) for x in bh]))
            return self.pack(outs)
        if base == 'punpcklwd':
            outs = []
            for h in range(a.size() // 128):
                ah = self.lanes(z3.Extract(128 * h + 127, 128 * h, a), 16)
                bh = self.lanes(z3.Extract(128 * h + 127, 128 * h, b), 16)
                l = []
                for i in range(4):
                    l += [ah[i], bh[i]]
                outs.append(self.pack(l))
            return self.pack(outs)
        if base == 'pshufb':
            outs = []
            for h in range(a.size() // 128):
                outs.append(self.pshufb128(z3.Extract(128 * h + 127, 128 * h, a), z3.Extract(128 * h + 127, 128 * h, b)))
            return self.pack(outs)
        raise NotEncoded('vector op ' + base)

    def _branch(self, st, c, tgt, nxt):
        if z3.is_true(c):
            st.pc = tgt; return [st]
        if z3.is_false(c):
            st.pc = nxt; return [st]
        out = []
        for cond, pc in ((c, tgt), (simp(z3.Not(c)), nxt)):
            r = self.check(cond)
            if r == z3.unsat:
                continue
            if r == z3.unknown:
                self.incomplete.append('solver unknown at branch pc=%#x (kept)' % st.pc)
            s2 = st.copy() if len(out) == 0 else st
            s2.pc = pc
            s2.path.append(cond)
            out.append(s2)
        # note: first alternative got a copy, second reuses st
        return out

    def _indirect(self, st, tv):
        tv = simp(tv)
        if is_c(tv):
            st.pc = cval(tv) - self.text_base; return [st]
        outs = []
        self.solver.push()
        try:
            for _ in range(64):
                r = self.check()
                if r != z3.sat:
                    break
                v = self.solver.model().eval(tv, model_completion=True).as_long()
                s2 = st.copy(); s2.pc = v - self.text_base; s2.path.append(tv == BV(v, 64))
                outs.append(s2)
                self.solver.add(tv != BV(v, 64))
            else:
                raise NotEncoded('indirect jump with > 64 targets')
        finally:
            self.solver.pop()
        return outs

    # ---- exploration (DFS; the solver's assertion stack mirrors the path condition)
    def run(self, st0):
        self._dfs(st0, 0)

    def _dfs(self, st, depth):
        while True:
            if st.pc is None:
                self.finished.append(st)
                if self.on_finish:
                    self.on_finish(st)
                return
            if st.steps > self.max_steps:
                self.incomplete.append('UNWIND-EXCEEDED: path longer than %d instructions (pc=%#x)' % (self.max_steps, st.pc)); return
            if len(self.finished) + len(self.violations) > self.max_paths:
                self.incomplete.append('path budget exceeded'); return
            npath = len(st.path)
            try:
                succ = self.step(st)
            except Violation as v:
                # is the violation feasible under the path condition?  (it is raised only on feasible addresses)
                self.violations.append((v, st)); return
            except NotEncoded as e:
                self.incomplete.append('NOT-ENCODED: ' + str(e)); return
            if len(succ) == 1:
                st = succ[0]; continue  # a single feasible successor: its condition is implied
            for s in succ:
                self.solver.push()
                for c in s.path[npath:]:
                    self.solver.add(c)
                self._dfs(s, depth + 1)
                self.solver.pop()
            return


def blob_digest(blob):
    return hashlib.sha256(blob).hexdigest()[:16]
