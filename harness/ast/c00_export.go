//go:build verif

package ast

// VerifAstStubs lets harnesses of other packages (the root API) install the Go stand-ins
// for the native skip / search routines this package's harnesses use.
func VerifAstStubs() { verifAstStubs() }
