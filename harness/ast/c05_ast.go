//go:build verif

package ast

import (
	v "github.com/bytedance/sonic/internal/zzverif"
)

// C05 (Go side): the pure-Go scanners walk the input with raw pointers
// (uintptr arithmetic, *(*byte)(unsafe.Pointer(sp))). Every such dereference must stay inside
// the input string: the symbolic engine gives the string an object of exactly len(s) bytes and
// checks each load against it, so a one-byte over-read (or under-read) is a violation even
// though it can never change a result on the Go heap.

func verifScanInput(max int) (string, int) {
	n := v.Int("n", 0, max)
	s := v.StringNGuard("s", n, max) // natively: ends at a page edge followed by PROT_NONE
	pos := v.Int("pos", 0, max)
	v.Assume(pos <= n)
	return s, pos
}

// VerifC05SkipBlank: skipBlank never reads outside the input and returns the first non-blank
// position (or EOF).
func VerifC05SkipBlank() {
	s, pos := verifScanInput(3)
	r := skipBlank(s, pos)
	want := -1
	for i := pos; i < len(s); i++ {
		if !(s[i] == ' ' || s[i] == '\t' || s[i] == '\n' || s[i] == '\r') {
			want = i
			break
		}
	}
	if want < 0 {
		v.Assert(r < 0, "skipBlank finds a non-blank byte in an all-blank tail")
		v.Cover("eof")
	} else {
		v.Assert(r == want, "skipBlank returns the wrong position")
		v.Cover("found")
	}
}

// VerifC05SkipString: skipString (escape skipping by sp += 2) stays inside the input.
func VerifC05SkipString() {
	s, pos := verifScanInput(4)
	r, ep := skipString(s, pos)
	v.Assert(r <= len(s), "skipString returns a position past the end")
	v.Assert(ep < len(s), "skipString returns an escape position past the end")
	if r > 0 {
		v.Cover("closed")
	} else {
		v.Cover("error")
	}
}

// VerifC05SkipNumber: utils.SkipNumber (reads *(sp-1) when it sees a sign) stays inside the input.
func VerifC05SkipNumber() {
	s, pos := verifScanInput(4)
	r := skipNumber(s, pos)
	v.Assert(r <= len(s), "skipNumber returns a position past the end")
	if r > 0 {
		v.Cover("number")
	} else {
		v.Cover("error")
	}
}

// VerifC05SkipValue: the validating scanner and the fast scanner on arbitrary short inputs:
// no access outside the input, results inside it, and the outcome depends only on the bytes
// (the engine's string object has no readable bytes after the end at all).
func VerifC05SkipValue() {
	s, pos := verifScanInput(3)
	e, st := skipValue(s, pos)
	v.Assert(e <= len(s) && st <= len(s), "skipValue returns a position past the end")
	e2, st2 := skipValueFast(s, pos)
	v.Assert(e2 <= len(s) && st2 <= len(s), "skipValueFast returns a position past the end")
	if e > 0 {
		v.Assert(e2 > 0, "the fast scanner rejects a value the validating scanner accepts")
		v.Cover("value")
	} else {
		v.Cover("error")
	}
}
