//go:build verif

package ast

import (
	"github.com/bytedance/sonic/internal/native/types"
	v "github.com/bytedance/sonic/internal/zzverif"
)

// VerifC07AstErrorDescription: ast.SyntaxError formatting never panics for positions a
// producer can report (0 <= Pos <= len(Src), Parser.syntaxError uses the parser cursor) and
// the excerpt stays bounded.
func VerifC07AstErrorDescription() {
	n := v.Int("n", 0, 40)
	src := v.StringN("src", n, 40)
	pos := v.Int("pos", 0, 40)
	v.Assume(pos <= n)
	e := SyntaxError{Pos: pos, Src: src, Code: types.ParsingError(v.Int("code", 0, 12))}
	_ = e.Description()
	_ = e.Error()
	v.Cover("end")
}
