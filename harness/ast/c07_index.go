//go:build verif

package ast

import (
	v "github.com/bytedance/sonic/internal/zzverif"
)

// VerifC07IndexTerminates: positional access into a lazily parsed object whose text is broken
// somewhere after its first member - Index(i), IndexPair(i), IndexOrGet(i, key) - always returns
// (with a value or an error), never panics and never spins: the lazy loader must stop at the
// first member it cannot parse. One free byte in the second member's value, every index 0..3.
func VerifC07IndexTerminates() {
	verifAstStubs()
	n := v.Int("n", 0, 1)
	x := v.BytesN("x", n, 1)
	src := append([]byte(`{"a":1,"b":`), x...)
	src = append(src, []byte(`,"c":3}`)...)
	idx := v.Int("index", 0, 3)
	root, e := NewParser(string(src)).Parse()
	v.Assume(e == 0)
	v.MustFinishWithin(6000)
	switch v.Int("op", 0, 2) {
	case 0:
		nd := root.Index(idx)
		_ = nd.Check()
		v.Cover("index")
	case 1:
		p := root.IndexPair(idx)
		_ = p
		v.Cover("indexpair")
	case 2:
		nd := root.IndexOrGet(idx, "c")
		_ = nd.Check()
		v.Cover("indexorget")
	}
	v.Finished()
	v.Cover("end")
}
