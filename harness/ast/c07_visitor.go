//go:build verif

package ast

import (
	"encoding/json"

	v "github.com/bytedance/sonic/internal/zzverif"
)

type verifNopVisitor struct{}

func (verifNopVisitor) OnNull() error                        { return nil }
func (verifNopVisitor) OnBool(bool) error                    { return nil }
func (verifNopVisitor) OnString(string) error                { return nil }
func (verifNopVisitor) OnInt64(int64, json.Number) error     { return nil }
func (verifNopVisitor) OnFloat64(float64, json.Number) error { return nil }
func (verifNopVisitor) OnObjectBegin(int) error              { return nil }
func (verifNopVisitor) OnObjectKey(string) error             { return nil }
func (verifNopVisitor) OnObjectEnd() error                   { return nil }
func (verifNopVisitor) OnArrayBegin(int) error               { return nil }
func (verifNopVisitor) OnArrayEnd() error                    { return nil }

// VerifC07PreorderTruncated: ast.Preorder on a container that stops after a member (followed by
// up to two arbitrary bytes) never panics, and reports an error unless the tail closes it.
func VerifC07PreorderTruncated() {
	verifAstStubs()
	n := v.Int("n", 0, 2)
	tail := v.BytesN("tail", n, 2)
	var src []byte
	closer := byte('}')
	if v.Bool("object") {
		src = []byte{'{', '"', 'a', '"', ':', '1'}
		v.Cover("object")
	} else {
		src = []byte{'[', '1'}
		closer = ']'
		v.Cover("array")
	}
	src = append(src, tail...)
	err := Preorder(string(src), verifNopVisitor{}, &VisitorOptions{OnlyNumber: true})
	// the tail closes the container iff it is blanks, the closer, blanks
	closed, bad := false, false
	for _, c := range tail {
		switch {
		case c == ' ' || c == '\t' || c == '\n' || c == '\r':
		case c == closer && !closed:
			closed = true
		default:
			bad = true
		}
	}
	if closed && !bad {
		v.Assert(err == nil, "Preorder rejects a well-formed document")
		v.Cover("closed")
	} else if !closed && !bad {
		v.Assert(err != nil, "Preorder accepts a truncated document")
		v.Cover("truncated")
	}
}
