//go:build verif

package ast

import (
	"github.com/bytedance/sonic/internal/native/types"
	v "github.com/bytedance/sonic/internal/zzverif"
)

// Native models: on amd64 Parser.decodeValue/skip/skipFast/getByPath call the native
// routines; under the symbolic engine they are replaced by the repository's own pure-Go
// implementations (ast/decode.go, ast/api_compat.go: what non-amd64 builds run). Replays run
// the real natives.
// verifUnquote: what native unquote does for the simple two-character escapes used by the
// document families here (\/ \\ \" \n \t); \u sequences are outside these families.
func verifUnquote(s string) (string, types.ParsingError) {
	out := make([]byte, 0, len(s))
	for i := 0; i < len(s); i++ {
		c := s[i]
		if c != '\\' {
			out = append(out, c)
			continue
		}
		i++
		if i >= len(s) {
			return "", types.ERR_EOF
		}
		switch s[i] {
		case '/', '\\', '"':
			out = append(out, s[i])
		case 'n':
			out = append(out, '\n')
		case 't':
			out = append(out, '\t')
		default:
			return "", types.ERR_INVALID_ESCAPE
		}
	}
	return string(out), 0
}

func verifAstStubs() {
	v.Stub("github.com/bytedance/sonic/unquote.String", verifUnquote)
	// alg.Quote of the plain ASCII keys/strings these document families use
	v.Stub("github.com/bytedance/sonic/internal/encoder/alg.Quote", func(buf []byte, val string, double bool) []byte {
		buf = append(buf, '"')
		buf = append(buf, val...)
		return append(buf, '"')
	})
	v.Stub("(*github.com/bytedance/sonic/ast.Parser).decodeValue", func(self *Parser) (val types.JsonState) {
		e, vv := decodeValue(self.s, self.p, self.dbuf == nil)
		if e < 0 {
			return vv
		}
		self.p = e
		return vv
	})
	v.Stub("(*github.com/bytedance/sonic/ast.Parser).skip", func(self *Parser) (int, types.ParsingError) {
		e, s := skipValue(self.s, self.p)
		if e < 0 {
			return self.p, types.ParsingError(-e)
		}
		self.p = e
		return s, 0
	})
	v.Stub("(*github.com/bytedance/sonic/ast.Parser).skipFast", func(self *Parser) (int, types.ParsingError) {
		e, s := skipValueFast(self.s, self.p)
		if e < 0 {
			return self.p, types.ParsingError(-e)
		}
		self.p = e
		return s, 0
	})
	v.Stub("(*github.com/bytedance/sonic/ast.Parser).getByPath", func(self *Parser, validate bool, path ...interface{}) (int, types.ParsingError) {
		for _, p := range path {
			if idx, ok := p.(int); ok && idx >= 0 {
				if err := self.searchIndex(idx); err != 0 {
					return self.p, err
				}
			} else if key, ok := p.(string); ok {
				if err := self.searchKey(key); err != 0 {
					return self.p, err
				}
			} else {
				panic("path must be either int(>=0) or string")
			}
		}
		var start int
		var e types.ParsingError
		if validate {
			e0, s0 := skipValue(self.s, self.p)
			if e0 < 0 {
				return self.p, types.ParsingError(-e0)
			}
			self.p = e0
			start = s0
		} else {
			e0, s0 := skipValueFast(self.s, self.p)
			if e0 < 0 {
				return self.p, types.ParsingError(-e0)
			}
			self.p = e0
			start = s0
		}
		return start, e
	})
}

// document family: {"K0":D0,"K1":D1,"K2":D2} with 1-byte keys over {a,b} (so duplicated
// keys are inside the family) and 1-digit values.
func verifObjDoc(nk int) (string, []byte, []byte) {
	keys := v.Bytes("key", nk)
	vals := make([]byte, nk)
	doc := []byte{'{'}
	for i := 0; i < nk; i++ {
		v.Assume(keys[i] == 'a' || keys[i] == 'b')
		vals[i] = byte('1' + i) // distinct values tell the occurrences apart
		if i > 0 {
			doc = append(doc, ',')
		}
		doc = append(doc, '"', keys[i], '"', ':', vals[i])
	}
	doc = append(doc, '}')
	return string(doc), keys, vals
}

func verifSearchKey() byte {
	k := v.Byte("search")
	v.Assume(k == 'a' || k == 'b' || k == 'c')
	return k
}

// reference: first occurrence of the key
func verifFirst(keys []byte, k byte) int {
	for i := range keys {
		if keys[i] == k {
			return i
		}
	}
	return -1
}

// VerifC14ObjectGet: Node.Get on a raw object locates the first occurrence of the key (or reports
// that it does not exist) and the located node's Raw() is exactly that value's text.
func VerifC14ObjectGet() {
	verifAstStubs()
	doc, keys, vals := verifObjDoc(3)
	k := verifSearchKey()
	root := NewRaw(doc)
	v.Assert(root.Check() == nil, "NewRaw rejects a valid object")
	n := root.Get(string([]byte{k}))
	want := verifFirst(keys, k)
	if want < 0 {
		v.Assert(!n.Exists(), "Get finds a key that is not in the object")
		v.Cover("missing")
		return
	}
	v.Assert(n.Exists(), "Get does not find an existing key")
	raw, err := n.Raw()
	v.Assert(err == nil && len(raw) == 1 && raw[0] == vals[want], "Get returns a value other than the first occurrence of the key")
	i64, err2 := n.Int64()
	v.Assert(err2 == nil && i64 == int64(vals[want]-'0'), "typed accessor disagrees with the addressed value")
	if keys[0] == keys[2] || keys[0] == keys[1] {
		v.Cover("duplicate")
	}
	v.Cover("found")
}

// VerifC14SearcherGet: Searcher.GetByPath (what sonic.Get* runs around the native search) agrees
// with the same reference for every SearchOptions combination.
func VerifC14SearcherGet() {
	verifAstStubs()
	doc, keys, vals := verifObjDoc(3)
	k := verifSearchKey()
	s := NewSearcher(doc)
	s.ValidateJSON = v.Bool("ValidateJSON")
	s.CopyReturn = v.Bool("CopyReturn")
	s.ConcurrentRead = v.Bool("ConcurrentRead")
	n, err := s.GetByPath(string([]byte{k}))
	want := verifFirst(keys, k)
	if want < 0 {
		v.Assert(err == ErrNotExist, "search for a missing key does not report ErrNotExist")
		v.Cover("missing")
		return
	}
	v.Assert(err == nil, "search for an existing key fails")
	raw, err2 := n.Raw()
	v.Assert(err2 == nil && len(raw) == 1 && raw[0] == vals[want], "GetByPath returns a value other than the first occurrence of the key")
	v.Cover("found")
}

// VerifC14ArrayIndex: Node.Index on [D0,D1,D2] for every index -1..4.
func VerifC14ArrayIndex() {
	verifAstStubs()
	vals := []byte{'1', '2', '3'}
	doc := []byte{'['}
	for i := 0; i < 3; i++ {
		if i > 0 {
			doc = append(doc, ',')
		}
		doc = append(doc, vals[i])
	}
	doc = append(doc, ']')
	root := NewRaw(string(doc))
	idx := v.Int("idx", -1, 4)
	n := root.Index(idx)
	if idx < 0 || idx >= 3 {
		v.Assert(!n.Exists(), "Index out of range returns a node")
		v.Cover("out-of-range")
		return
	}
	v.Assert(n.Exists(), "Index in range finds nothing")
	raw, err := n.Raw()
	v.Assert(err == nil && len(raw) == 1 && raw[0] == vals[idx], "Index returns the wrong element")
	v.Cover("found")
}

// VerifC07NodeUnmarshalJSON: Node.UnmarshalJSON on arbitrary short input never panics.
func VerifC07NodeUnmarshalJSON() {
	n := v.Int("n", 0, 2)
	data := v.BytesN("data", n, 2)
	var node Node
	_ = node.UnmarshalJSON(data)
	v.Cover("end")
}

// VerifC02NewRawTrailing: NewRaw accepts exactly one value followed only by JSON spaces.
func VerifC02NewRawTrailing() {
	verifAstStubs()
	// <digit> <t1> <t2>: a valid value followed by two arbitrary bytes from a small alphabet
	t := v.Bytes("tail", 2)
	for i := range t {
		v.Assume(t[i] == ' ' || t[i] == '\n' || t[i] == 'x' || t[i] == ',' || t[i] == '1' || t[i] == ']')
	}
	doc := string([]byte{'1', t[0], t[1]})
	node := NewRaw(doc)
	onlySpace := (t[0] == ' ' || t[0] == '\n') && (t[1] == ' ' || t[1] == '\n')
	digits := t[0] == '1' && (t[1] == '1' || t[1] == ' ' || t[1] == '\n')
	if onlySpace || digits {
		v.Assert(node.Check() == nil, "NewRaw rejects a valid document")
		v.Cover("valid")
	} else {
		v.Assert(node.Check() != nil, "NewRaw accepts a document with non-space bytes after the value")
		v.Cover("trailing-garbage")
	}
}
