//go:build verif

package ast

import (
	"encoding/json"

	v "github.com/bytedance/sonic/internal/zzverif"
)

// VerifC14LazyHistoryGet: on an object with more than 16 members, what Get returns for a key
// does not depend on which members earlier reads have already made the lazy node load: it is
// the first occurrence, before and after any partial load, and the same on a second call.
//
// Document (20 members): 0 "x"+A, 1..15 fixed keys, 16 "m0", 17 "x"+B, 18 "x"+C, 19 "z9",
// A,B,C over {a,b}: duplicates before and after the 17th member are inside the family.
func VerifC14LazyHistoryGet() {
	verifAstStubs()
	a := v.Byte("keyA")
	b := v.Byte("keyB")
	c := v.Byte("keyC")
	v.Assume(a == 'a' || a == 'b')
	v.Assume(b == 'a' || b == 'b')
	v.Assume(c == 'a' || c == 'b')
	doc := []byte{'{', '"', 'x', a, '"', ':', '1'}
	const hex = "123456789abcdef"
	for i := 0; i < 15; i++ {
		doc = append(doc, ',', '"', 'k', hex[i], '"', ':', '7')
	}
	doc = append(doc, ',', '"', 'm', '0', '"', ':', '8')
	doc = append(doc, ',', '"', 'x', b, '"', ':', '2')
	doc = append(doc, ',', '"', 'x', c, '"', ':', '3')
	doc = append(doc, ',', '"', 'z', '9', '"', ':', '9', '}')
	k := v.Byte("search")
	v.Assume(k == 'a' || k == 'b')
	key := string([]byte{'x', k})
	opts := SearchOptions{}
	root := NewRaw(string(doc))
	v.Assert(root.Check() == nil, "NewRaw rejects a valid object")

	// an earlier read that loads a prefix of the members
	switch v.Concretize(v.Int("earlier", 0, 7)) {
	case 0:
		v.Cover("fresh")
	case 1:
		n := root.Get("m0")
		v.Assert(n.Exists(), "existing key not found")
	case 2:
		n := root.Get("z9")
		v.Assert(n.Exists(), "existing key not found")
	case 3:
		n := root.Index(17)
		v.Assert(n.Exists(), "existing member not found by index")
	case 4:
		n := root.Index(18)
		v.Assert(n.Exists(), "existing member not found by index")
	case 5:
		n := root.Index(19)
		v.Assert(n.Exists(), "existing member not found by index")
	case 6:
		n := root.IndexOrGet(18, "m0") // wrong index: falls back to the key
		v.Assert(n.Exists(), "existing key not found by IndexOrGet")
	case 7:
		n := root.Get("k9")
		v.Assert(n.Exists(), "existing key not found")
		v.Cover("short-prefix")
	}
	_ = opts

	want := byte(0)
	if a == k {
		want = '1'
	} else if b == k {
		want = '2'
	} else if c == k {
		want = '3'
	}
	for round := 0; round < 2; round++ {
		n := root.Get(key)
		if want == 0 {
			v.Assert(!n.Exists(), "Get finds a key that is not in the object")
			continue
		}
		v.Assert(n.Exists(), "Get does not find an existing key")
		raw, err := n.Raw()
		v.Assert(err == nil, "Raw fails on a located member")
		v.Assert(len(raw) == 1, "Raw of the located member is not the member's text")
		if len(raw) == 1 {
			v.Assert(raw[0] == want, "Get after an earlier partial load does not return the first occurrence of a duplicated key")
		}
	}
	// IndexOrGet with a wrong index falls back to the key: first occurrence as well
	if want != 0 {
		n := root.IndexOrGet(19, key)
		raw, err := n.Raw()
		v.Assert(err == nil && len(raw) == 1, "IndexOrGet fails on an existing key")
		if err == nil && len(raw) == 1 {
			v.Assert(raw[0] == want, "IndexOrGet (key fallback) does not return the first occurrence of a duplicated key")
		}
	}
	if a == b || b == c || a == c {
		v.Cover("duplicate")
	}
}

// VerifC14UseNumberViews: a value located by key is rendered the same whether the located
// node is still lazy or already loaded: with UseNumber every number below it is a json.Number
// carrying the literal of the document (InterfaceUseNumber / ArrayUseNumber / MapUseNumber),
// never a float64.
func VerifC14UseNumberViews() {
	verifAstStubs()
	root := NewRaw(`{"a":[1,2],"o":{"k":3},"n":4}`)
	loaded := v.Bool("loadAllFirst")
	if loaded {
		v.Assert(root.LoadAll() == nil, "LoadAll fails")
		v.Cover("loaded")
	} else {
		v.Cover("lazy")
	}
	switch v.Concretize(v.Int("what", 0, 2)) {
	case 0:
		n := root.Get("a")
		x, err := n.InterfaceUseNumber()
		v.Assert(err == nil, "InterfaceUseNumber fails on a located array")
		arr, ok := x.([]interface{})
		v.Assert(ok && len(arr) == 2, "InterfaceUseNumber of a located array is not a 2-element slice")
		if ok && len(arr) == 2 {
			num, isNum := arr[0].(json.Number)
			v.Assert(isNum, "InterfaceUseNumber renders a number below a located array as something other than json.Number")
			if isNum {
				v.Assert(string(num) == "1", "json.Number does not carry the literal of the document")
			}
		}
	case 1:
		n := root.Get("o")
		x, err := n.InterfaceUseNumber()
		v.Assert(err == nil, "InterfaceUseNumber fails on a located object")
		m, ok := x.(map[string]interface{})
		v.Assert(ok, "InterfaceUseNumber of a located object is not a map")
		if ok {
			num, isNum := m["k"].(json.Number)
			v.Assert(isNum, "InterfaceUseNumber renders a number below a located object as something other than json.Number")
			if isNum {
				v.Assert(string(num) == "3", "json.Number does not carry the literal of the document")
			}
		}
	case 2:
		n := root.Get("n")
		x, err := n.InterfaceUseNumber()
		v.Assert(err == nil, "InterfaceUseNumber fails on a located number")
		num, isNum := x.(json.Number)
		v.Assert(isNum && string(num) == "4", "InterfaceUseNumber of a located number is not its literal")
	}
	v.Cover("end")
}
