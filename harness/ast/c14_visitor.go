//go:build verif

package ast

import (
	"encoding/json"

	v "github.com/bytedance/sonic/internal/zzverif"
)

// verifSkipVisitor records the event stream and answers VisitOPSkip to the Begin event of
// every nested container when skip is set.
type verifSkipVisitor struct {
	skip   bool
	depth  int
	events []byte
}

func (s *verifSkipVisitor) ev(c byte) error { s.events = append(s.events, c); return nil }

func (s *verifSkipVisitor) OnNull() error                          { return s.ev('n') }
func (s *verifSkipVisitor) OnBool(bool) error                      { return s.ev('b') }
func (s *verifSkipVisitor) OnString(string) error                  { return s.ev('s') }
func (s *verifSkipVisitor) OnInt64(int64, json.Number) error       { return s.ev('i') }
func (s *verifSkipVisitor) OnFloat64(float64, json.Number) error   { return s.ev('f') }
func (s *verifSkipVisitor) OnObjectKey(string) error               { return s.ev('k') }
func (s *verifSkipVisitor) OnObjectEnd() error                     { s.depth--; return s.ev('}') }
func (s *verifSkipVisitor) OnArrayEnd() error                      { s.depth--; return s.ev(']') }
func (s *verifSkipVisitor) OnObjectBegin(int) error                { return s.begin('{') }
func (s *verifSkipVisitor) OnArrayBegin(int) error                 { return s.begin('[') }
func (s *verifSkipVisitor) begin(c byte) error {
	s.events = append(s.events, c)
	s.depth++
	if s.skip && s.depth > 1 {
		return VisitOPSkip
	}
	return nil
}

// VerifC14PreorderSkip: the event stream of ast.Preorder on [1,X,2] describes the document for
// every nested container X (empty ones, with blanks, included), whether or not the visitor asks
// to skip nested containers: no error, X reported as Begin..End, and the sibling after it.
func VerifC14PreorderSkip() {
	verifAstStubs()
	which := v.Concretize(v.Int("inner", 0, 5))
	inner := []string{"[]", "[ ]", "{}", "{ }", "[3]", `{"k":3}`}[which]
	full := []string{"[]", "[]", "{}", "{}", "[n]", "{kn}"}[which]
	vis := &verifSkipVisitor{skip: v.Bool("skip")}
	err := Preorder("[1,"+inner+",2]", vis, &VisitorOptions{OnlyNumber: true})
	v.Assert(err == nil, "Preorder fails on a valid document (a visitor's skip request surfaces as an error)")
	want := "[n" + full + "n]"
	if vis.skip {
		want = "[n" + full[:1] + full[len(full)-1:] + "n]"
		v.Cover("skip")
	} else {
		v.Cover("visit")
	}
	got := make([]byte, 0, len(vis.events))
	for _, c := range vis.events {
		if c == 'i' || c == 'f' {
			c = 'n' // a number, however the options report it
		}
		got = append(got, c)
	}
	v.Assert(string(got) == want, "the Preorder event stream does not describe the document (an event is missing, or the traversal stops early)")
}
