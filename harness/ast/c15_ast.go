//go:build verif

package ast

import (
	v "github.com/bytedance/sonic/internal/zzverif"
)

// 17-pair objects cross the hash-index threshold (ast/node.go _Threshold_Index = 16).
// Keys: pair 0 is "x"+A, pairs 1..15 are the fixed keys k1..kf, pair 16 is "x"+B with
// A,B over {a,b}: a duplicated key (A==B) is inside the family.
func verifBigDoc() (string, byte, byte, []byte) {
	a := v.Byte("keyA")
	b := v.Byte("keyB")
	v.Assume(a == 'a' || a == 'b')
	v.Assume(b == 'a' || b == 'b')
	vals := []byte{'1', '2'}
	doc := []byte{'{', '"', 'x', a, '"', ':', vals[0]}
	const hex = "123456789abcdef"
	for i := 0; i < 15; i++ {
		if i == 7 {
			// member 8 is written with an escape sequence: "\/8" spells the key "/8"
			doc = append(doc, ',', '"', '\\', '/', '8', '"', ':', '7')
			continue
		}
		doc = append(doc, ',', '"', 'k', hex[i], '"', ':', '7')
	}
	doc = append(doc, ',', '"', 'x', b, '"', ':', vals[1], '}')
	return string(doc), a, b, vals
}

// VerifC14BigObjectGet: lookups on an object with more than 16 members return the first
// occurrence of the key whether the node is still lazy or fully loaded (hash index built);
// lazy loading is unobservable (C15).
func VerifC14BigObjectGet() {
	verifAstStubs()
	doc, a, b, vals := verifBigDoc()
	k := v.Byte("search")
	v.Assume(k == 'a' || k == 'b')
	key := string([]byte{'x', k})
	root := NewRaw(doc)
	v.Assert(root.Check() == nil, "NewRaw rejects a valid object")
	loadFirst := v.Bool("loadAllFirst")
	if loadFirst {
		v.Assert(root.LoadAll() == nil, "LoadAll fails on a valid object")
	}
	n := root.Get(key)
	want := -1
	if a == k {
		want = 0
	} else if b == k {
		want = 1
	}
	if want < 0 {
		v.Assert(!n.Exists(), "Get finds a key that is not in the object")
		v.Cover("missing")
		return
	}
	v.Assert(n.Exists(), "Get does not find an existing key")
	raw, err := n.Raw()
	if loadFirst {
		v.Assert(err == nil && len(raw) == 1 && raw[0] == vals[want], "Get on a fully loaded (indexed) object does not return the first occurrence of a duplicated key")
		v.Cover("indexed")
	} else {
		v.Assert(err == nil && len(raw) == 1 && raw[0] == vals[want], "Get on a lazy object does not return the first occurrence of the key")
		v.Cover("lazy")
	}
	// a fixed key in the middle is found in every representation
	m := root.Get("k9")
	v.Assert(m.Exists(), "a plain key of a 17-member object is not found")
	// the member whose key is spelled with an escape sequence is addressed by its unescaped name
	e := root.Get("/8")
	v.Assert(e.Exists(), "a key written with an escape sequence is not found by its unescaped name")
	e2 := root.Get("/8") // and again, now that earlier lookups may have loaded/indexed the object
	v.Assert(e2.Exists(), "a key written with an escape sequence is not found on the second lookup")
	if a == b {
		v.Cover("duplicate")
	}
}

// ---- model-based operation sequences on small containers (C15) ----

type verifModel struct {
	keys []byte // 0 = removed slot
	vals []byte
}

func (m *verifModel) get(k byte) int {
	for i := range m.keys {
		if m.keys[i] == k {
			return i
		}
	}
	return -1
}

func (m *verifModel) live() int {
	n := 0
	for _, k := range m.keys {
		if k != 0 {
			n++
		}
	}
	return n
}

// verifCheckObject compares every key lookup and the live member count with the model.
func verifCheckObject(root *Node, m *verifModel, what string) {
	for _, k := range []byte{'a', 'b', 'c'} {
		n := root.Get(string([]byte{k}))
		i := m.get(k)
		if i < 0 {
			v.Assert(!n.Exists(), what+": a key absent from the model is found")
		} else {
			v.Assert(n.Exists(), what+": a key present in the model is not found")
			if n.Exists() {
				r, err := n.Raw()
				v.Assert(err == nil && len(r) == 1 && r[0] == m.vals[i], what+": value differs from the model")
			}
		}
	}
}

// VerifC15ObjectOps: after Set / Unset / Add sequences of length 2 (arguments symbolic) on a
// 3-member object in raw, lazy (one lookup done) or loaded state, every lookup equals a plain
// ordered-map model.
func VerifC15ObjectOps() {
	verifAstStubs()
	// distinct keys only: duplicated keys under mutation have no agreed model
	root := NewRaw(`{"a":1,"b":2,"c":3}`)
	m := &verifModel{keys: []byte{'a', 'b', 'c'}, vals: []byte{'1', '2', '3'}}
	switch v.Int("initialState", 0, 2) {
	case 1:
		_ = root.Get("a") // lazy: only a prefix parsed
		v.Cover("lazy")
	case 2:
		v.Assert(root.LoadAll() == nil, "LoadAll fails")
		v.Cover("loaded")
	}
	for step := 0; step < 2; step++ {
		op := v.Concretize(v.Int("op", 0, 3))
		k := byte('a' + v.Concretize(v.Int("opKeyIdx", 0, 3))) // a..d, fixed once chosen
		d := byte('7' + step)
		key := string([]byte{k})
		switch op {
		case 0: // Set
			existed, err := root.Set(key, NewNumber(string([]byte{d})))
			v.Assert(err == nil, "Set fails")
			i := m.get(k)
			v.Assert(existed == (i >= 0), "Set reports the wrong 'existed'")
			if i >= 0 {
				m.vals[i] = d
			} else {
				m.keys = append(m.keys, k)
				m.vals = append(m.vals, d)
			}
		case 1: // Unset
			existed, err := root.Unset(key)
			v.Assert(err == nil, "Unset fails")
			i := m.get(k)
			v.Assert(existed == (i >= 0), "Unset reports the wrong 'existed'")
			if i >= 0 {
				m.keys[i] = 0
			}
		case 2: // read only
			_ = root.Get(key)
		case 3: // Pop removes the last member that is still there
			v.Assume(k == 'a') // the key argument is unused: one representative
			if m.live() > 0 {
				v.Assert(root.Pop() == nil, "Pop fails")
				for i := len(m.keys) - 1; i >= 0; i-- {
					if m.keys[i] != 0 {
						m.keys[i] = 0
						break
					}
				}
				v.Cover("pop")
			}
		}
		verifCheckObject(&root, m, "after an operation")
		if l, err := root.Len(); err == nil {
			v.Assert(l == m.live(), "Len differs from the number of members of the model")
		}
	}
	v.Cover("end")
}

// VerifC15ArrayOps: SetByIndex / UnsetByIndex / Add / Pop on a 3-element array vs. a slice model.
func VerifC15ArrayOps() {
	verifAstStubs()
	root := NewRaw(`[1,2,3]`)
	model := []byte{'1', '2', '3'}
	switch v.Int("initialState", 0, 2) {
	case 1:
		_ = root.Index(0)
		v.Cover("lazy")
	case 2:
		v.Assert(root.LoadAll() == nil, "LoadAll fails")
		v.Cover("loaded")
	}
	for step := 0; step < 2; step++ {
		// one of 27 operations per step, chosen symbolically and then fixed (the solver
		// enumerates the choices; everything after the choice is concrete for this document)
		sel := v.Concretize(v.Int("sel", 0, 26))
		op, idx, dst := 0, 0, 0
		switch {
		case sel < 5: // SetByIndex(-1..3)
			op, idx = 0, sel-1
		case sel < 10: // UnsetByIndex(-1..3)
			op, idx = 1, sel-6
		case sel == 10:
			op = 2
		case sel == 11:
			op = 3
		default: // Move(dst 0..2, src -1..3)
			op, idx, dst = 4, (sel-12)%5-1, (sel-12)/5
		}
		d := byte('7' + step)
		nn := NewNumber(string([]byte{d}))
		switch op {
		case 0:
			existed, err := root.SetByIndex(idx, nn)
			if idx >= 0 && idx < len(model) {
				v.Assert(err == nil && existed, "SetByIndex in range fails")
				model[idx] = d
			} else {
				v.Assert(!existed, "SetByIndex out of range reports success")
			}
		case 1:
			existed, err := root.UnsetByIndex(idx)
			if idx >= 0 && idx < len(model) {
				v.Assert(err == nil && existed, "UnsetByIndex in range fails")
				model = append(model[:idx], model[idx+1:]...)
			} else {
				v.Assert(!existed, "UnsetByIndex out of range reports success")
			}
		case 2:
			v.Assert(root.Add(nn) == nil, "Add fails")
			model = append(model, d)
		case 3:
			if len(model) > 0 {
				v.Assert(root.Pop() == nil, "Pop fails")
				model = model[:len(model)-1]
			}
		case 4: // Move(dst, src), both in range
			src := idx
			if src >= 0 && src < len(model) && dst < len(model) {
				v.Assert(root.Move(dst, src) == nil, "Move fails")
				x := model[src]
				rest := append(append([]byte{}, model[:src]...), model[src+1:]...)
				model = append(append(append([]byte{}, rest[:dst]...), x), rest[dst:]...)
				v.Cover("move")
			}
		}
		// observe: every index and one past the end
		for i := 0; i <= len(model); i++ {
			n := root.Index(i)
			if i < len(model) {
				v.Assert(n.Exists(), "array element missing after an operation")
				if n.Exists() {
					r, err := n.Raw()
					v.Assert(err == nil && len(r) == 1 && r[0] == model[i], "array element differs from the model")
				}
			} else {
				v.Assert(!n.Exists(), "array has more elements than the model")
			}
		}
	}
	v.Cover("end")
}
