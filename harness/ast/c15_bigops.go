//go:build verif

package ast

import (
	v "github.com/bytedance/sonic/internal/zzverif"
)

// VerifC15BigObjectUnset: removing one member of an object with more than 16 members (hash
// index in use) leaves every other member addressable exactly as an ordered list of pairs
// would: in particular, with a duplicated key, removing one occurrence leaves the other one
// reachable by key, as it is on small (linearly searched) objects.
func VerifC15BigObjectUnset() {
	verifAstStubs()
	doc, a, b, vals := verifBigDoc() // member 0 is "x"+A (value vals[0]), member 16 is "x"+B (vals[1])
	root := NewRaw(doc)
	v.Assert(root.Check() == nil, "NewRaw rejects a valid object")
	if v.Bool("loadAllFirst") {
		v.Assert(root.LoadAll() == nil, "LoadAll fails on a valid object")
		v.Cover("loaded")
	} else {
		v.Cover("lazy")
	}
	// model: which of the two 'x' members are still there
	first, last := true, true
	switch v.Concretize(v.Int("op", 0, 4)) {
	case 0:
		ok, err := root.UnsetByIndex(16)
		v.Assert(ok && err == nil, "UnsetByIndex of the last member fails")
		last = false
	case 1:
		v.Assert(root.Pop() == nil, "Pop fails")
		last = false
	case 2:
		ok, err := root.UnsetByIndex(0)
		v.Assert(ok && err == nil, "UnsetByIndex of the first member fails")
		first = false
	case 4:
		// remove the last member by key (its slot stays behind), then pop the member before it
		if a != b {
			ok, err := root.Unset(string([]byte{'x', b}))
			v.Assert(ok && err == nil, "Unset of the last member by key fails")
			last = false
			v.Assert(root.Pop() == nil, "Pop after Unset fails")
			v.Cover("unset-then-pop")
		}
	case 3:
		// Unset by key removes the first occurrence of that key
		k := v.Byte("unsetKey")
		v.Assume(k == 'a' || k == 'b')
		ok, err := root.Unset(string([]byte{'x', k}))
		v.Assert(err == nil, "Unset fails")
		if a == k {
			v.Assert(ok, "Unset does not find an existing key")
			first = false
		} else if b == k {
			v.Assert(ok, "Unset does not find an existing key")
			last = false
		} else {
			v.Assert(!ok, "Unset reports removing a key that is not in the object")
		}
	}
	// (the probe key is symbolic like the document keys: the engine's string-hash model relates
	// hashes of symbolic strings to each other, not to the hash of a literal)
	probe := v.Byte("probe")
	v.Assume(probe == 'a' || probe == 'b')
	for _, k := range []byte{probe} {
		want := byte(0)
		if first && a == k {
			want = vals[0]
		} else if last && b == k {
			want = vals[1]
		}
		n := root.Get(string([]byte{'x', k}))
		if want == 0 {
			v.Assert(!n.Exists(), "a removed (or never present) key is still found")
			continue
		}
		v.Assert(n.Exists(), "after removing one member of a big object, another member with the same key is no longer found by key")
		raw, err := n.Raw()
		v.Assert(err == nil && len(raw) == 1, "Raw fails on a located member")
		if err == nil && len(raw) == 1 {
			v.Assert(raw[0] == want, "after removing one member of a big object, Get returns the wrong occurrence")
		}
	}
	m := root.Get("k9")
	v.Assert(m.Exists(), "an untouched member of a big object is lost by removing another one")
	if a == b {
		v.Cover("duplicate")
	}
}
