//go:build verif

package ast

import (
	v "github.com/bytedance/sonic/internal/zzverif"
)

// The chunked containers behind array and object nodes (ast/buffer.go): 16 elements inline,
// further chunks of 16 behind a slice of pointers. Every operation must behave like the same
// operation on one flat slice, in particular at the chunk boundaries.

var verifBufSizes = [...]int{0, 1, 15, 16, 17, 32, 33}

var verifBufIdx = [...]int{-1, 0, 1, 14, 15, 16, 17, 31, 32, 33, 34}

func verifMark(i int) Node { return Node{t: 6, l: uint(100 + i)} }

// verifSameAsModel: every boundary index answers like the flat model.
func verifSameAsModel(ln *linkedNodes, m []uint, what string) {
	v.Assert(ln.Len() == len(m), what+": Len differs from the flat model")
	for _, i := range verifBufIdx {
		p := ln.At(i)
		if i >= 0 && i < len(m) {
			v.Assert(p != nil, what+": At returns nil for an index inside the container")
			if p != nil {
				v.Assert(p.l == m[i], what+": At returns a different element than the flat model holds at the index")
			}
		} else {
			v.Assert(p == nil, what+": At returns an element for an index outside the container")
		}
	}
}

// VerifC15LinkedNodes: Push / FromSlice / At / Set / Pop / MoveOne / ToSlice on linkedNodes
// against a flat model, for sizes around the chunk boundaries.
func VerifC15LinkedNodes() {
	n := verifBufSizes[v.Concretize(v.Int("sizeClass", 0, len(verifBufSizes)-1))]
	var ln linkedNodes
	model := make([]uint, 0, 40)
	if v.Bool("fromSlice") && n > 0 {
		con := make([]Node, n)
		for i := 0; i < n; i++ {
			con[i] = verifMark(i)
			model = append(model, uint(100+i))
		}
		ln.FromSlice(con)
		v.Cover("from-slice")
	} else {
		for i := 0; i < n; i++ {
			ln.Push(verifMark(i))
			model = append(model, uint(100+i))
		}
		v.Cover("pushed")
	}
	verifSameAsModel(&ln, model, "after filling")

	switch v.Concretize(v.Int("op", 0, 4)) {
	case 0: // Set inside
		j := verifBufIdx[v.Concretize(v.Int("setAt", 0, len(verifBufIdx)-1))]
		if j >= 0 && j < n {
			ln.Set(j, Node{t: 6, l: 7})
			model[j] = 7
			verifSameAsModel(&ln, model, "after Set")
		}
		v.Cover("set")
	case 1: // Pop
		ln.Pop()
		if n > 0 {
			model = model[:n-1]
		}
		verifSameAsModel(&ln, model, "after Pop")
		v.Cover("pop")
	case 2: // MoveOne between boundary positions
		a := verifBufIdx[v.Concretize(v.Int("src", 0, len(verifBufIdx)-1))]
		b := verifBufIdx[v.Concretize(v.Int("dst", 0, len(verifBufIdx)-1))]
		if a >= 0 && b >= 0 && a < n && b < n {
			ln.MoveOne(a, b)
			m := append([]uint{}, model...)
			x := m[a]
			m = append(m[:a], m[a+1:]...)
			m = append(m[:b], append([]uint{x}, m[b:]...)...)
			verifSameAsModel(&ln, m, "after MoveOne")
		}
		v.Cover("move")
	case 3: // ToSlice
		out := make([]Node, n)
		ln.ToSlice(out)
		for i := 0; i < n; i++ {
			v.Assert(out[i].l == model[i], "ToSlice does not copy the elements in order")
		}
		v.Cover("to-slice")
	case 4: // Push one more
		ln.Push(Node{t: 6, l: 9})
		model = append(model, 9)
		verifSameAsModel(&ln, model, "after Push")
		v.Cover("push")
	}
}
