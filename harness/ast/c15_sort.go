//go:build verif

package ast

import (
	v "github.com/bytedance/sonic/internal/zzverif"
)

// VerifC15BigObjectSort: SortKeys on an object with more than 16 members (hash index in
// use) behaves like a stable sort of an ordered list of pairs: afterwards members come in key
// order, the two occurrences of a duplicated key keep their document order, and Get(key)
// answers with the first of them, as the linear lookup of small objects does.
func VerifC15BigObjectSort() {
	verifAstStubs()
	a := v.Byte("keyA")
	b := v.Byte("keyB")
	v.Assume(a == 'a' || a == 'b')
	v.Assume(b == 'a' || b == 'b')
	// the two interesting members sort before ('a') or after ('x') the fifteen fixed ones
	p := v.Byte("prefix")
	v.Assume(p == 'a' || p == 'x')
	// (symbolic probe, like the document keys: see VerifC15BigObjectUnset)
	probe := v.Byte("probe")
	v.Assume(probe == 'a' || probe == 'b')
	vals := []byte{'1', '2'}
	doc := []byte{'{', '"', p, a, '"', ':', vals[0]}
	const hex = "123456789abcdef"
	for i := 0; i < 15; i++ {
		doc = append(doc, ',', '"', 'k', hex[i], '"', ':', '7')
	}
	doc = append(doc, ',', '"', p, b, '"', ':', vals[1], '}')
	root := NewRaw(string(doc))
	v.Assert(root.Check() == nil, "NewRaw rejects a valid object")
	if v.Bool("loadAllFirst") {
		v.Assert(root.LoadAll() == nil, "LoadAll fails on a valid object")
		v.Cover("loaded")
	} else {
		v.Cover("lazy")
	}
	v.Assert(root.SortKeys(false) == nil, "SortKeys fails on a valid object")
	n, err := root.Len()
	v.Assert(err == nil && n == 17, "SortKeys changes the number of members")

	// model: stable sort; the member of the document's first position comes first unless its
	// key is strictly greater
	firstVal, secondVal := vals[0], vals[1]
	firstKey, secondKey := a, b
	if b < a {
		firstVal, secondVal = vals[1], vals[0]
		firstKey, secondKey = b, a
	}
	lo := 0
	if p == 'x' {
		lo = 15
	}
	for i, want := range []struct{ k, val byte }{{firstKey, firstVal}, {secondKey, secondVal}} {
		pr := root.IndexPair(lo + i)
		v.Assert(pr != nil, "IndexPair does not find a member after SortKeys")
		if pr != nil {
			v.Assert(len(pr.Key) == 2 && pr.Key[0] == p && pr.Key[1] == want.k, "SortKeys leaves the members out of key order")
			raw, err := pr.Value.Raw()
			v.Assert(err == nil && len(raw) == 1, "Raw fails on a sorted member")
			if err == nil && len(raw) == 1 {
				v.Assert(raw[0] == want.val, "SortKeys reorders two members with the same key (the sort is not stable)")
			}
		}
	}
	g := root.Get(string([]byte{p, probe}))
	want := byte(0)
	if firstKey == probe {
		want = firstVal
	} else if secondKey == probe {
		want = secondVal
	}
	if want == 0 {
		v.Assert(!g.Exists(), "Get finds a key that is not in the object after SortKeys")
	} else {
		v.Assert(g.Exists(), "a member is no longer found by key after SortKeys")
		raw, err := g.Raw()
		v.Assert(err == nil && len(raw) == 1, "Raw fails on a located member")
		if err == nil && len(raw) == 1 {
			v.Assert(raw[0] == want, "after SortKeys on a big object, Get returns a later occurrence of a duplicated key")
		}
	}
	m := root.Get("k9")
	v.Assert(m.Exists(), "an untouched member of a big object is lost by SortKeys")
	if a == b {
		v.Cover("duplicate")
	}
	if p == 'a' {
		v.Cover("sorts-first")
	}
}
