//go:build verif

package ast

import (
	v "github.com/bytedance/sonic/internal/zzverif"
)

// VerifC15EmptyKeyAfterUnset: the empty string is a legal key. Removing another member must
// not hide it: removed members leave an empty slot behind, and a slot that holds nothing is
// not a member whose key is "".
func VerifC15EmptyKeyAfterUnset() {
	verifAstStubs()
	docs := [...]string{`{"":1,"a":2,"b":3}`, `{"a":1,"":2,"b":3}`, `{"a":1,"b":2,"":3}`}
	vals := [...]byte{'1', '2', '3'}
	pos := v.Concretize(v.Int("emptyKeyPos", 0, 2))
	root := NewRaw(docs[pos])
	switch v.Concretize(v.Int("initialState", 0, 2)) {
	case 1:
		_ = root.Get("a")
		v.Cover("lazy")
	case 2:
		v.Assert(root.LoadAll() == nil, "LoadAll fails")
		v.Cover("loaded")
	}
	// remove one of the other two members, by key or by index
	victim := v.Concretize(v.Int("victim", 0, 2))
	v.Assume(victim != pos)
	if v.Bool("byIndex") {
		ok, err := root.UnsetByIndex(victim)
		v.Assert(ok && err == nil, "UnsetByIndex of an existing member fails")
	} else {
		keysAt := [3][3]string{{"", "a", "b"}, {"a", "", "b"}, {"a", "b", ""}}
		key := keysAt[pos][victim]
		ok, err := root.Unset(key)
		v.Assert(ok && err == nil, "Unset of an existing key fails")
	}
	n := root.Get("")
	v.Assert(n.Exists(), "after removing another member, the member whose key is the empty string is no longer found")
	if n.Exists() {
		r, err := n.Raw()
		v.Assert(err == nil && len(r) == 1 && r[0] == vals[pos], "Get(\"\") returns a different member")
	}
	l, err := root.Len()
	v.Assert(err == nil && l == 2, "Len after removing one of three members is not 2")
	v.Cover("end")
}

// VerifC15NewObjectLiteral: an object built from Pair values written as struct literals (the
// exported fields Key and Value only) answers lookups for each of its keys, below and above
// the hash-index threshold of 16 members.
func VerifC15NewObjectLiteral() {
	verifAstStubs()
	n := 3
	if v.Bool("big") {
		n = 18
		v.Cover("big")
	} else {
		v.Cover("small")
	}
	const hex = "0123456789abcdefgh"
	ps := make([]Pair, 0, n)
	for i := 0; i < n; i++ {
		ps = append(ps, Pair{Key: string([]byte{'k', hex[i]}), Value: NewNumber(string([]byte{'1' + byte(i%9)}))})
	}
	o := NewObject(ps)
	i := v.Concretize(v.Int("probe", 0, 17))
	v.Assume(i < n)
	m := o.Get(string([]byte{'k', hex[i]}))
	v.Assert(m.Exists(), "a key of an object built from Pair literals is not found")
	if m.Exists() {
		r, err := m.Raw()
		v.Assert(err == nil && len(r) == 1 && r[0] == '1'+byte(i%9), "lookup on an object built from Pair literals returns another member")
	}
	miss := o.Get("zz")
	v.Assert(!miss.Exists(), "a key that is not in the object is found")
}

// VerifC15UseNodeViews: after a member in the middle or at the front was removed, the
// snapshot views (ArrayUseNode, MapUseNode) contain exactly the remaining members.
func VerifC15UseNodeViews() {
	verifAstStubs()
	state := v.Concretize(v.Int("initialState", 0, 2))
	if v.Bool("object") {
		root := NewRaw(`{"a":1,"b":2,"c":3}`)
		if state == 2 {
			v.Assert(root.LoadAll() == nil, "LoadAll fails")
		} else if state == 1 {
			_ = root.Get("a")
		}
		keys := [...]string{"a", "b", "c"}
		victim := v.Concretize(v.Int("victim", 0, 2))
		ok, err := root.Unset(keys[victim])
		v.Assert(ok && err == nil, "Unset of an existing key fails")
		m, err := root.MapUseNode()
		v.Assert(err == nil, "MapUseNode fails")
		v.Assert(len(m) == 2, "MapUseNode does not contain exactly the remaining members")
		for i, k := range keys {
			e, has := m[k]
			v.Assert(has == (i != victim), "MapUseNode membership differs from the object")
			if has && i != victim {
				r, err := e.Raw()
				v.Assert(err == nil && len(r) == 1 && r[0] == byte('1'+i), "MapUseNode value differs from the member")
			}
		}
		v.Cover("object")
		return
	}
	root := NewRaw(`[1,2,3]`)
	if state == 2 {
		v.Assert(root.LoadAll() == nil, "LoadAll fails")
	} else if state == 1 {
		_ = root.Index(0)
	}
	victim := v.Concretize(v.Int("victim", 0, 2))
	ok, err := root.UnsetByIndex(victim)
	v.Assert(ok && err == nil, "UnsetByIndex of an existing element fails")
	model := []byte{}
	for i := 0; i < 3; i++ {
		if i != victim {
			model = append(model, byte('1'+i))
		}
	}
	ns, err := root.ArrayUseNode()
	v.Assert(err == nil, "ArrayUseNode fails")
	v.Assert(len(ns) == len(model), "ArrayUseNode length differs from the number of remaining elements")
	if len(ns) == len(model) {
		for i := range ns {
			v.Assert(ns[i].Exists(), "ArrayUseNode contains an empty slot instead of an element")
			if ns[i].Exists() {
				r, err := ns[i].Raw()
				v.Assert(err == nil && len(r) == 1 && r[0] == model[i], "ArrayUseNode element differs from the array")
			}
		}
	}
	v.Cover("array")
}
