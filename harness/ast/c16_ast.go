//go:build verif

package ast

import (
	v "github.com/bytedance/sonic/internal/zzverif"
)

// C16: "a node on which Load/LoadAll has returned (or obtained with ConcurrentRead) can be read
// from any number of goroutines". Sufficient condition decided here for every documented read
// operation: executed on such a node, the operation performs NO plain store to any object
// that existed before it started, except while holding the node's write lock (the
// raw->parsed conversion). Operations that only read shared memory cannot race with each
// other, whatever the interleaving; conversions are serialised by the lock.

func verifReadOp(root *Node, op int, key string) {
	switch op {
	case 0:
		_ = root.Get(key)
	case 1:
		_ = root.Index(1)
	case 2:
		_ = root.GetByPath(key)
	case 3:
		_, _ = root.Raw()
	case 4:
		_, _ = root.MarshalJSON()
	case 5:
		_, _ = root.Len()
	case 6:
		_ = root.IndexOrGet(0, key)
	case 7:
		n := root.Get(key)
		_, _ = n.Int64()
	}
}

const verifReadOps = 8

// VerifC16LoadedReadsAreReadOnly: after LoadAll, every read operation is read-only on the
// shared tree (3-member and 17-member objects: the hash index must already exist).
func VerifC16LoadedReadsAreReadOnly() {
	verifAstStubs()
	var root Node
	big := v.Bool("big")
	if big {
		doc, _, _, _ := verifBigDoc()
		root = NewRaw(doc)
	} else {
		root = NewRaw(`{"xa":1,"xb":[1,2],"k8":3}`)
	}
	v.Assert(root.LoadAll() == nil, "LoadAll fails")
	k := v.Byte("search")
	v.Assume(k == 'a' || k == 'b' || k == 'c')
	key := string([]byte{'x', k})
	op1 := v.Concretize(v.Int("op1", 0, verifReadOps-1))
	op2 := v.Concretize(v.Int("op2", 0, verifReadOps-1))
	v.Freeze(1)
	verifReadOp(&root, op1, key) // what one goroutine does ...
	verifReadOp(&root, op2, key) // ... and what another does, in either order, on the same state
	v.Freeze(0)
	if big {
		v.Cover("big")
	} else {
		v.Cover("small")
	}
}

// VerifC16ConcurrentReadNode: a node from NewRawConcurrentRead starts raw: the first reader
// converts it under the node's write lock; every store to shared state must happen inside that
// critical section.
func VerifC16ConcurrentReadNode() {
	verifAstStubs()
	root := NewRawConcurrentRead(`{"xa":1,"xb":[1,2],"k8":{"q":2}}`)
	v.Assert(root.Check() == nil, "NewRawConcurrentRead rejects a valid object")
	k := v.Byte("search")
	v.Assume(k == 'a' || k == 'b' || k == 'c')
	key := string([]byte{'x', k})
	op1 := v.Concretize(v.Int("op1", 0, verifReadOps-1))
	op2 := v.Concretize(v.Int("op2", 0, verifReadOps-1))
	v.Freeze(1)
	verifReadOp(&root, op1, key)
	verifReadOp(&root, op2, key)
	v.Freeze(0)
	v.Cover("end")
}

// VerifC16SearcherConcurrentNode: a node returned by a Searcher with ConcurrentRead set is
// concurrently readable whatever the other search options are (CopyReturn, ValidateJSON): it
// starts raw, the first reader converts it under the node's write lock, and every store to
// shared state happens inside that critical section.
func VerifC16SearcherConcurrentNode() {
	verifAstStubs()
	s := NewSearcher(`{"a":{"xa":1,"xb":[1,2]},"b":2}`)
	s.ValidateJSON = v.Bool("ValidateJSON")
	s.CopyReturn = v.Bool("CopyReturn")
	s.ConcurrentRead = true
	n, err := s.GetByPath("a")
	v.Assert(err == nil, "search for an existing key fails")
	k := v.Byte("search")
	v.Assume(k == 'a' || k == 'b' || k == 'c')
	key := string([]byte{'x', k})
	op1 := v.Concretize(v.Int("op1", 0, verifReadOps-1))
	op2 := v.Concretize(v.Int("op2", 0, verifReadOps-1))
	v.Freeze(1)
	verifReadOp(&n, op1, key)
	verifReadOp(&n, op2, key)
	v.Freeze(0)
	if s.CopyReturn {
		v.Cover("copy")
	} else {
		v.Cover("refer")
	}
}

// VerifC16ConversionDecidedUnderLock: the raw -> parsed conversion of a concurrently readable
// node is a check-then-act sequence: the test "still raw?" must be (re)made while the write
// lock is held, otherwise two readers that both saw a raw node convert it twice (the second
// one parses the already converted node as text). Engine rule (Freeze mode 3): a field of a
// shared object stored inside the critical section must have been read inside it first.
func VerifC16ConversionDecidedUnderLock() {
	verifAstStubs()
	root := NewRawConcurrentRead(`{"xa":1,"xb":[1,2],"k8":{"q":2}}`)
	v.Assert(root.Check() == nil, "NewRawConcurrentRead rejects a valid object")
	op1 := v.Concretize(v.Int("op1", 0, verifReadOps-1))
	v.Freeze(3)
	verifReadOp(&root, op1, "xa")
	v.Freeze(0)
	v.Cover("end")
}
