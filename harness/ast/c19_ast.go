//go:build verif

package ast

import (
	"math"
	"strconv"

	v "github.com/bytedance/sonic/internal/zzverif"
)

// VerifC19NodeFloat64: the number-to-float64 conversion of an AST number node is
// strconv.ParseFloat of the node's literal and nothing else (so that it is the correctly
// rounded double, sign of zero included). Under the engine ParseFloat / ParseInt are
// uninterpreted functions of the literal: any path that derives the result from something
// other than ParseFloat(literal) - an integer fast path, a cached value - differs from it.
func VerifC19NodeFloat64() {
	lits := [...]string{"-0", "0", "1", "-1", "12", "-0.0", "1e2", "9007199254740993"}
	if !v.Symbolic() {
		for _, lit := range lits {
			n := NewNumber(lit)
			got, err := n.Float64()
			want, err2 := strconv.ParseFloat(lit, 64)
			v.Assert((err == nil) == (err2 == nil), "Node.Float64 and strconv.ParseFloat disagree on accepting "+lit)
			if err == nil && err2 == nil {
				v.Assert(math.Float64bits(got) == math.Float64bits(want), "Node.Float64("+lit+") is not bit-for-bit strconv.ParseFloat (sign of zero included)")
			}
			raw := NewRaw(lit)
			g2, e3 := raw.Float64()
			if e3 == nil && err2 == nil {
				v.Assert(math.Float64bits(g2) == math.Float64bits(want), "Float64 of the raw node "+lit+" is not bit-for-bit strconv.ParseFloat")
			}
		}
		return
	}
	verifAstStubs()
	lit := lits[v.Concretize(v.Int("literal", 0, len(lits)-1))]
	pf := v.Uint64("parseFloatResult")
	pi := v.Uint64("parseIntResult")
	intOK := v.Bool("parseIntSucceeds")
	v.Stub("strconv.ParseFloat", func(s string, bitSize int) (float64, error) {
		v.Assert(s == lit && bitSize == 64, "ParseFloat is called on something other than the node's literal")
		return math.Float64frombits(pf), nil
	})
	v.Stub("strconv.ParseInt", func(s string, base int, bitSize int) (int64, error) {
		if intOK {
			return int64(pi), nil
		}
		return 0, strconv.ErrSyntax
	})
	n := NewNumber(lit)
	got, err := n.Float64()
	v.Assert(err == nil, "Float64 fails although ParseFloat accepts the literal")
	v.Assert(math.Float64bits(got) == pf, "Node.Float64 does not return strconv.ParseFloat of the literal (bit for bit, sign of zero included)")
	v.Cover("end")
}
