//go:build verif

package caching

import (
	v "github.com/bytedance/sonic/internal/zzverif"
)

func verifFieldName(label string) string {
	b := v.Byte(label)
	v.Assume(b == 'a' || b == 'A' || b == 'b')
	return string([]byte{b})
}

func verifLower(b byte) byte {
	if b >= 'A' && b <= 'Z' {
		return b + 32
	}
	return b
}

// VerifC01FieldMap: struct field lookup as the decoders use it: Get finds the field whose name
// equals the key exactly; GetCaseInsensitive finds the field with the smallest index whose name
// equals the key ignoring ASCII case (encoding/json's binding rule: exact match first, then
// case-insensitive, first field wins); absent keys give -1. For every pair/triple of names,
// including equal names and names that differ only by case, and every hash placement.
func VerifC01FieldMap() {
	nf := v.Concretize(v.Int("fields", 1, 2))
	names := make([]string, nf)
	m := CreateFieldMap(nf)
	for i := 0; i < nf; i++ {
		names[i] = verifFieldName("name")
		m.Set(names[i], i)
	}
	key := verifFieldName("key")
	wantExact, wantFold := -1, -1
	for i := nf - 1; i >= 0; i-- {
		if names[i] == key {
			wantExact = i
		}
		if verifLower(names[i][0]) == verifLower(key[0]) {
			wantFold = i
		}
	}
	v.Assert(m.Get(key) == wantExact, "FieldMap.Get does not return the (first) field with exactly this name")
	v.Assert(m.GetCaseInsensitive(key) == wantFold, "FieldMap.GetCaseInsensitive does not return the first field matching ignoring case")
	if wantExact < 0 && wantFold >= 0 {
		v.Cover("fold-only")
	}
	if wantExact >= 0 {
		v.Cover("exact")
	}
	if wantFold < 0 {
		v.Cover("absent")
	}
}
