//go:build verif

package caching

import (
	v "github.com/bytedance/sonic/internal/zzverif"
)

// VerifC08FieldMapReadOnly: a struct's field table is built once while the type's decoder is
// compiled and is then shared, without any lock, by every goroutine that decodes into that type
// (the generated code calls Get / GetCaseInsensitive on it). Safety under every interleaving
// therefore needs the lookups to perform no store at all on the published table (freeze mode 2:
// everything that exists at the freeze point is immutable); two lookups that only read cannot
// race. For every table of 1..2 fields and every key, hit, case-insensitive hit and miss.
func VerifC08FieldMapReadOnly() {
	nf := v.Concretize(v.Int("fields", 1, 2))
	m := CreateFieldMap(nf)
	for i := 0; i < nf; i++ {
		m.Set(verifFieldName("name"), i)
	}
	key := verifFieldName("key")
	key2 := verifFieldName("key2")
	v.Freeze(2)
	a := m.Get(key)
	b := m.GetCaseInsensitive(key)
	c := m.GetCaseInsensitive(key2)
	d := m.GetCaseInsensitive(key)
	v.Freeze(0)
	v.Assert(b == d, "the same case-insensitive lookup answers differently the second time")
	if a < 0 && b >= 0 {
		v.Cover("fold-only")
	}
	if b < 0 {
		v.Cover("absent")
	}
	_ = c
	v.Cover("end")
}
