//go:build verif

package caching

import (
	"github.com/bytedance/sonic/internal/rt"
	v "github.com/bytedance/sonic/internal/zzverif"
)

// C08 (program cache): the RCU discipline that makes lock-free Get safe against concurrent
// Compute for every interleaving:
//   W1 a published map is never modified (copy-on-write),
//   W2 Compute writes only objects it allocated itself,
//   W3 the only change of shared state is the atomic publication of the new map,
//   W4 Get performs no store at all.
// With W1-W4 a reader that loaded the old pointer sees the old (immutable) map, one that loaded
// the new pointer sees the fully built new map: every Get returns what it would return before
// or after the concurrent Compute.
func VerifC08PcacheRCU() {
	keys := []*rt.GoType{{Hash: v.Uint32("h0")}, {Hash: v.Uint32("h1")}}
	m, _ := verifMap(4, keys)
	c := &ProgramCache{}
	c.p = unsafePointerOf(m)
	nk := &rt.GoType{Hash: v.Uint32("hnew")}
	v.Freeze(2) // everything built so far is published: immutable except through sync/atomic
	got := c.Get(keys[0])
	_ = got
	val, err := c.Compute(nk, func(vt *rt.GoType, ex ...interface{}) (interface{}, error) { return 7, nil })
	v.Assert(err == nil && val == 7, "Compute does not return the computed program")
	v.Assert(c.Get(nk) == 7, "the computed program is not visible after Compute")
	v.Freeze(0)
	v.Cover("end")
}
