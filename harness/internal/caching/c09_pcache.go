//go:build verif

package caching

import (
	"github.com/bytedance/sonic/internal/rt"
	v "github.com/bytedance/sonic/internal/zzverif"
)

// verifMap builds an arbitrary valid _ProgramMap of capacity c (power of two): any
// occupancy pattern with load <= 0.5, symbolic hashes, representation invariant assumed.
func verifMap(c int, keys []*rt.GoType) (*_ProgramMap, []int) {
	m := &_ProgramMap{m: uint32(c - 1), b: make([]_ProgramEntry, c)}
	slotOf := make([]int, len(keys))
	used := 0
	for k := range keys {
		slotOf[k] = -1
	}
	for i := 0; i < c; i++ {
		if used < len(keys) && v.Bool("occ") {
			m.b[i] = _ProgramEntry{vt: keys[used], fn: 100 + used}
			slotOf[used] = i
			used++
		}
	}
	m.n = uint64(used)
	// invariant: every entry is reachable from its home slot without crossing an empty slot
	for k := 0; k < used; k++ {
		home := int(keys[k].Hash & m.m)
		for j := home; j != slotOf[k]; j = (j + 1) & int(m.m) {
			v.Assume(m.b[j].vt != nil)
		}
	}
	// load factor invariant maintained by add(): n/(m+1) <= 0.5
	v.Assume(used*2 <= c)
	return m, slotOf
}

func verifPcacheStep(c int, nkeys int) {
	keys := []*rt.GoType{{Hash: v.Uint32("h0")}, {Hash: v.Uint32("h1")}, {Hash: v.Uint32("h2")}, {Hash: v.Uint32("h3")}}
	m, slotOf := verifMap(c, keys[:nkeys])
	nk := &rt.GoType{Hash: v.Uint32("hnew")}
	absent := &rt.GoType{Hash: v.Uint32("habsent")}
	oldN := m.n
	oldM := m.m
	n := m.add(nk, 999)
	v.Assert(n != m, "add mutated the published map in place instead of copying")
	v.Assert(m.n == oldN && m.m == oldM, "add changed the old map's header")
	v.Assert(n.get(nk) == 999, "added key not found")
	for k := range keys[:nkeys] {
		if slotOf[k] >= 0 {
			v.Assert(m.get(keys[k]) == 100+k, "old map lost an entry")
			v.Assert(n.get(keys[k]) == 100+k, "existing key lost or remapped after add")
		} else {
			v.Assert(n.get(keys[k]) == nil, "absent key found after add")
		}
	}
	v.Assert(n.get(absent) == nil, "a key that was never added is found (e.g. equal hash treated as equal type)")
	v.Assert(n.n == oldN+1, "entry count wrong after add")
	v.Assert(n.n*2 <= uint64(n.m)+1, "load factor above 0.5 after add")
	if n.m != oldM {
		v.Cover("rehash")
	} else {
		v.Cover("norehash")
	}
}

// VerifC09PcacheStep4: one add() on an arbitrary valid map of capacity 4.
func VerifC09PcacheStep4() { verifPcacheStep(4, 2) }

// VerifC09PcacheStep8: capacity 8, up to 3 entries (4 entries: > 200000 paths).
func VerifC09PcacheStep8() { verifPcacheStep(8, 3) }
