//go:build verif

package caching

import "unsafe"

func unsafePointerOf(m *_ProgramMap) unsafe.Pointer { return unsafe.Pointer(m) }
