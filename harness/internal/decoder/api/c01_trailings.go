//go:build verif

package api

import (
	v "github.com/bytedance/sonic/internal/zzverif"
)

// VerifC01CheckTrailings: after a decoded value only JSON spaces (as encoding/json defines
// them) may follow; otherwise a SyntaxError at the first non-space byte.
func VerifC01CheckTrailings() {
	n := v.Int("n", 0, 6)
	s := v.StringN("s", n, 6)
	i := v.Int("i", 0, 6)
	v.Assume(i <= n)
	d := &Decoder{s: s, i: i}
	err := d.CheckTrailings()
	first := -1
	for k := i; k < n; k++ {
		if !v.JSONIsSpace(s[k]) {
			first = k
			break
		}
	}
	if first < 0 {
		v.Assert(err == nil, "CheckTrailings rejects input that has only JSON spaces after the value")
		v.Cover("accept")
	} else {
		v.Assert(err != nil, "CheckTrailings accepts non-space bytes after the value")
		if err != nil {
			se, ok := err.(SyntaxError)
			v.Assert(ok, "CheckTrailings error is not a SyntaxError")
			if ok {
				v.Assert(se.Pos == first, "CheckTrailings reports the wrong position")
				v.Assert(se.Pos >= 0 && se.Pos < len(se.Src), "CheckTrailings position outside the input")
			}
		}
		v.Cover("reject")
	}
}
