//go:build verif

package api

import (
	"errors"
	"io"

	v "github.com/bytedance/sonic/internal/zzverif"
)

// ---- environment: a Reader that cuts a fixed symbolic stream arbitrarily ----

var errVerifReader = errors.New("verif: injected reader failure")

type verifReader struct {
	data     []byte
	pos      int
	calls    int
	maxCalls int
	failAt   int // stream offset at which a non-EOF error is injected (-1: never)
	bounds   []int
}

func (r *verifReader) Read(p []byte) (int, error) {
	r.calls++
	rem := len(r.data) - r.pos
	if r.failAt >= 0 && r.pos >= r.failAt {
		return 0, errVerifReader
	}
	lim := rem
	if r.failAt >= 0 && r.failAt-r.pos < lim {
		lim = r.failAt - r.pos
	}
	if len(p) < lim {
		lim = len(p)
	}
	k := lim
	if r.calls <= r.maxCalls {
		k = v.Int("chunk", 0, lim) // arbitrary cut, including empty reads
	}
	copy(p, r.data[r.pos:r.pos+k])
	r.pos += k
	r.bounds = append(r.bounds, r.pos)
	if r.pos == len(r.data) && r.failAt < 0 {
		if k == 0 || v.Bool("eofWithData") {
			return k, io.EOF
		}
	}
	return k, nil
}

// ---- reference model of native skip_one_fast (native/scanning.h: skip_one_fast_1) ----
// Used (a) as the contract stub of native.SkipOneFast under the symbolic engine and
// (b) as the framing oracle on the concatenated stream. Natively the real routine runs.

func verifIsSpace(c byte) bool { return c == ' ' || c == '\t' || c == '\r' || c == '\n' }

func verifSkipOneFast(s *string, p *int) int {
	src := *s
	i := *p
	for i < len(src) && verifIsSpace(src[i]) {
		i++
	}
	if i >= len(src) {
		*p = i
		return -1 // ERR_EOF
	}
	c := src[i]
	i++
	vi := i - 1
	switch {
	case c == '[' || c == '{':
		lc, rc := c, byte(']')
		if c == '{' {
			rc = '}'
		}
		depth := 1
		inq := false
		for i < len(src) {
			d := src[i]
			if inq {
				if d == '\\' {
					i += 2
					continue
				}
				if d == '"' {
					inq = false
				}
			} else if d == '"' {
				inq = true
			} else if d == lc {
				depth++
			} else if d == rc {
				depth--
				if depth == 0 {
					*p = i + 1
					return vi
				}
			}
			i++
		}
		*p = len(src)
		return -1
	case c == '"':
		for i < len(src) {
			d := src[i]
			if d == '\\' {
				i += 2
				continue
			}
			if d == '"' {
				*p = i + 1
				return vi
			}
			i++
		}
		return -1
	case c == '-' || (c >= '0' && c <= '9'):
		for i < len(src) {
			d := src[i]
			if d == '}' || d == ']' || d == ',' || verifIsSpace(d) {
				break
			}
			i++
		}
		*p = i
		return vi
	case c == 't' || c == 'n':
		if i+3 <= len(src) {
			*p = i + 3
			return vi
		}
		return -1
	case c == 'f':
		if i+4 <= len(src) {
			*p = i + 4
			return vi
		}
		return -1
	case c == 0:
		return -1
	}
	*p = i - 1
	return -2 // ERR_INVAL
}

// alphabet restriction: the branch points of scan/More/skip_one_fast
func verifStreamByte(b byte) bool {
	return b == '1' || b == ' ' || b == '[' || b == ']' || b == '"' || b == 't' || b == ',' || b == 'x'
}

type verifFrames struct {
	got []string
}

func verifStreamDecode(n, maxCalls, cap0 int, withFail bool) {
	data := v.Bytes("stream", n)
	for i := 0; i < n; i++ {
		v.Assume(verifStreamByte(data[i]))
	}
	failAt := -1
	if withFail {
		failAt = v.Int("failAt", 0, n)
	}
	rd := &verifReader{data: data, maxCalls: maxCalls, failAt: failAt}
	v.Stub("github.com/bytedance/sonic/internal/native.SkipOneFast", verifSkipOneFast)
	fr := &verifFrames{}
	saved := decodeImpl
	var sd *StreamDecoder
	decodeImpl = func(s *string, i *int, f uint64, val interface{}) error {
		// C06: the text handed to the decoder must be a private copy, never the reusable read buffer
		v.Assert(!v.StrSameObject(*s, sd.buf), "value text handed to the decoder aliases the stream decoder's reusable buffer")
		fr.got = append(fr.got, *s)
		*i = len(*s)
		return nil
	}
	defer func() { decodeImpl = saved }()
	// encoding parameter: the pool hands out small buffers so that realloc is crossed
	// with short streams (option.DefaultDecoderBufferSize only selects the initial size)
	savedNew := bufPool.New
	bufPool.New = func() interface{} { return make([]byte, 0, 4) }
	defer func() { bufPool.New = savedNew }()

	sd = NewStreamDecoder(rd)
	sd.Decoder.f = v.Uint64("flags") // every decoder option bit arbitrary
	if cap0 > 0 {
		sd.buf = make([]byte, 0, cap0)
	}

	// reference: frame the concatenated stream value by value
	whole := string(data)
	if failAt >= 0 {
		whole = string(data[:failAt])
	}
	var want []string
	wantErr := 0 // 0: clean end, 1: malformed/truncated tail
	for pos := 0; ; {
		rest := whole[pos:]
		x := 0
		y := verifSkipOneFast(&rest, &x)
		if y < 0 {
			// only spaces left => clean end
			k := pos
			for k < len(whole) && verifIsSpace(whole[k]) {
				k++
			}
			if k < len(whole) {
				wantErr = 1
			}
			break
		}
		want = append(want, whole[pos+y:pos+x])
		if whole[pos+y] == 't' {
			// the fast skipper takes any 4 bytes after 't' as the literal; a real literal (true)
			// contains no white space, and the decoder stub's "decoding the frame succeeds" only
			// makes sense for such frames
			for k := pos + y + 1; k < pos+x; k++ {
				v.Assume(!verifIsSpace(whole[k]))
			}
		}
		pos += x
	}

	var dummy interface{}
	lastOff := sd.InputOffset()
	var err error
	calls := 0
	for calls = 0; calls <= n+1; calls++ {
		err = sd.Decode(&dummy)
		if err != nil {
			break
		}
		off := sd.InputOffset()
		v.Assert(off > lastOff, "Decode returned success without consuming input")
		lastOff = off
	}
	if verifAliasOnly {
		// registered under C06: only the ownership assertion inside the decoder stub counts
		v.Cover("clean-eof")
		return
	}
	v.Assert(err != nil, "Decode keeps returning nil: the stream never terminates")
	if err == nil {
		return
	}

	// which number frames were cut by a Read boundary (known finding F4)?
	cut := false
	{
		pos := 0
		for _, w := range want {
			for pos < len(whole) && verifIsSpace(whole[pos]) {
				pos++
			}
			st, en := pos, pos+len(w)
			if w[0] == '1' {
				for _, b := range rd.bounds {
					if b > st && b <= en && b < len(whole) {
						cut = true
					}
				}
			}
			pos = en
		}
	}

	same := len(fr.got) == len(want)
	if same {
		for k := range want {
			if fr.got[k] != want[k] {
				same = false
			}
		}
	}
	prefixOK := len(fr.got) <= len(want)
	if prefixOK {
		for k := range fr.got {
			if fr.got[k] != want[k] {
				prefixOK = false
			}
		}
	}
	switch {
	case cut:
		v.Assert(same, "framing depends on chunking: a number cut by a Read boundary is split")
	case failAt >= 0:
		v.Assert(prefixOK && len(fr.got)+1 >= len(want), "values preceding a reader error are lost or altered")
		if wantErr == 0 {
			v.Assert(err == errVerifReader, "reader error not returned unchanged after the preceding values")
		} else {
			v.Assert(err != io.EOF, "malformed data before a reader error reported as clean EOF")
		}
		v.Cover("reader-error")
	case wantErr == 0:
		v.Assert(same, "sequence of framed values differs from framing the concatenated stream")
		v.Assert(err == io.EOF, "clean end of stream not reported as io.EOF")
		v.Cover("clean-eof")
	default:
		v.Assert(same, "values before a malformed tail differ from framing the concatenated stream")
		v.Assert(err != io.EOF, "malformed or truncated trailing data reported as a clean io.EOF")
		v.Cover("bad-tail")
	}
	if len(want) >= 2 {
		v.Cover("two-values")
	}
}

var verifAliasOnly bool

// VerifC06StreamDecodeCopy: the same exploration, checking only that the text handed to the
// decoder is a private copy of the (reusable, pooled) read buffer.
func VerifC06StreamDecodeCopy() {
	verifAliasOnly = true
	defer func() { verifAliasOnly = false }()
	verifStreamDecode(3, 3, 2, false)
}

// VerifC17StreamDecode2: debugging bound.
func VerifC17StreamDecode2() { verifStreamDecode(2, 2, 2, false) }

// VerifC17StreamDecode3: all streams of 3 bytes over the stream alphabet, <= 3 arbitrary Read cuts.
func VerifC17StreamDecode3() { verifStreamDecode(3, 3, 2, false) }

// VerifC17StreamDecode4: 4 bytes, <= 3 cuts, tiny initial buffer so realloc is crossed.
func VerifC17StreamDecode4() { verifStreamDecode(4, 3, 1, false) }

// VerifC17StreamDecodeFail3: same with a non-EOF reader error injected at an arbitrary offset.
func VerifC17StreamDecodeFail3() { verifStreamDecode(3, 2, 2, true) }

// VerifC17StreamDecode5: thorough bound.
func VerifC17StreamDecode5() { verifStreamDecode(5, 4, 2, false) }
