//go:build verif

package errors

import (
	"github.com/bytedance/sonic/internal/native/types"
	v "github.com/bytedance/sonic/internal/zzverif"
)

// VerifC07CalcBounds: for every source length >= 1 and every int position the excerpt
// bounds are inside the source and the dot runs are bounded.
func VerifC07CalcBounds() {
	size := v.Int("size", 1, 1<<62)
	pos := int(v.Int64("pos"))
	p, x, q, y := calcBounds(size, pos)
	v.Assert(0 <= p && p <= q && q <= size, "calcBounds: excerpt bounds outside the source")
	v.Assert(x >= 0 && y >= 0, "calcBounds: negative dot-run width (strings.Repeat would panic)")
	v.Assert(x <= 32 && y <= 32 && q-p <= 33, "calcBounds: excerpt or dot runs not bounded")
	if pos >= 0 && pos < size {
		v.Assert(p <= pos && pos < q, "calcBounds: excerpt does not contain the error position")
		v.Assert(x == pos-p, "calcBounds: caret not under the error position")
		v.Cover("inside")
	}
	v.Cover("end")
}

// VerifC07SyntaxErrorDescription: formatting never panics, whatever position is stored.
func VerifC07SyntaxErrorDescription() {
	n := v.Int("n", 0, 3)
	src := v.StringN("src", n, 3)
	pos := int(v.Int64("pos"))
	e := SyntaxError{Pos: pos, Src: src, Code: types.ParsingError(v.Int("code", 0, 12))}
	_ = e.Description()
	_ = e.Error()
	v.Cover("end")
}

// VerifC07MismatchDescription: MismatchTypeError formatting for positions inside the source
// (producers report the start of the mismatching value, which is a byte of the input).
func VerifC07MismatchDescription() {
	n := v.Int("n", 1, 3)
	src := v.StringN("src", n, 3)
	pos := v.Int("pos", 0, 2)
	v.Assume(pos < n)
	_ = swithchJSONType(src, pos)
	se := SyntaxError{Pos: pos, Src: src, Code: types.ERR_MISMATCH}
	_ = se.description()
	v.Cover("end")
}
