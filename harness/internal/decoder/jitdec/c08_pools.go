//go:build verif

package jitdec

import (
	v "github.com/bytedance/sonic/internal/zzverif"
)

// VerifC08StackPoolClean: the decoder's state stacks are recycled through a pool shared by all
// goroutines. A decode that aborts on a syntax error returns without unwinding its stack, so
// the stack pointer it leaves behind is arbitrary: every stack handed out by newStack() must
// nevertheless start empty (sp == 0), whatever the previous user - possibly another goroutine -
// left in it. Otherwise a call's result depends on which earlier calls failed.
func VerifC08StackPoolClean() {
	s := newStack()
	v.Assert(s.sp == 0, "a fresh decoder stack does not start empty")
	s.sp = uintptr(v.Uint64("leftover")) // an aborted decode leaves the stack pointer anywhere
	freeStack(s)
	// the next user (any goroutine) gets a stack from the pool: the recycled one or a new one
	s2 := newStack()
	v.Assert(s2.sp == 0, "a decoder stack recycled through the pool does not start empty: leftovers of a failed decode accumulate until valid documents fail with a stack overflow")
	if s2 == s {
		v.Cover("recycled")
	}
	freeStack(s2)
	v.Cover("end")
}
