//go:build verif

package jitdec

import (
	"encoding/hex"
	"encoding/json"
	"fmt"
	"os"
	"path/filepath"
	"reflect"
	"runtime"
	"runtime/debug"
	"testing"
	"unsafe"

	"github.com/bytedance/sonic/internal/cpu"
	"github.com/bytedance/sonic/internal/jit"
	"github.com/bytedance/sonic/internal/native"
	ntypes "github.com/bytedance/sonic/internal/native/types"
	"github.com/bytedance/sonic/internal/rt"
)

type verifDump struct {
	Name    string            `json:"name"`
	Kind    string            `json:"kind"`
	Program []string          `json:"program,omitempty"`
	Ops     []verifOp         `json:"ops,omitempty"`
	Ins     []jit.VerifIns    `json:"ins"`
	Consts  map[string]int64  `json:"consts"`
	Mem     map[string]string `json:"mem"`
}

// verifPeek reads n bytes at an absolute address if that is possible without faulting.
func verifPeek(a uintptr, n int) (b []byte, ok bool) {
	defer func() {
		if recover() != nil {
			ok = false
		}
	}()
	old := debug.SetPanicOnFault(true)
	defer debug.SetPanicOnFault(old)
	b = make([]byte, n)
	for i := 0; i < n; i++ {
		b[i] = *(*byte)(unsafe.Pointer(a + uintptr(i)))
	}
	return b, true
}

var verifNatives = map[uintptr]string{}

func verifInitSyms() {
	add := func(a uintptr, n string) { verifNatives[a] = "native." + n }
	add(native.S_f64toa, "f64toa")
	add(native.S_f32toa, "f32toa")
	add(native.S_i64toa, "i64toa")
	add(native.S_u64toa, "u64toa")
	add(native.S_lspace, "lspace")
	add(native.S_quote, "quote")
	add(native.S_unquote, "unquote")
	add(native.S_value, "value")
	add(native.S_vstring, "vstring")
	add(native.S_vnumber, "vnumber")
	add(native.S_vsigned, "vsigned")
	add(native.S_vunsigned, "vunsigned")
	add(native.S_skip_one, "skip_one")
	add(native.S_skip_array, "skip_array")
	add(native.S_skip_object, "skip_object")
	add(native.S_skip_number, "skip_number")
	add(native.S_get_by_path, "get_by_path")
}

func verifResolve(o *jit.VerifOperand) {
	if o.Kind != "const" || o.Off < 0x10000 {
		return
	}
	a := uintptr(o.Off)
	if n, ok := verifNatives[a]; ok {
		o.Sym = n
		return
	}
	if f := runtime.FuncForPC(a); f != nil && f.Entry() == a {
		o.Sym = "go." + f.Name()
		return
	}
	if a == uintptr(unsafe.Pointer(&rt.RuntimeWriteBarrier)) {
		o.Sym = "var.runtime.writeBarrier" // changes while the collector runs: never part of the image
		return
	}
	o.Sym = "addr"
	if b, ok := verifPeek(a, 16); ok {
		verifMem[fmt.Sprint(uint64(a))] = hex.EncodeToString(b)
	}
}

var verifMem = map[string]string{}

func verifWrite(d verifDump) {
	verifMem = map[string]string{}
	defer func() {}()
	for i := range d.Ins {
		verifResolve(&d.Ins[i].From)
		verifResolve(&d.Ins[i].To)
		for k := range d.Ins[i].Rest {
			verifResolve(&d.Ins[i].Rest[k])
		}
	}
	d.Mem = verifMem
	dir := os.Getenv("VERIF_DUMP_DIR")
	b, _ := json.Marshal(d)
	if err := os.WriteFile(filepath.Join(dir, d.Name+".json"), b, 0o644); err != nil {
		panic(err)
	}
}

type verifQS struct {
	S string `json:",string"`
}

type verifS1 struct {
	A int8
	B bool
}

// verifOp is the structured form of one program instruction (what the token monitor of the
// whole-program checks needs: the character an op compares, its jump target(s)).
type verifOp struct {
	Op string `json:"op"`
	B  int    `json:"b"`           // character operand
	I  int    `json:"i"`           // integer operand / jump target
	S  []int  `json:"s,omitempty"` // switch targets
}

func verifOpOf(ins _Instr) verifOp {
	o := verifOp{Op: ins.op().String(), B: int(ins.vb()), I: ins.vi()}
	if ins.op() == _OP_skip_emtpy {
		o.Op = "skip_empty" // has no entry in the name table
	}
	if ins.op() == _OP_switch {
		o.S = append(o.S, ins.vs()...)
	}
	return o
}

func TestVerifDump(t *testing.T) {
	if os.Getenv("VERIF_DUMP_DIR") == "" {
		t.Skip("no VERIF_DUMP_DIR")
	}
	verifInitSyms()
	types := map[string]interface{}{
		"int8": int8(0), "int16": int16(0), "int32": int32(0), "int64": int64(0),
		"uint8": uint8(0), "uint16": uint16(0), "uint32": uint32(0), "uint64": uint64(0),
		"float32": float32(0), "float64": float64(0), "bool": false, "slice_int": []int{}, "struct_s1": verifS1{},
		"map_u32": map[uint32]int{}, "bytes": []byte{}, "array2_int": [2]int{}, "string": "", "struct_empty": struct{}{}, "struct_qstr": verifQS{},
	}
	for name, v := range types {
		prog, err := newCompiler().compile(reflect.TypeOf(v))
		if err != nil {
			t.Fatal(err)
		}
		as := newAssembler(prog)
		d := verifDump{Name: "dec_" + name, Kind: "typed", Consts: map[string]int64{}}
		d.Consts["F_disable_unknown"] = int64(_F_disable_unknown)
		d.Consts["F_case_sensitive"] = int64(_F_case_sensitive)
		d.Consts["F_disable_urc"] = int64(_F_disable_urc)
		d.Consts["B_UNICODE_REPLACE"] = int64(ntypes.B_UNICODE_REPLACE)
		for _, ins := range prog {
			d.Program = append(d.Program, ins.disassemble())
			d.Ops = append(d.Ops, verifOpOf(ins))
		}
		d.Consts["MODE_JSON"] = int64(_MODE_JSON)
		d.Ins = as.BaseAssembler.VerifDump(as.compile)
		verifWrite(d)
	}
	// the []byte decoder as it is generated when the process runs without AVX2 (SONIC_MODE=noavx2
	// clears this flag): generated code may select equivalent routines by CPU level, nothing else
	{
		old := cpu.HasAVX2
		cpu.HasAVX2 = false
		prog, err := newCompiler().compile(reflect.TypeOf([]byte{}))
		if err != nil {
			t.Fatal(err)
		}
		as := newAssembler(prog)
		d := verifDump{Name: "dec_bytes_noavx2", Kind: "typed", Consts: map[string]int64{"MODE_JSON": int64(_MODE_JSON)}}
		for _, ins := range prog {
			d.Program = append(d.Program, ins.disassemble())
			d.Ops = append(d.Ops, verifOpOf(ins))
		}
		d.Ins = as.BaseAssembler.VerifDump(as.compile)
		verifWrite(d)
		cpu.HasAVX2 = old
	}
	// the generic (interface{}) decoder
	vd := new(_ValueDecoder)
	d := verifDump{Name: "dec_generic", Kind: "generic", Consts: map[string]int64{}}
	d.Ins = vd.BaseAssembler.VerifDump(vd.compile)
	// layout of the real state stack the generated code indexes (ST = &_Stack.mm)
	var stk _Stack
	d.Consts["F_disable_urc"] = int64(_F_disable_urc)
	d.Consts["B_UNICODE_REPLACE"] = int64(ntypes.B_UNICODE_REPLACE)
	d.Consts["vt_len"] = int64(len(stk.mm.Vt))
	d.Consts["vt_off"] = int64(unsafe.Offsetof(stk.mm.Vt))
	d.Consts["vp_len"] = int64(len(stk.vp))
	d.Consts["vp_off"] = int64(unsafe.Offsetof(stk.vp) - unsafe.Offsetof(stk.mm))
	verifWrite(d)
	fmt.Println("dumped", len(types)+1)
}
