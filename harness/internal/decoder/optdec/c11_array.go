//go:build verif

package optdec

import (
	"unsafe"

	"github.com/bytedance/sonic/internal/rt"
	v "github.com/bytedance/sonic/internal/zzverif"
)

// VerifC11ArrayShort: decoding a JSON array of 0..3 elements into a Go array of two that
// already holds values: the elements present are stored, the rest are zeroed (as encoding/json
// and the generated decoder do) - also for the empty JSON array.
func VerifC11ArrayShort() {
	verifStubMismatch()
	if v.Symbolic() {
		v.Stub("github.com/bytedance/sonic/internal/rt.MemclrNoHeapPointers", func(p unsafe.Pointer, n uintptr) {
			for i := uintptr(0); i < n; i++ {
				*(*byte)(unsafe.Pointer(uintptr(p) + i)) = 0
			}
		})
	}
	k := v.Concretize(v.Int("elems", 0, 3))
	nodes := []node{{typ: uint64(KArray), val: uint64(k+1)<<ConLenBits | uint64(k)}}
	for i := 0; i < k; i++ {
		nodes = append(nodes, node{typ: uint64(KUint), val: uint64(i + 1)})
	}
	nodes = append(nodes, node{typ: uint64(KNull)})
	d := &arrayDecoder{len: 2, elemType: &rt.GoType{Size: 1}, elemDec: &u8Decoder{}}
	dst := [3]uint8{0xAA, 0xBB, 0xCC} // two elements with earlier content, and a neighbour
	err := d.FromDom(unsafe.Pointer(&dst[0]), Node{cptr: uintptr(unsafe.Pointer(&nodes[0]))}, &context{})
	v.Assert(err == nil, "decoding an array of small integers fails")
	for i := 0; i < 2; i++ {
		want := uint8(0)
		if i < k {
			want = uint8(i + 1)
		}
		v.Assert(dst[i] == want, "an element of a Go array that the JSON array does not reach keeps its old value instead of being zeroed (or a present element is not stored)")
	}
	v.Assert(dst[2] == 0xCC, "decoding into a Go array writes past its end")
	if k == 0 {
		v.Cover("empty")
	}
	if k > 2 {
		v.Cover("longer")
	}
}
