//go:build verif

package optdec

import (
	"errors"
	"math"
	"reflect"
	"unsafe"

	"github.com/bytedance/sonic/internal/envs"
	caching "github.com/bytedance/sonic/internal/optcaching"
	"github.com/bytedance/sonic/internal/resolver"
	"github.com/bytedance/sonic/internal/rt"
	v "github.com/bytedance/sonic/internal/zzverif"
)

// The alternative decoder converts a DOM (built by native parse_with_padding) with per-type
// functors written in Go. The functors are executed here on ARBITRARY well-typed DOM nodes
// (symbolic tag and 64-bit payload) and compared with the reference both decoders must
// implement: exact value, out-of-range => error, null => destination untouched.

var errVerifMismatch = errors.New("verif: mismatch")

func verifStubMismatch() {
	v.Stub("github.com/bytedance/sonic/internal/decoder/optdec.error_mismatch", func(node Node, ctx *context, typ reflect.Type) error {
		return errVerifMismatch
	})
}

func verifNumNode() (*node, uint8, uint64) {
	kinds := [...]uint8{KNull, KUint, KSint, KReal, KTrue}
	k := kinds[v.Int("kind", 0, len(kinds)-1)]
	payload := v.Uint64("payload")
	nd := &node{typ: uint64(k), val: payload}
	return nd, k, payload
}

// VerifC11IntFunctors: i8..i64 / u8..u64 FromDom == exact integer semantics with range checks.
func VerifC11IntFunctors() {
	verifStubMismatch()
	nd, k, payload := verifNumNode()
	n := Node{cptr: uintptr(unsafe.Pointer(nd))}
	ctx := &context{}
	which := v.Concretize(v.Int("width", 0, 7))
	var dst [8]byte
	for i := range dst {
		dst[i] = 0xAA
	}
	vp := unsafe.Pointer(&dst[0])
	var err error
	var lo int64
	var hi uint64
	signed := which < 4
	switch which {
	case 0:
		err, lo, hi = (&i8Decoder{}).FromDom(vp, n, ctx), math.MinInt8, math.MaxInt8
	case 1:
		err, lo, hi = (&i16Decoder{}).FromDom(vp, n, ctx), math.MinInt16, math.MaxInt16
	case 2:
		err, lo, hi = (&i32Decoder{}).FromDom(vp, n, ctx), math.MinInt32, math.MaxInt32
	case 3:
		err, lo, hi = (&i64Decoder{}).FromDom(vp, n, ctx), math.MinInt64, math.MaxInt64
	case 4:
		err, hi = (&u8Decoder{}).FromDom(vp, n, ctx), math.MaxUint8
	case 5:
		err, hi = (&u16Decoder{}).FromDom(vp, n, ctx), math.MaxUint16
	case 6:
		err, hi = (&u32Decoder{}).FromDom(vp, n, ctx), math.MaxUint32
	case 7:
		err, hi = (&u64Decoder{}).FromDom(vp, n, ctx), math.MaxUint64
	}
	size := []int{1, 2, 4, 8, 1, 2, 4, 8}[which]
	got := uint64(0)
	for i := size - 1; i >= 0; i-- {
		got = got<<8 | uint64(dst[i])
	}
	untouched := true
	for i := 0; i < 8; i++ {
		if dst[i] != 0xAA {
			untouched = false
		}
	}
	// reference
	fits := false
	var want uint64
	switch k {
	case KUint:
		fits = payload <= hi
		want = payload
	case KSint:
		if signed {
			fits = int64(payload) >= lo && (int64(payload) < 0 || payload <= hi)
			want = payload
		}
	}
	switch {
	case k == KNull:
		v.Assert(err == nil && untouched, "null must leave the destination untouched")
		v.Cover("null")
	case fits:
		mask := uint64(math.MaxUint64)
		if size < 8 {
			mask = (uint64(1) << (8 * uint(size))) - 1
		}
		v.Assert(err == nil, "an in-range integer is rejected")
		v.Assert(got == want&mask, "the stored integer is not the exact value")
		v.Cover("fits")
	default:
		v.Assert(err != nil, "an out-of-range or non-integer number is accepted (wrapped or truncated) instead of rejected")
		v.Assert(untouched, "the destination is written although the value is rejected")
		v.Cover("rejected")
	}
}

// VerifC11Float32Functor: a double is accepted for a float32 destination exactly when its
// correctly rounded float32 value is finite (what strconv.ParseFloat(.,32) / the generated
// decoder's CVTSD2SS+UCOMISS do), and that rounded value is stored.
func VerifC11Float32Functor() {
	verifStubMismatch()
	bits := v.Uint64("bits")
	f := math.Float64frombits(bits)
	v.Assume(!math.IsNaN(f) && !math.IsInf(f, 0)) // the parser never produces NaN/Inf nodes
	nd := &node{typ: uint64(KReal), val: bits}
	n := Node{cptr: uintptr(unsafe.Pointer(nd))}
	var dst float32 = 1.5
	err := (&f32Decoder{}).FromDom(unsafe.Pointer(&dst), n, &context{})
	r := float32(f)
	if math.IsInf(float64(r), 0) {
		v.Assert(err != nil, "a literal beyond the float32 range is accepted")
		v.Cover("overflow")
	} else {
		v.Assert(err == nil, "a literal that rounds to a finite float32 (e.g. 3.4028235e38 = MaxFloat32) is rejected")
		v.Assert(err != nil || math.Float32bits(dst) == math.Float32bits(r), "the stored float32 is not the rounded value")
		v.Cover("finite")
	}
}

// VerifC11StructEscapedKey: struct field lookup must use the UNESCAPED key text. The DOM below is
// what parse_with_padding produces for {"a\/b":7}: the key node is marked escaped, its length is
// the unescaped length and the unescaped bytes live in the padded scratch copy only.
func VerifC11StructEscapedKey() {
	const doc = `{"a\/b":7}`
	padded := make([]byte, len(doc)+64)
	copy(padded, doc)
	copy(padded[2:], "a/b") // in-place unescape done by the native parser
	nodes := []node{
		{typ: uint64(KObject), val: uint64(3)<<ConLenBits | 1},
		{typ: uint64(KStringEscaped) | 2<<PosBits, val: 3},
		{typ: uint64(KUint) | 8<<PosBits, val: 7},
	}
	p := &Parser{Json: doc, padded: padded, nodes: nodes}
	p.options = v.Uint64("options") &^ uint64(OptionDisableUnknown)
	ctx := &context{Parser: p}
	fields := []resolver.FieldMeta{{Name: "a/b", Path: []resolver.Offset{{Size: 0}}}}
	var looked string
	if v.Symbolic() {
		v.Stub("(*github.com/bytedance/sonic/internal/optcaching.FieldCache).Get", func(f *caching.FieldCache, name string, caseSensitive bool) int {
			looked = name
			if name == "a/b" {
				return 0
			}
			return -1
		})
	}
	d := &structDecoder{fields: []fieldEntry{{FieldMeta: fields[0], fieldDec: &u8Decoder{}}}}
	if !v.Symbolic() {
		d.fieldMap = caching.NewFieldCache(fields)
	}
	var dst uint8
	root := Node{cptr: uintptr(unsafe.Pointer(&nodes[0]))}
	err := d.FromDom(unsafe.Pointer(&dst), root, ctx)
	_ = looked
	v.Assert(err == nil, "struct decoding of a valid document fails")
	v.Assert(dst == 7, "a field whose key is written with an escape sequence is not filled (lookup used the raw key text)")
	v.Cover("end")
}

// VerifC11SliceBytesEscaped: a base64 text written with an escape sequence ("\/" as PHP emits)
// is decoded from its UNESCAPED spelling. The DOM is what parse_with_padding builds for the
// document "YWI\/Yw==": the node is marked escaped, carries the unescaped length and the
// unescaped bytes live in the padded copy only.
func VerifC11SliceBytesEscaped() {
	const doc = `"YWI\/Yw=="`
	padded := make([]byte, len(doc)+64)
	copy(padded, doc)
	copy(padded[1:], "YWI/Yw==") // in-place unescape done by the native parser
	esc := v.Bool("escaped")
	var nodes []node
	var p *Parser
	if esc {
		nodes = []node{{typ: uint64(KStringEscaped) | 1<<PosBits, val: 8}}
		p = &Parser{Json: doc, padded: padded, nodes: nodes}
		v.Cover("escaped")
	} else {
		const plain = `"YWIvYw=="`
		nodes = []node{{typ: uint64(KStringCommon) | 1<<PosBits, val: 8}}
		pd := make([]byte, len(plain)+64)
		copy(pd, plain)
		p = &Parser{Json: plain, padded: pd, nodes: nodes}
		v.Cover("plain")
	}
	ctx := &context{Parser: p}
	var given string
	if v.Symbolic() {
		v.Stub("github.com/bytedance/sonic/internal/rt.DecodeBase64", func(raw []byte) ([]byte, error) {
			given = string(raw)
			return []byte("ab?c"), nil
		})
	}
	root := Node{cptr: uintptr(unsafe.Pointer(&nodes[0]))}
	b, err := root.AsSliceBytes(ctx)
	if v.Symbolic() {
		if esc {
			v.Assert(given == "YWI/Yw==", "the base64 decoder is not given the unescaped text of an escaped string")
		} else {
			v.Assert(given == "YWIvYw==", "the base64 decoder is not given the string's text")
		}
	}
	v.Assert(err == nil, "a valid base64 string (written with an escape sequence) is rejected for a []byte destination")
	v.Assert(string(b) == "ab?c", "wrong bytes decoded from a base64 string")
}

// VerifC11EfaceFastGate: whenever the option word lets the fast interface{} builder run
// (canUseFastMap), a number decodes to the same dynamic type and value as on the reference
// (fallback) path under the same options: the gate must exclude every option the fast builder
// does not honour.
func VerifC11EfaceFastGate() {
	verifStubMismatch()
	v.Stub("os.Getenv", func(key string) string { return "1" }) // SONIC_USE_FASTMAP=1 (package initialiser of envs)
	envs.UseFastMap = true
	if v.Symbolic() {
		// the type descriptors are built with reflect in package initialisers the engine does not
		// run: three distinct placeholders are all the gate needs
		rt.AnyType, rt.MapEfaceType, rt.SliceEfaceType = new(rt.GoType), new(rt.GoType), new(rt.GoType)
	}
	kinds := [...]uint8{KUint, KSint, KReal}
	k := kinds[v.Concretize(v.Int("kind", 0, len(kinds)-1))]
	// (the engine has no symbolic integer->float conversion: payloads are picked from a family)
	pays := [...]uint64{0, 1, 1 << 53, 1<<53 + 1, 1<<63 - 1, 1 << 63, ^uint64(0), 0x3FF0000000000000, 0xC000000000000000}
	payload := pays[v.Concretize(v.Int("payload", 0, len(pays)-1))]
	opts := v.Uint64("options")
	// with UseNumber the native parser produces raw-number nodes, not the kinds above
	v.Assume(opts&(1<<_F_use_number) == 0)
	if k == KSint {
		v.Assume(int64(payload) < 0) // the parser emits KSint for negative integers only
	}
	if k == KReal {
		v.Assume((payload>>52)&0x7FF != 0x7FF) // finite doubles
	}
	nodes := []node{{typ: uint64(k), val: payload}, {typ: uint64(KNull)}}
	p := &Parser{Json: "1", options: opts, nodes: nodes}
	ctx := &context{Parser: p}
	if !canUseFastMap(opts, rt.AnyType) {
		v.Cover("slow")
		return
	}
	v.Cover("fast")
	// reference result
	ref := Node{cptr: uintptr(unsafe.Pointer(&nodes[0]))}
	want, err := ref.AsEfaceFallback(ctx)
	v.Assert(err == nil, "reference path fails on a number node")
	// fast result
	ctx.efacePool = newEfacePool(&jsonStat{number: 1}, false)
	ctx.Stack = newStack(1)
	it := NewNodeIter(Node{cptr: uintptr(unsafe.Pointer(&nodes[0]))})
	got := AsEfaceFast(&it, ctx)
	switch w := want.(type) {
	case float64:
		g, ok := got.(float64)
		v.Assert(ok, "fast interface{} builder yields another dynamic type than the reference path (float64)")
		if ok {
			v.Assert(math.Float64bits(g) == math.Float64bits(w), "fast interface{} builder yields another float64 than the reference path")
		}
	case int64:
		g, ok := got.(int64)
		v.Assert(ok, "the fast interface{} builder is allowed under UseInt64 although it cannot produce int64: integers come back as float64")
		if ok {
			v.Assert(g == w, "fast interface{} builder yields another int64 than the reference path")
		}
	default:
		v.Assert(false, "reference path yields an unexpected dynamic type for a number")
	}
}
