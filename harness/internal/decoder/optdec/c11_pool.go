//go:build verif

package optdec

import (
	v "github.com/bytedance/sonic/internal/zzverif"
)

// VerifC11ParserPoolClean: the alternative decoder recycles its Parser objects through a pool
// shared by all goroutines. Whatever a previous decode - under any option set, on any input,
// successful or not - left in the object, reset() must bring every field that steers a later
// decode back to the state of a fresh Parser: otherwise the result of a call depends on which
// calls ran before it (C09) and differs from the primary decoder, which has no such state (C11).
// All scalar fields are arbitrary before the reset.
func VerifC11ParserPoolClean() {
	p := &Parser{}
	p.options = v.Uint64("options")
	p.start = uintptr(v.Uint64("start"))
	p.cur = uintptr(v.Uint64("cur"))
	p.end = uintptr(v.Uint64("end"))
	p.Utf8Inv = v.Bool("utf8inv")
	p.isEface = v.Bool("iseface")
	p.nbuf.ncur = uintptr(v.Uint64("ncur"))
	p.nbuf.parent = v.Int64("parent")
	p.nbuf.depth = v.Uint64("depth")
	p.nbuf.iskey = v.Bool("iskey")
	p.nbuf.stat.object = v.Uint32("stat")
	p.Json = "x"
	p.padded = make([]byte, 1, 4)
	p.reset()
	v.Assert(p.options == 0, "recycled Parser keeps the option word of the previous decode")
	v.Assert(p.start == 0 && p.cur == 0 && p.end == 0, "recycled Parser keeps a cursor of the previous decode")
	v.Assert(!p.Utf8Inv, "recycled Parser keeps Utf8Inv: later decodes read strings from the wrong buffer")
	v.Assert(!p.isEface, "recycled Parser keeps isEface")
	v.Assert(p.nbuf.ncur == 0 && p.nbuf.parent == 0 && p.nbuf.depth == 0 && !p.nbuf.iskey && p.nbuf.stat.object == 0, "recycled Parser keeps node-buffer state")
	v.Assert(len(p.Json) == 0 && len(p.padded) == 0, "recycled Parser keeps the previous input")
	v.Cover("end")
}
