//go:build verif

package optdec

import (
	"unsafe"

	"github.com/bytedance/sonic/internal/rt"

	v "github.com/bytedance/sonic/internal/zzverif"
)

// VerifC18ParseKeepsOptions: Parser.parse() masks the UseNumber bit while the native parser
// runs on a typed root and must hand the option word back unchanged on every way out - the Go
// side reads the same word afterwards when it fills interface{} values nested in the typed root
// (UseNumber -> json.Number). Both exits: the ordinary one and the continuation after the node
// buffer ran full (documents with more nodes than the pooled buffer holds), for every option
// word, both root kinds and every native result code.
func VerifC18ParseKeepsOptions() {
	p := &Parser{}
	p.nodes = make([]node, 2, 2)
	p.Json = "[1,2,3]"
	p.options = v.Uint64("options")
	p.isEface = v.Bool("iseface")
	opt0 := p.options
	p.nbuf.nstart = uintptr(unsafe.Pointer(&p.nodes[0]))
	p.nbuf.ncur = p.nbuf.nstart
	calls := 0
	first := v.Int("firstResult", 0, 12)
	second := v.Int("secondResult", 0, 12)
	var seen [2]uint64
	v.Stub("github.com/bytedance/sonic/internal/native.ParseWithPadding", func(parser unsafe.Pointer) int {
		q := (*Parser)(parser)
		if calls < 2 {
			seen[calls] = q.options
		}
		calls++
		if calls == 1 {
			if first == int(SONIC_VISIT_FAILED) {
				// contract of the native parser: this code means the node buffer is full
				q.nbuf.ncur = q.nbuf.nstart + uintptr(len(q.nodes))*unsafe.Sizeof(node{})
			}
			return first
		}
		return second
	})
	// the continuation's node buffer (sized from the runtime's type descriptor, which the engine
	// does not model): any buffer large enough
	v.Stub("github.com/bytedance/sonic/internal/rt.Mallocgc", func(size uintptr, typ *rt.GoType, needZero bool) unsafe.Pointer {
		b := make([]node, 64)
		return unsafe.Pointer(&b[0])
	})
	if !v.Symbolic() {
		return
	}
	err := p.parse()
	v.Assert(p.options == opt0, "Parser.parse() does not restore the option word: UseNumber is lost for interface{} values nested in a typed root")
	if calls == 2 {
		v.Assert(int(err) == second, "continuation result not returned")
		v.Assert(seen[1] == seen[0], "the continuation runs the native parser under a different option word")
		v.Cover("continued")
	} else {
		v.Assert(int(err) == first, "result not returned")
		v.Cover("plain")
	}
	if !p.isEface {
		v.Assert(seen[0] == opt0&^(1<<_F_use_number), "typed root: native parser not run with UseNumber masked")
	} else {
		v.Assert(seen[0] == opt0, "interface{} root: option word changed for the native parser")
	}
	v.Cover("end")
}
