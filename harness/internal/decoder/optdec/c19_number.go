//go:build verif

package optdec

import (
	v "github.com/bytedance/sonic/internal/zzverif"
)

// VerifC19SkipNumberFast: the alternative decoder recovers the source text of a number (for
// json.Number destinations, `,string` numbers and number map keys) with SkipNumberFast. For
// every text that starts with a valid JSON number (decided by the real
// encoding/json.isValidNumber) followed by the end of the text or a byte that cannot continue a
// number, it returns exactly the end of that number - so the text handed on is the whole literal,
// exponent sign included.
func VerifC19SkipNumberFast() {
	n := v.Int("n", 1, 5)
	s := v.StringN("s", n, 5)
	k := v.Int("k", 1, 5)
	v.Assume(k <= n)
	v.Assume(v.JSONIsValidNumber(s[:k]))
	if k < n {
		c := s[k]
		v.Assume(c == ',' || c == ']' || c == '}' || c == ' ' || c == '\n' || c == '"')
	}
	end, ok := SkipNumberFast(s, 0)
	v.Assert(ok, "SkipNumberFast finds no number although the text starts with one")
	v.Assert(end == k, "SkipNumberFast does not stop at the end of the number literal")
	if k >= 4 {
		v.Cover("long")
	}
	v.Cover("end")
}
