//go:build verif

package alg

import (
	v "github.com/bytedance/sonic/internal/zzverif"
)

// VerifC03IsValidNumber: alg.IsValidNumber == encoding/json.isValidNumber on every string.
func VerifC03IsValidNumber() {
	n := v.Int("n", 0, 6)
	s := v.StringN("s", n, 6)
	got := IsValidNumber(s)
	want := v.JSONIsValidNumber(s)
	v.Assert(got == want, "IsValidNumber disagrees with encoding/json.isValidNumber")
	if got {
		v.Cover("valid")
	} else {
		v.Cover("invalid")
	}
}
