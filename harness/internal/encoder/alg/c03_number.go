//go:build verif

package alg

import (
	"encoding/json"

	"github.com/bytedance/sonic/internal/native/types"
	v "github.com/bytedance/sonic/internal/zzverif"
)

// VerifC03IsValidNumber: alg.IsValidNumber == encoding/json.isValidNumber on every string.
func VerifC03IsValidNumber() {
	n := v.Int("n", 0, 6)
	s := v.StringN("s", n, 6)
	got := IsValidNumber(s)
	want := v.JSONIsValidNumber(s)
	v.Assert(got == want, "IsValidNumber disagrees with encoding/json.isValidNumber")
	if got {
		v.Cover("valid")
	} else {
		v.Cover("invalid")
	}
}

// VerifC02ValidTrailing: alg.Valid (behind sonic.Valid / ValidString / encoder.Valid) adds the
// end-of-input rule on top of the native validator: after the value, only JSON white space
// (exactly the bytes the real encoding/json.isSpace accepts) may follow; the reported
// position is that of the first other byte.
func VerifC02ValidTrailing() {
	n := v.Int("n", 1, 3)
	data := v.BytesN("data", n, 3)
	end := v.Int("valueEnd", 1, 3)
	v.Assume(end <= n)
	v.Stub("github.com/bytedance/sonic/internal/native.ValidateOne", func(s *string, p *int, m *types.StateMachine, flags uint64) int {
		*p = end // the native validator accepted one value ending at `end`
		return 0
	})
	ok, pos := Valid(data)
	if !v.Symbolic() {
		// natively the real validator decides where a value ends: the model's tail is put
		// after a one-byte value and the verdict compared with encoding/json
		doc := append([]byte("1"), data[end:]...)
		got, _ := Valid(doc)
		v.Assert(got == json.Valid(doc), "Valid and encoding/json.Valid disagree on a value followed by the model's trailing bytes")
		return
	}
	firstBad := -1
	for i := n - 1; i >= end; i-- {
		if !v.JSONIsSpace(data[i]) {
			firstBad = i
		}
	}
	if firstBad < 0 {
		v.Assert(ok, "Valid rejects a value followed only by JSON white space")
		v.Cover("accept")
	} else {
		v.Assert(!ok, "Valid accepts a document with a byte after the value that is not JSON white space")
		if !ok {
			v.Assert(pos == firstBad, "Valid reports another position than the first byte that is not white space")
		}
		v.Cover("reject")
	}
}
