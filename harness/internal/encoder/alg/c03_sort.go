//go:build verif

package alg

import (
	"unsafe"

	v "github.com/bytedance/sonic/internal/zzverif"
)

// Map-key sorting (SortMapKeys): radixQsort / insertRadixSort / heapSort leave the pairs in
// ascending bytewise key order, and are a permutation that keeps every key with its value.

var verifSortMarks [16]byte

func verifSortCheck(kvs []_MapPair, orig []string) {
	n := len(kvs)
	var seen [16]bool
	for i := 0; i < n; i++ {
		if i+1 < n {
			v.Assert(!(kvs[i+1].k < kvs[i].k), "map keys are not in ascending order after sorting")
		}
		j := -1
		for t := 0; t < n; t++ {
			if kvs[i].v == unsafe.Pointer(&verifSortMarks[t]) {
				j = t
			}
		}
		v.Assert(j >= 0, "sorting lost a map value")
		if j >= 0 {
			v.Assert(!seen[j], "sorting duplicated a map value")
			seen[j] = true
			v.Assert(kvs[i].k == orig[j], "sorting separated a key from its value")
		}
	}
}

// VerifC03InsertRadixSort: the small-slice sorter from radix position d, for keys that agree
// on their first d bytes (what radixQsort guarantees when it calls it).
func VerifC03InsertRadixSort() {
	n := v.Concretize(v.Int("n", 0, 4))
	d := v.Concretize(v.Int("d", 0, 1))
	kvs := make([]_MapPair, n)
	orig := make([]string, n)
	names := [4]string{"k0", "k1", "k2", "k3"}
	lens := [4]string{"l0", "l1", "l2", "l3"}
	for i := 0; i < n; i++ {
		l := v.Int(lens[i], 0, 2)
		k := v.StringN(names[i], l, 2)
		v.Assume(len(k) >= d)
		if d == 1 && i > 0 {
			v.Assume(k[0] == orig[0][0])
		}
		orig[i] = k
		kvs[i].k = k
		kvs[i].v = unsafe.Pointer(&verifSortMarks[i])
	}
	insertRadixSort(kvs, d)
	verifSortCheck(kvs, orig)
	v.Cover("end")
}

// VerifC03RadixQsort: the three-way radix quicksort (taken for more than 11 pairs) and its
// heapsort fallback, on 12..13 keys of which three are arbitrary strings of up to 2 bytes
// placed where the pivot is sampled.
func VerifC03RadixQsort()  { verifRadixQsort(2) }
func VerifC03RadixQsort3() { verifRadixQsort(3) }

func verifRadixQsort(nsym int) {
	n := v.Concretize(v.Int("n", 12, 13))
	heap := v.Bool("heap")
	fixed := [13]string{"", "b", "d", "f", "h", "j", "", "n", "p", "r", "t", "", "bb"}
	kvs := make([]_MapPair, n)
	orig := make([]string, n)
	for i := 0; i < n; i++ {
		k := fixed[i]
		switch i {
		case 0:
			k = v.StringN("k0", v.Int("l0", 0, 2), 2)
		case 6:
			k = v.StringN("k1", v.Int("l1", 0, 2), 2)
		case 11:
			if nsym < 3 {
				break
			}
			k = v.StringN("k2", v.Int("l2", 0, 2), 2)
		}
		orig[i] = k
		kvs[i].k = k
		kvs[i].v = unsafe.Pointer(&verifSortMarks[i])
	}
	if heap {
		radixQsort(kvs, 0, 0)
		v.Cover("heapsort")
	} else {
		radixQsort(kvs, 0, maxDepth(n))
		v.Cover("quicksort")
	}
	verifSortCheck(kvs, orig)
}
