//go:build verif

package alg

import (
	"math"
	"unsafe"

	"github.com/bytedance/sonic/internal/native"
	v "github.com/bytedance/sonic/internal/zzverif"
)

// ---------- number formatting wrappers used by the VM encoder (C12) ----------

// contract stub of native.F64toa / F32toa: writes n in 1..24 bytes that are an uninterpreted
// function of the bit pattern (same value => same text); 0 bytes for NaN/Inf. The facts for
// the two zeros are what the real routine prints (checked by every native replay).
func verifF64toaStub(out *byte, val float64) int {
	bits := math.Float64bits(val)
	if bits == 0 {
		*out = '0'
		return 1
	}
	if bits == 0x8000000000000000 {
		p := (*[2]byte)(unsafe.Pointer(out))
		p[0], p[1] = '-', '0'
		return 2
	}
	if math.IsNaN(val) || math.IsInf(val, 0) {
		return 0
	}
	n := int(v.UF64("f64toa.len", bits))
	v.Assume(n >= 1 && n <= 3)
	p := (*[3]byte)(unsafe.Pointer(out))
	for i := 0; i < n; i++ {
		p[i] = byte(v.UF64("f64toa.byte", bits, uint64(i)))
	}
	return n
}

func verifF32toaStub(out *byte, val float32) int {
	bits := uint64(math.Float32bits(val))
	if bits == 0 {
		*out = '0'
		return 1
	}
	if bits == 0x80000000 {
		p := (*[2]byte)(unsafe.Pointer(out))
		p[0], p[1] = '-', '0'
		return 2
	}
	if bits&0x7f800000 == 0x7f800000 {
		return 0
	}
	n := int(v.UF64("f32toa.len", bits))
	v.Assume(n >= 1 && n <= 3)
	p := (*[3]byte)(unsafe.Pointer(out))
	for i := 0; i < n; i++ {
		p[i] = byte(v.UF64("f32toa.byte", bits, uint64(i)))
	}
	return n
}

// buffer geometries: capacities on both sides of every growth threshold of the wrappers
var verifCaps = [...]int{0, 1, 2, 5, 8, 40, 65, 70}

func verifPrefixBuf() ([]byte, int) {
	l := v.Int("len", 0, 2)
	c := verifCaps[v.Int("capClass", 0, len(verifCaps)-1)]
	v.Assume(l <= c)
	buf := make([]byte, l, c)
	for i := 0; i < l; i++ {
		buf[i] = 'p'
	}
	return buf, l
}

// VerifC12F64toa: the Go wrapper used by the interpreter appends exactly what the native
// routine (which the JIT calls directly) prints, for every float64 bit pattern and every
// buffer geometry; the prefix is preserved.
func VerifC12F64toa() {
	v.Stub("github.com/bytedance/sonic/internal/native.F64toa", verifF64toaStub)
	bits := v.Uint64("bits")
	f := math.Float64frombits(bits)
	buf, l := verifPrefixBuf()
	out := F64toa(buf, f)
	var ref [64]byte
	n := native.F64toa(&ref[0], f)
	v.Assert(len(out) == l+n, "F64toa wrapper: length differs from the native routine's output")
	if len(out) == l+n {
		for i := 0; i < l; i++ {
			v.Assert(out[i] == 'p', "F64toa wrapper changed the buffer prefix")
		}
		for i := 0; i < n && i < 3; i++ {
			v.Assert(out[l+i] == ref[i], "F64toa wrapper: text differs from the native routine's output")
		}
	}
	v.Cover("end")
}

// VerifC12F32toa: same for float32.
func VerifC12F32toa() {
	v.Stub("github.com/bytedance/sonic/internal/native.F32toa", verifF32toaStub)
	bits := v.Uint32("bits")
	f := math.Float32frombits(bits)
	buf, l := verifPrefixBuf()
	out := F32toa(buf, f)
	var ref [64]byte
	n := native.F32toa(&ref[0], f)
	v.Assert(len(out) == l+n, "F32toa wrapper: length differs from the native routine's output")
	if len(out) == l+n {
		for i := 0; i < l; i++ {
			v.Assert(out[i] == 'p', "F32toa wrapper changed the buffer prefix")
		}
		for i := 0; i < n && i < 3; i++ {
			v.Assert(out[l+i] == ref[i], "F32toa wrapper: text differs from the native routine's output")
		}
	}
	v.Cover("end")
}

// ---------- restartable quote / html-escape loops (C20-D2, C06-D3) ----------

type verifQuoteLog struct {
	base     unsafe.Pointer // start of the input
	total    int            // input length
	consumed int            // bytes consumed so far
	written  int            // bytes written so far
	calls    int
	flags    uint64
	html     bool
}

var verifQ *verifQuoteLog

// escaped size of one input byte (native/parsing.h: _SingleQuoteTab, _DoubleQuoteTab, _HtmlQuoteTab)
func (q *verifQuoteLog) size(b byte, flags uint64) int {
	if q.html {
		if b == '<' || b == '>' || b == '&' {
			return 6
		}
		return 1
	}
	double := flags&1 != 0
	switch {
	case b == '\t' || b == '\n' || b == '\r':
		if double {
			return 3
		}
		return 2
	case b < 0x20:
		if double {
			return 7
		}
		return 6
	case b == '"' || b == '\\':
		if double {
			return 4
		}
		return 2
	}
	return 1
}

// contract stub of native.Quote / native.HTMLEscape (native/native.h): consumes c <= nb input
// bytes, writes w <= *dn output bytes at dp, sets *dn = w; returns nb when everything was
// consumed, otherwise the complement of the consumed count; makes progress when *dn >= 6.
func verifQuoteStub(s unsafe.Pointer, nb int, dp unsafe.Pointer, dn *int, flags uint64) int {
	q := verifQ
	q.calls++
	// the wrapper must resume exactly where the previous call stopped
	v.Assert(uintptr(s) == uintptr(q.base)+uintptr(q.consumed), "quote loop: input pointer does not resume at the first unconsumed byte")
	v.Assert(nb == q.total-q.consumed, "quote loop: remaining length is wrong")
	v.Assert(*dn >= 0, "quote loop: negative output space")
	q.flags = flags
	space := *dn
	// native/quote.c: greedy -- consume input bytes while their escaped form still fits
	c, w := 0, 0
	for c < nb {
		need := q.size(*(*byte)(unsafe.Pointer(uintptr(s) + uintptr(c))), flags)
		if w+need > space {
			break
		}
		w += need
		c++
	}
	v.WriteJunk(dp, w) // the native writes w bytes at dp: checked against the buffer's capacity
	*dn = w
	q.consumed += c
	q.written += w
	if c == nb {
		return nb
	}
	return ^c
}

// VerifC20QuoteLoop: alg.Quote drives the native routine so that every input byte is consumed
// exactly once, in order, into contiguous output inside the buffer's capacity; quotes are added
// once; the prefix is preserved; the loop terminates.
func VerifC20QuoteLoop() {
	v.Stub("github.com/bytedance/sonic/internal/native.Quote", verifQuoteStub)
	n := v.Int("n", 0, 3)
	val := v.StringN("val", n, 3)
	for i := 0; i < n; i++ {
		b := val[i] // one representative pair per escape-size class
		v.Assume(b == 1 || b == 2 || b == '\n' || b == '\t' || b == '"' || b == '\\' || b == 'a' || b == 'b')
	}
	double := v.Bool("double")
	buf, l := verifPrefixBuf()
	verifQ = &verifQuoteLog{total: n}
	// the stub compares against the data pointer of val itself
	verifQ.base = *(*unsafe.Pointer)(unsafe.Pointer(&val))
	out := Quote(buf, val, double)
	q := verifQ
	open, clos := 1, 1
	if double {
		open, clos = 3, 3
	}
	for i := 0; i < l && i < len(out); i++ {
		v.Assert(out[i] == 'p', "Quote changed the buffer prefix")
	}
	v.Assert(len(out) >= l+open+clos && out[l] == '"' && out[len(out)-1] == '"', "quotes missing")
	if !v.Symbolic() {
		// native replay: the observable definition -- the literal decodes back to the input
		verifQuoteOracle(out[l:], val, double)
		return
	}
	// contract-level obligations (the stub logged how the wrapper drove the native routine)
	if n == 0 {
		v.Assert(q.calls == 0, "quote loop: native called for the empty string")
		v.Assert(len(out) == l+open+clos, "empty string not quoted as two quotes")
		v.Cover("empty")
		return
	}
	v.Assert(q.consumed == n, "quote loop: not every input byte was consumed")
	v.Assert(len(out) == l+open+q.written+clos, "quote loop: output length is not prefix + quotes + native output")
	if double {
		v.Assert(q.flags == 1, "double quoting does not pass F_DOUBLE_UNQUOTE")
	} else {
		v.Assert(q.flags == 0, "single quoting passes flags")
	}
	if q.calls > 1 {
		v.Cover("restart")
	}
	v.Cover("end")
}

func verifHTMLStub(s unsafe.Pointer, nb int, dp unsafe.Pointer, dn *int) int {
	return verifQuoteStub(s, nb, dp, dn, 0)
}

// VerifC20HtmlEscapeLoop: alg.HtmlEscape preserves the destination prefix, consumes all of src
// in order and never writes outside dst's capacity, for every dst geometry (F17: growth target
// ignores len(dst)).
func VerifC20HtmlEscapeLoop() {
	v.Stub("github.com/bytedance/sonic/internal/native.HTMLEscape", verifHTMLStub)
	n := v.Int("n", 1, 3)
	src := v.BytesN("src", n, 3)
	for i := 0; i < n; i++ {
		b := src[i]
		v.Assume(b == '<' || b == '&' || b == 'a' || b == 'b')
	}
	// short prefixes and prefixes longer than len(src)*3/2+64; spare capacity on both sides of len(src)+64
	lens := [...]int{0, 2, 66, 69, 80}
	spares := [...]int{0, 1, 5, 66, 70}
	l := lens[v.Int("dlenClass", 0, len(lens)-1)]
	c := l + spares[v.Int("spareClass", 0, len(spares)-1)]
	dst := make([]byte, l, c)
	if l > 0 {
		dst[0] = 'p'
		dst[l-1] = 'q'
	}
	verifQ = &verifQuoteLog{total: n, base: unsafe.Pointer(&src[0]), html: true}
	out := HtmlEscape(dst, src)
	q := verifQ
	if v.Symbolic() {
		v.Assert(q.consumed == n, "html-escape loop: not every input byte was consumed")
		v.Assert(len(out) == l+q.written, "html-escape loop: output length is not prefix + native output")
	} else {
		verifHTMLOracle(out, dst[:l], src)
	}
	if l > 0 && len(out) >= l {
		v.Assert(out[0] == 'p' && out[l-1] == 'q', "HtmlEscape changed the destination prefix")
	}
	if l >= 66 {
		v.Cover("long-prefix")
	}
	v.Cover("end")
}
