//go:build verif

package alg

import (
	"unsafe"

	v "github.com/bytedance/sonic/internal/zzverif"
)

// Long inputs whose escaped form is 6x the input force the restart loops through several
// grow-and-resume rounds (the content is concrete so the path is linear; the geometry of
// the destination is symbolic).

// (the real runtime.growslice rounds capacities up to allocator size classes, so natively the
// third round is only reached with the longest input; the model's growslice is exact)
var verifRestartLens = [...]int{7, 48, 100, 400}

// VerifC20QuoteRestarts: alg.Quote on N control bytes (each becomes \u00XX) with small buffers:
// after every restart the native routine is resumed at the first unconsumed byte.
func VerifC20QuoteRestarts() {
	v.Stub("github.com/bytedance/sonic/internal/native.Quote", verifQuoteStub)
	n := verifRestartLens[v.Int("lenClass", 0, len(verifRestartLens)-1)]
	raw := make([]byte, n)
	for i := range raw {
		raw[i] = byte(1 + i%7) // distinct neighbours: a wrong resume point changes the output
	}
	val := string(raw)
	double := v.Bool("double")
	buf, l := verifPrefixBuf()
	verifQ = &verifQuoteLog{total: n}
	verifQ.base = *(*unsafe.Pointer)(unsafe.Pointer(&val))
	out := Quote(buf, val, double)
	if !v.Symbolic() {
		verifQuoteOracle(out[l:], val, double)
		return
	}
	q := verifQ
	v.Assert(q.consumed == n, "quote loop: not every input byte was consumed")
	if q.calls >= 3 {
		v.Cover("two-restarts")
	}
	v.Cover("end")
}

// VerifC20HtmlEscapeRestarts: alg.HtmlEscape on N '<' bytes: same obligation for the html loop.
func VerifC20HtmlEscapeRestarts() {
	v.Stub("github.com/bytedance/sonic/internal/native.HTMLEscape", verifHTMLStub)
	n := verifRestartLens[v.Int("lenClass", 0, len(verifRestartLens)-1)]
	src := make([]byte, n)
	for i := range src {
		if i%3 == 2 {
			src[i] = 'a' + byte(i%5)
		} else {
			src[i] = '<'
		}
	}
	lens := [...]int{0, 2}
	spares := [...]int{0, 5, 70, 200}
	l := lens[v.Int("dlenClass", 0, len(lens)-1)]
	c := l + spares[v.Int("spareClass", 0, len(spares)-1)]
	dst := make([]byte, l, c)
	if l > 0 {
		dst[0], dst[l-1] = 'p', 'q'
	}
	verifQ = &verifQuoteLog{total: n, base: unsafe.Pointer(&src[0]), html: true}
	out := HtmlEscape(dst, src)
	if !v.Symbolic() {
		verifHTMLOracle(out, dst[:l], src)
		return
	}
	q := verifQ
	v.Assert(q.consumed == n, "html-escape loop: not every input byte was consumed")
	v.Assert(len(out) == l+q.written, "html-escape loop: output length is not prefix + native output")
	if q.calls >= 3 {
		v.Cover("two-restarts")
	}
	v.Cover("end")
}
