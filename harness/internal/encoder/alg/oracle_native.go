//go:build verif

package alg

import (
	"bytes"
	"encoding/json"

	v "github.com/bytedance/sonic/internal/zzverif"
)

// Native-replay oracles (never executed symbolically): the observable definitions of the
// routines, decided with encoding/json on the concrete replayed input.

func verifQuoteOracle(lit []byte, val string, double bool) {
	var s string
	if err := json.Unmarshal(lit, &s); err != nil {
		v.Assert(false, "Quote output is not a JSON string literal")
		return
	}
	if double {
		// double mode produces the literal of the literal
		var s2 string
		if err := json.Unmarshal([]byte(s), &s2); err != nil {
			v.Assert(false, "Quote (double) output does not decode twice")
			return
		}
		s = s2
	}
	v.Assert(s == val, "Quote output does not decode back to the input")
}

func verifHTMLOracle(out, prefix, src []byte) {
	var want bytes.Buffer
	want.Write(prefix)
	json.HTMLEscape(&want, src)
	v.Assert(bytes.Equal(out, want.Bytes()), "HtmlEscape output differs from prefix + encoding/json.HTMLEscape(src)")
}
