//go:build verif

package encoder

import (
	"reflect"
	"unsafe"

	"github.com/bytedance/sonic/internal/encoder/ir"
	"github.com/bytedance/sonic/internal/rt"
	v "github.com/bytedance/sonic/internal/zzverif"
)

type verifInner struct {
	K int
}

// VerifC09CompileStructDecision: whether a nested struct is inlined or called (OP_recurse) is a
// function of the nesting depth, the program size, the field count and the compile options -
// never of what happens to be in the program cache (what was compiled before): the decision
// is taken without consulting the cache, for every depth, size and option value (C09).
func VerifC09CompileStructDecision() {
	consulted := false
	v.Stub("github.com/bytedance/sonic/internal/encoder/vars.GetProgram", func(vt *rt.GoType) interface{} {
		consulted = true
		if v.Bool("cached") {
			return 1
		}
		return nil
	})
	v.Stub("github.com/bytedance/sonic/internal/encoder/vars.FindOrCompile", func(vt *rt.GoType, pv bool, compute func(*rt.GoType, ...interface{}) (interface{}, error)) (interface{}, error) {
		consulted = true
		return nil, nil
	})
	nf := v.Int("fields", 0, 80)
	v.Stub("(*reflect.rtype).NumField", func(t unsafe.Pointer) int { return nf })
	inlined := false
	v.Stub("(*github.com/bytedance/sonic/internal/encoder.Compiler).compileStructBody", func(self *Compiler, p *ir.Program, sp int, vt reflect.Type) {
		inlined = true
	})
	c := NewCompiler()
	c.opts.MaxInlineDepth = v.Int("maxInline", 0, 6)
	c.opts.RecursiveDepth = 0
	c.pv = v.Bool("pv")
	sp := v.Int("depth", 0, 6)
	n := v.Concretize(v.Int("pc", 0, 2))
	prog := make(ir.Program, n)
	c.compileStruct(&prog, sp, reflect.TypeOf(verifInner{}))
	v.Assert(!consulted, "the inline-or-call decision for a nested struct consults the program cache: the generated program depends on what was compiled earlier")
	if inlined {
		v.Assert(len(prog) == n, "struct inlined and a call emitted")
		v.Cover("inlined")
	} else {
		v.Assert(len(prog) == n+1, "neither inlined nor called")
		v.Cover("called")
	}
}
