//go:build verif

package encoder

import (
	"encoding"
	"encoding/json"
	"math"
	"reflect"
	"unsafe"

	"github.com/bytedance/sonic/internal/encoder/alg"
	"github.com/bytedance/sonic/internal/encoder/ir"
	"github.com/bytedance/sonic/internal/encoder/vars"
	"github.com/bytedance/sonic/internal/encoder/vm"
	"github.com/bytedance/sonic/internal/rt"
	v "github.com/bytedance/sonic/internal/zzverif"
)

// ---- the interpreter (vm.Execute) on hand-assembled IR ----

type verifVMCalls struct {
	n     int
	flags [4]uint64
}

// VerifC12VMRecurseFlags: the "pointer value" flag of OP_recurse applies to that one nested call
// only; OP_eface / OP_recurse(pv=false) that follow in the same frame see the caller's flags
// (this is what the JIT does with its scratch register).
func VerifC12VMRecurseFlags() {
	if !v.Symbolic() {
		verifVMNativeOracle()
		return
	}
	calls := &verifVMCalls{}
	v.Stub("github.com/bytedance/sonic/internal/encoder/vm.EncodeTypedPointer", func(buf *[]byte, vt *rt.GoType, vp *unsafe.Pointer, sb *vars.Stack, fv uint64) error {
		if calls.n < 4 {
			calls.flags[calls.n] = fv
		}
		calls.n++
		*buf = append(*buf, 'R')
		return nil
	})
	var p ir.Program
	t := reflect.TypeOf(int64(0))
	p.Int(ir.OP_byte, '{')
	p.Vp(ir.OP_recurse, t, true)
	p.Add(ir.OP_eface)
	p.Vp(ir.OP_recurse, t, false)
	p.Int(ir.OP_byte, '}')
	var e interface{} = int64(5)
	flags := v.Uint64("flags") &^ (1 << alg.BitPointerValue)
	buf := make([]byte, 0, 16)
	err := vm.Execute(&buf, unsafe.Pointer(&e), &vars.Stack{}, flags, &p)
	v.Assert(err == nil, "vm.Execute failed")
	v.Assert(calls.n == 3, "wrong number of nested encode calls")
	v.Assert(string(buf) == "{RRR}", "interpreter output order is wrong")
	v.Assert(calls.flags[0] == flags|(1<<alg.BitPointerValue), "OP_recurse(pv=true) does not pass the pointer-value flag")
	v.Assert(calls.flags[1] == flags, "OP_eface after OP_recurse(pv=true) sees a changed option word (pointer-value flag leaks)")
	v.Assert(calls.flags[2] == flags, "OP_recurse(pv=false) after OP_recurse(pv=true) sees a changed option word")
	v.Cover("end")
}

type verifLeaf struct{ X int }

func (l *verifLeaf) MarshalJSON() ([]byte, error) { return []byte(`"LEAF-VIA-POINTER"`), nil }

type verifTree struct {
	Kids []verifTree
	Any  interface{}
}

// native side: the observable statement on a value family that exercises recurse + eface
func verifVMNativeOracle() {
	ForceUseVM()
	defer ForceUseJit()
	val := verifTree{Kids: []verifTree{{}}, Any: verifLeaf{1}}
	got, err := Encode(val, 0)
	want, err2 := json.Marshal(val)
	v.Assert(err == nil && err2 == nil && string(got) == string(want), "VM encoder output differs from encoding/json on a recursive type with an interface field")
}

func verifRun(p *ir.Program, ptr unsafe.Pointer, flags uint64) ([]byte, error) {
	buf := []byte{'p'}
	err := vm.Execute(&buf, ptr, &vars.Stack{}, flags, p)
	return buf, err
}

// VerifC18VMEmptyOps: OP_empty_arr / OP_empty_obj depend on NoNullSliceOrMap and on no other bit.
func VerifC18VMEmptyOps() {
	flags := v.Uint64("flags")
	var pa, po ir.Program
	pa.Add(ir.OP_empty_arr)
	po.Add(ir.OP_empty_obj)
	a, e1 := verifRun(&pa, nil, flags)
	o, e2 := verifRun(&po, nil, flags)
	v.Assert(e1 == nil && e2 == nil, "empty ops fail")
	if flags&uint64(NoNullSliceOrMap) != 0 {
		v.Assert(string(a) == "p[]" && string(o) == "p{}", "NoNullSliceOrMap: nil slice/map not encoded as []/{}")
		v.Cover("nonull")
	} else {
		v.Assert(string(a) == "pnull" && string(o) == "pnull", "nil slice/map not encoded as null")
		v.Cover("null")
	}
}

// VerifC04VMFloat: NaN/Inf produce an error (or null with EncodeNullForInfOrNan) and never text;
// every finite value is formatted; no other option bit matters.
func VerifC04VMFloat() {
	v.Stub("github.com/bytedance/sonic/internal/encoder/alg.F64toa", func(buf []byte, f float64) []byte { return append(buf, 'F') })
	v.Stub("github.com/bytedance/sonic/internal/encoder/alg.F32toa", func(buf []byte, f float32) []byte { return append(buf, 'F') })
	flags := v.Uint64("flags")
	wide := v.Bool("float64")
	var p ir.Program
	var out []byte
	var err error
	var special bool
	if wide {
		f := math.Float64frombits(v.Uint64("bits"))
		p.Add(ir.OP_f64)
		out, err = verifRun(&p, unsafe.Pointer(&f), flags)
		special = math.IsNaN(f) || math.IsInf(f, 0)
	} else {
		b := v.Uint32("bits32")
		f := math.Float32frombits(b)
		p.Add(ir.OP_f32)
		out, err = verifRun(&p, unsafe.Pointer(&f), flags)
		special = b&0x7f800000 == 0x7f800000
	}
	if !v.Symbolic() {
		return // the stubs are not installed natively; the assertions below need them
	}
	switch {
	case special && flags&uint64(EncodeNullForInfOrNan) != 0:
		v.Assert(err == nil && string(out) == "pnull", "EncodeNullForInfOrNan: NaN/Inf not encoded as null")
		v.Cover("null")
	case special:
		v.Assert(err != nil && string(out) == "p", "NaN/Inf produces output instead of an error")
		v.Cover("error")
	default:
		v.Assert(err == nil && string(out) == "pF", "finite float not formatted exactly once")
		v.Cover("finite")
	}
}

// VerifC04VMNumber: json.Number text is emitted verbatim iff it is a valid JSON number (the real
// encoding/json.isValidNumber), "" becomes 0, anything else is an error -- never malformed output.
func VerifC04VMNumber() {
	n := v.Int("n", 0, 3)
	num := json.Number(v.StringN("num", n, 3))
	var p ir.Program
	p.Add(ir.OP_number)
	out, err := verifRun(&p, unsafe.Pointer(&num), v.Uint64("flags"))
	switch {
	case n == 0:
		v.Assert(err == nil && string(out) == "p0", "empty json.Number not encoded as 0")
		v.Cover("empty")
	case v.JSONIsValidNumber(string(num)):
		v.Assert(err == nil && string(out) == "p"+string(num), "valid json.Number not emitted verbatim")
		v.Cover("valid")
	default:
		v.Assert(err != nil, "invalid json.Number text emitted instead of an error")
		v.Cover("invalid")
	}
}

// VerifC07EncoderStack: the encoder's value stack never goes out of bounds: Push at the limit is
// refused (ERR_too_deep), for every stack pointer.
func VerifC07EncoderStack() {
	s := &vars.Stack{}
	depths := [...]int{0, 1, vars.MaxStack - 1, vars.MaxStack, vars.MaxStack + 1}
	k := depths[v.Int("depthClass", 0, len(depths)-1)]
	verifSetSP(s, k)
	ok := s.Save(1, 2, nil, nil)
	if k >= vars.MaxStack {
		v.Assert(!ok, "Push beyond MaxStack accepted")
		v.Cover("full")
	} else if ok {
		// (which pushes below the limit are accepted is the subject of VerifC12StackLimit)
		x, _, _, _ := s.Drop()
		v.Assert(x == 1, "Pop does not return what was pushed")
		v.Cover("room")
	}
}

// VerifC12StackLimit: the interpreter's value stack accepts one more state under the same rule
// as the generated code's save_state (Tier-3 check encdepth): exactly when the stack pointer stays
// below MaxStack*StateSize afterwards, i.e. at most MaxStack-1 states are held. A different rule
// makes the two back ends disagree (one encodes, one reports "too deep") at the maximum depth.
func VerifC12StackLimit() {
	s := &vars.Stack{}
	depths := [...]int{0, 1, vars.MaxStack - 2, vars.MaxStack - 1, vars.MaxStack, vars.MaxStack + 1}
	k := depths[v.Int("depthClass", 0, len(depths)-1)]
	verifSetSP(s, k)
	ok := s.Save(1, 2, nil, nil)
	if k+1 < vars.MaxStack {
		v.Assert(ok, "the interpreter refuses a push that the generated code accepts")
		v.Cover("accepted")
	} else {
		v.Assert(!ok, "the interpreter accepts a push that the generated code refuses (a value nested to exactly the maximum depth encodes in one back end and fails in the other)")
		v.Cover("refused")
	}
}

func verifSetSP(s *vars.Stack, k int) {
	// Stack.sp is the first word of the struct (byte offset of the top)
	*(*uintptr)(unsafe.Pointer(s)) = uintptr(k) * uintptr(vars.StateSize)
}

// VerifC12VMMarshalerFlags: the interpreter hands the caller's whole option word to the
// marshaler primitives (as the JIT does with its flags argument), for the pointer-receiver
// opcodes OP_marshal_p / OP_marshal_text_p: options such as NoQuoteTextMarshaler,
// NoValidateJSONMarshaler or CompactMarshaler must reach them unchanged, whatever the
// interpreter's private per-frame state is.
type verifTM struct{ N int }

func (t *verifTM) MarshalText() ([]byte, error) { return []byte{'T', byte('0' + t.N)}, nil }

type verifJM struct{ N int }

func (t *verifJM) MarshalJSON() ([]byte, error) { return []byte{' ', byte('0' + t.N)}, nil }

// native side: pointer-receiver marshalers in addressable positions, both back ends, every
// marshaler-related option combination
func verifVMMarshalNativeOracle() {
	type both struct {
		T []verifTM
		J []verifJM
	}
	val := &both{T: []verifTM{{5}, {6}}, J: []verifJM{{1}}}
	for _, o := range []Options{0, NoQuoteTextMarshaler, CompactMarshaler, NoValidateJSONMarshaler, NoQuoteTextMarshaler | CompactMarshaler} {
		ForceUseJit()
		a, e1 := Encode(val, o)
		ForceUseVM()
		b, e2 := Encode(val, o)
		ForceUseJit()
		v.Assert((e1 == nil) == (e2 == nil), "JIT and VM encoders disagree on failing for pointer-receiver marshalers")
		v.Assert(string(a) == string(b), "JIT and VM encoders produce different text for pointer-receiver marshalers under option word "+string(rune('0'+int(o%10))))
	}
}

func VerifC12VMMarshalerFlags() {
	if !v.Symbolic() {
		verifVMMarshalNativeOracle()
		return
	}
	var seenJSON, seenText uint64
	nj, nt := 0, 0
	v.Stub("github.com/bytedance/sonic/internal/encoder/prim.EncodeJsonMarshaler", func(buf *[]byte, val json.Marshaler, opt uint64) error {
		seenJSON = opt
		nj++
		*buf = append(*buf, 'J')
		return nil
	})
	v.Stub("github.com/bytedance/sonic/internal/encoder/prim.EncodeTextMarshaler", func(buf *[]byte, val encoding.TextMarshaler, opt uint64) error {
		seenText = opt
		nt++
		*buf = append(*buf, 'T')
		return nil
	})
	flags := v.Uint64("flags")
	t := reflect.TypeOf(verifLeaf{})
	itab := new(rt.GoItab)
	var p ir.Program
	// some frame state first (a first-element marker), then the two opcodes
	p.Int(ir.OP_byte, '[')
	p.Vtab(ir.OP_marshal_p, t, itab)
	p.Int(ir.OP_byte, ',')
	p.Vtab(ir.OP_marshal_text_p, t, itab)
	p.Int(ir.OP_byte, ']')
	leaf := verifLeaf{1}
	buf := make([]byte, 0, 16)
	err := vm.Execute(&buf, unsafe.Pointer(&leaf), &vars.Stack{}, flags, &p)
	v.Assert(err == nil, "vm.Execute failed")
	v.Assert(string(buf) == "[J,T]", "interpreter output order is wrong")
	v.Assert(nj == 1 && nt == 1, "marshaler primitives not called exactly once each")
	v.Assert(seenJSON == flags, "OP_marshal_p does not pass the caller's option word to the JSON marshaler primitive")
	v.Assert(seenText == flags, "OP_marshal_text_p does not pass the caller's option word to the text marshaler primitive (NoQuoteTextMarshaler etc. are lost)")
	v.Cover("end")
}
