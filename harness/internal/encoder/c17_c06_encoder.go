//go:build verif

package encoder

import (
	"errors"
	"unsafe"

	"github.com/bytedance/sonic/internal/encoder/vars"
	"github.com/bytedance/sonic/internal/rt"
	v "github.com/bytedance/sonic/internal/zzverif"
	"github.com/bytedance/sonic/option"
)

var errVerifWriter = errors.New("verif: injected writer failure")
var errVerifCodec = errors.New("verif: injected codec failure")

// verifCodec stands for the per-type encoder program: appends k arbitrary bytes to *buf
// (re-allocating when the capacity is too small) or fails.
func verifCodec(maxK int, mayFail bool) func() {
	saved := encodeTypedPointer
	encodeTypedPointer = func(buf *[]byte, vt *rt.GoType, vp *unsafe.Pointer, sb *vars.Stack, fv uint64) error {
		if mayFail && v.Bool("codecFails") {
			return errVerifCodec
		}
		k := v.Int("k", 1, maxK)
		for i := 0; i < k; i++ {
			*buf = append(*buf, v.Byte("out"))
		}
		return nil
	}
	return func() { encodeTypedPointer = saved }
}

type verifWriter struct {
	got      []byte
	failed   bool
	maxCalls int
	calls    int
}

func (w *verifWriter) Write(p []byte) (int, error) {
	w.calls++
	n := len(p)
	var err error
	if w.calls <= w.maxCalls {
		n = v.Int("wn", 0, len(p))
		if v.Bool("werr") {
			err = errVerifWriter
			w.failed = true
		} else {
			v.Assume(n >= 1 || len(p) == 0) // a Writer that makes no progress and reports no error breaks io.Writer's contract
		}
	}
	w.got = append(w.got, p[:n]...)
	return n, err
}

// VerifC17StreamEncode: the Writer receives exactly the encoded bytes (+ newline unless
// disabled) and Encode returns an error whenever any Write failed, including the newline's.
func VerifC17StreamEncode() {
	defer verifCodec(3, true)()
	w := &verifWriter{maxCalls: 3}
	enc := NewStreamEncoder(w)
	enc.Opts = Options(v.Uint64("opts")) &^ (EscapeHTML | ValidateString) // post-passes are checked separately
	var val interface{} = 1
	err := enc.Encode(val)
	if w.failed {
		v.Assert(err != nil, "StreamEncoder.Encode returns nil although a Write (possibly the newline) failed")
		v.Cover("write-failed")
		return
	}
	if err != nil {
		v.Assert(err == errVerifCodec, "StreamEncoder.Encode invents an error")
		v.Assert(len(w.got) == 0, "bytes written although encoding failed")
		v.Cover("codec-failed")
		return
	}
	n := len(w.got)
	if enc.Opts&NoEncoderNewline == 0 {
		v.Assert(n >= 2 && w.got[n-1] == '\n', "newline missing")
		v.Cover("newline")
	} else {
		v.Assert(n >= 1, "no output")
		v.Cover("no-newline")
	}
}

// VerifC06EncodeOwnership: the slice returned by Encode is caller-owned: its backing array is
// not in (and never returns to) an internal pool, whatever the pool handed out and on both
// sides of the pool size limit.
func VerifC06EncodeOwnership() {
	defer verifCodec(3, true)()
	savedLimit := option.LimitBufferSize
	savedDef := option.DefaultEncoderBufferSize
	option.LimitBufferSize = 4 // encoding parameter: makes both sides of the pool limit reachable with tiny buffers
	option.DefaultEncoderBufferSize = uint(v.Int("defcap", 0, 6))
	defer func() { option.LimitBufferSize = savedLimit; option.DefaultEncoderBufferSize = savedDef }()

	// history: an earlier call left a buffer of arbitrary small capacity in the pool
	if v.Bool("history") {
		b := make([]byte, 0, v.Int("histcap", 0, 4))
		vars.FreeBytes(&b)
	}
	opts := Options(v.Uint64("opts")) &^ (EscapeHTML | ValidateString)
	var val interface{} = 1
	ret, err := Encode(val, opts)
	if err != nil {
		v.Assert(ret == nil, "Encode returns data together with an error")
		v.Cover("error")
		return
	}
	v.Assert(!v.InPool(ret), "Encode returned a slice whose backing array is owned by the buffer pool")
	// a later call may recycle pooled buffers: it must not touch what was returned
	first := make([]byte, len(ret))
	copy(first, ret)
	ret2, err2 := Encode(val, opts)
	if err2 == nil {
		v.Assert(!v.SameObject(ret, ret2), "two Encode calls returned aliasing slices")
	}
	same := len(first) == len(ret)
	for i := 0; same && i < len(first); i++ {
		same = first[i] == ret[i]
	}
	v.Assert(same, "bytes returned by Encode changed during a later Encode call")
	if cap(ret) > 4 {
		v.Cover("above-limit")
	} else {
		v.Cover("below-limit")
	}
}

// VerifC06EncodeInto: EncodeInto appends to the caller's buffer: the prefix is preserved and
// nothing is written outside the buffer (engine memory checks), for every initial len/cap.
func VerifC06EncodeInto() {
	defer verifCodec(3, false)()
	c := v.Int("cap", 0, 4)
	l := v.Int("len", 0, 4)
	v.Assume(l <= c)
	buf := make([]byte, l, c)
	for i := 0; i < l; i++ {
		buf[i] = 'p'
	}
	opts := Options(v.Uint64("opts")) &^ (EscapeHTML | ValidateString)
	var val interface{} = 1
	err := EncodeInto(&buf, val, opts)
	v.Assert(err == nil, "EncodeInto failed")
	v.Assert(len(buf) > l, "EncodeInto produced nothing")
	for i := 0; i < l; i++ {
		v.Assert(buf[i] == 'p', "EncodeInto changed the caller's prefix")
	}
	v.Cover("end")
}
