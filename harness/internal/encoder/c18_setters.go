//go:build verif

package encoder

import (
	"github.com/bytedance/sonic/utf8"
	"github.com/bytedance/sonic/internal/encoder/alg"
	v "github.com/bytedance/sonic/internal/zzverif"
)

// VerifC18EncoderSetters: from an arbitrary option word each setter changes exactly its own bit.
func VerifC18EncoderSetters() {
	start := Options(v.Uint64("opts"))
	on := v.Bool("on")
	which := v.Concretize(v.Int("setter", 0, 6))
	e := &Encoder{Opts: start}
	var bit Options
	switch which {
	case 0:
		e.SortKeys()
		bit, on = SortMapKeys, true
	case 1:
		e.SetEscapeHTML(on)
		bit = EscapeHTML
	case 2:
		e.SetValidateString(on)
		bit = ValidateString
	case 3:
		e.SetNoValidateJSONMarshaler(on)
		bit = NoValidateJSONMarshaler
	case 4:
		e.SetNoEncoderNewline(on)
		bit = NoEncoderNewline
	case 5:
		e.SetCompactMarshaler(on)
		bit = CompactMarshaler
	case 6:
		e.SetNoQuoteTextMarshaler(on)
		bit = NoQuoteTextMarshaler
	}
	want := start &^ bit
	if on {
		want = start | bit
	}
	v.Assert(e.Opts == want, "an Encoder setter changes a bit other than its own (or not its own)")
	// the option constants are the documented bit positions shared with the code generators
	v.Assert(SortMapKeys == 1<<alg.BitSortMapKeys && EscapeHTML == 1<<alg.BitEscapeHTML && CompactMarshaler == 1<<alg.BitCompactMarshaler &&
		NoQuoteTextMarshaler == 1<<alg.BitNoQuoteTextMarshaler && NoNullSliceOrMap == 1<<alg.BitNoNullSliceOrMap && ValidateString == 1<<alg.BitValidateString &&
		NoValidateJSONMarshaler == 1<<alg.BitNoValidateJSONMarshaler && NoEncoderNewline == 1<<alg.BitNoEncoderNewline && EncodeNullForInfOrNan == 1<<alg.BitEncodeNullForInfOrNan,
		"encoder option constants are not the shared bit positions")
	v.Cover("end")
}

// VerifC03EncodeFinish: the EscapeHTML and ValidateString post-passes run exactly when their
// option is set, each once, HTML escaping first, on the whole output; no other bit matters.
func VerifC03EncodeFinish() {
	valid := v.Bool("outputIsValidUTF8")
	v.Stub("github.com/bytedance/sonic/internal/encoder/alg.HtmlEscape", func(dst []byte, src []byte) []byte {
		dst = append(dst, 'H')
		return append(dst, src...)
	})
	v.Stub("github.com/bytedance/sonic/utf8.Validate", func(src []byte) bool { return valid })
	v.Stub("github.com/bytedance/sonic/utf8.CorrectWith", func(dst []byte, src []byte, repl string) []byte {
		dst = append(dst, 'C')
		return append(dst, src...)
	})
	opts := Options(v.Uint64("opts"))
	pooled := v.Bool("withPool")
	buf := []byte{'x', 'y'}
	var out []byte
	if pooled {
		b := buf
		encodeFinishWithPool(&b, opts)
		out = b
	} else {
		out = encodeFinish(buf, opts)
	}
	if !v.Symbolic() {
		// native oracle: text with HTML-escapable characters and an invalid UTF-8 byte through both
		// finishing paths under the model's option word; reference = the two passes in order
		raw := []byte("\"<a>&\xff\u2028\"")
		ref := append([]byte{}, raw...)
		if opts&EscapeHTML != 0 {
			ref = HTMLEscape(nil, ref)
		}
		if opts&ValidateString != 0 && !utf8.Validate(ref) {
			ref = utf8.CorrectWith(nil, ref, `\ufffd`)
		}
		got1 := encodeFinish(append([]byte{}, raw...), opts)
		b2 := append([]byte{}, raw...)
		encodeFinishWithPool(&b2, opts)
		v.Assert(string(got1) == string(ref), "encodeFinish does not apply EscapeHTML then ValidateString")
		v.Assert(string(b2) == string(ref), "encodeFinishWithPool does not apply EscapeHTML then ValidateString")
		return
	}
	want := "xy"
	if opts&EscapeHTML != 0 {
		want = "H" + want
	}
	if opts&ValidateString != 0 && !valid {
		want = "C" + want
	}
	v.Assert(string(out) == want, "post-passes (EscapeHTML, ValidateString) not applied exactly once each, in order, exactly when their option is set")
	v.Cover("end")
}
