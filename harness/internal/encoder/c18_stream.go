//go:build verif

package encoder

import (
	"unsafe"

	"github.com/bytedance/sonic/internal/encoder/vars"
	"github.com/bytedance/sonic/internal/rt"
	v "github.com/bytedance/sonic/internal/zzverif"
)

// VerifC18StreamEncodeIndent: on a stream encoder, indented or not, NoEncoderNewline decides
// exactly whether a newline follows the value - for every option word.
func VerifC18StreamEncodeIndent() {
	saved := encodeTypedPointer
	encodeTypedPointer = func(buf *[]byte, vt *rt.GoType, vp *unsafe.Pointer, sb *vars.Stack, fv uint64) error {
		*buf = append(*buf, '1')
		return nil
	}
	defer func() { encodeTypedPointer = saved }()
	w := &verifWriter{}
	enc := NewStreamEncoder(w)
	enc.Opts = Options(v.Uint64("opts")) &^ (EscapeHTML | ValidateString) // post-passes are checked separately
	if v.Bool("indent") {
		enc.SetIndent("", " ")
		v.Cover("indented")
	} else {
		v.Cover("plain")
	}
	var val interface{} = 1
	err := enc.Encode(val)
	v.Assert(err == nil, "StreamEncoder.Encode fails on a value that encodes")
	if enc.Opts&NoEncoderNewline == 0 {
		v.Assert(string(w.got) == "1\n", "the stream encoder does not write the value followed by one newline")
		v.Cover("newline")
	} else {
		v.Assert(string(w.got) == "1", "NoEncoderNewline is set but the stream encoder writes something after the value")
		v.Cover("no-newline")
	}
}
