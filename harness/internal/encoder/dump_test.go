//go:build verif

package encoder

import (
	"encoding/hex"
	"encoding/json"
	"fmt"
	"os"
	"path/filepath"
	"reflect"
	"runtime"
	"runtime/debug"
	"testing"
	"unsafe"

	"github.com/bytedance/sonic/internal/encoder/vars"
	"github.com/bytedance/sonic/internal/encoder/x86"
	"github.com/bytedance/sonic/internal/jit"
	"github.com/bytedance/sonic/internal/native"
	"github.com/bytedance/sonic/internal/rt"
)

type verifDump struct {
	Name    string            `json:"name"`
	Kind    string            `json:"kind"`
	Program []string          `json:"program,omitempty"`
	Ins     []jit.VerifIns    `json:"ins"`
	Consts  map[string]int64  `json:"consts"`
	Mem     map[string]string `json:"mem"`
}

func verifPeek(a uintptr, n int) (b []byte, ok bool) {
	defer func() {
		if recover() != nil {
			ok = false
		}
	}()
	old := debug.SetPanicOnFault(true)
	defer debug.SetPanicOnFault(old)
	b = make([]byte, n)
	for i := 0; i < n; i++ {
		b[i] = *(*byte)(unsafe.Pointer(a + uintptr(i)))
	}
	return b, true
}

var verifNatives = map[uintptr]string{}

func verifInitSyms() {
	add := func(a uintptr, n string) { verifNatives[a] = "native." + n }
	add(native.S_f64toa, "f64toa")
	add(native.S_f32toa, "f32toa")
	add(native.S_i64toa, "i64toa")
	add(native.S_u64toa, "u64toa")
	add(native.S_lspace, "lspace")
	add(native.S_quote, "quote")
	add(native.S_unquote, "unquote")
	add(native.S_value, "value")
	add(native.S_vstring, "vstring")
	add(native.S_vnumber, "vnumber")
	add(native.S_vsigned, "vsigned")
	add(native.S_vunsigned, "vunsigned")
	add(native.S_skip_one, "skip_one")
	add(native.S_skip_array, "skip_array")
	add(native.S_skip_object, "skip_object")
	add(native.S_skip_number, "skip_number")
	add(native.S_get_by_path, "get_by_path")
	verifNatives[rt.SubrB64Encode] = "native.b64encode"
}

var verifMem = map[string]string{}

func verifResolve(o *jit.VerifOperand) {
	if o.Kind != "const" || o.Off < 0x10000 {
		return
	}
	a := uintptr(o.Off)
	if n, ok := verifNatives[a]; ok {
		o.Sym = n
		return
	}
	if f := runtime.FuncForPC(a); f != nil && f.Entry() == a {
		o.Sym = "go." + f.Name()
		return
	}
	if a == uintptr(unsafe.Pointer(&rt.RuntimeWriteBarrier)) {
		o.Sym = "var.runtime.writeBarrier"
		return
	}
	o.Sym = "addr"
	if b, ok := verifPeek(a, 16); ok {
		verifMem[fmt.Sprint(uint64(a))] = hex.EncodeToString(b)
	}
}

func verifWrite(d verifDump) {
	verifMem = map[string]string{}
	for i := range d.Ins {
		verifResolve(&d.Ins[i].From)
		verifResolve(&d.Ins[i].To)
		for k := range d.Ins[i].Rest {
			verifResolve(&d.Ins[i].Rest[k])
		}
	}
	d.Mem = verifMem
	dir := os.Getenv("VERIF_DUMP_DIR")
	b, _ := json.Marshal(d)
	if err := os.WriteFile(filepath.Join(dir, d.Name+".json"), b, 0o644); err != nil {
		panic(err)
	}
}

type verifQS struct {
	A string `json:"a,string"`
}

// a map type whose value receiver implements json.Marshaler: encoding/json calls the method
// even for a nil map
type verifMapM map[string]int

func (m verifMapM) MarshalJSON() ([]byte, error) { return []byte(`{"n":0}`), nil }

type verifMapT map[string]int

func (m verifMapT) MarshalText() ([]byte, error) { return []byte("labels"), nil }

// a struct whose pointer receiver implements json.Marshaler: slice elements are addressable,
// so encoding/json calls the method on every element of a []verifPM however the slice is reached
type verifPM struct{ N int }

func (p *verifPM) MarshalJSON() ([]byte, error) { return []byte(`"J"`), nil }

func TestVerifDump(t *testing.T) {
	if os.Getenv("VERIF_DUMP_DIR") == "" {
		t.Skip("no VERIF_DUMP_DIR")
	}
	verifInitSyms()
	types := map[string]interface{}{
		"string": "", "slice_string": []string{}, "qstring": verifQS{}, "int64": int64(0), "bool": false,
		"float64": float64(0), "bytes": []byte{}, "map_str_int": map[string]int{}, "map_marshaler": verifMapM{}, "map_textmarshaler": verifMapT{}, "slice_ptrmarshaler": []verifPM{},
		"tag_dashcomma": struct {
			A bool `json:"-,"`
		}{}, "tag_dash": struct {
			A bool `json:"-"`
		}{}, "tag_name": struct {
			A bool `json:"nm"`
		}{}, "tag_none": struct {
			Ab bool
		}{}, "tag_optonly": struct {
			Ab bool `json:",omitempty"`
		}{}, "tag_unexported": struct {
			ab bool
		}{}, "tag_string": struct {
			A bool `json:"nm,string"`
		}{},
		"omit_string": struct {
			A string `json:"a,omitempty"`
		}{}, "omit_bytes": struct {
			A []byte `json:"a,omitempty"`
		}{},
		"omit_float64": struct {
			A float64 `json:"a,omitempty"`
		}{}, "omit_float32": struct {
			A float32 `json:"a,omitempty"`
		}{}, "omit_int64": struct {
			A int64 `json:"a,omitempty"`
		}{}, "omit_int32": struct {
			A int32 `json:"a,omitempty"`
		}{}, "omit_int16": struct {
			A int16 `json:"a,omitempty"`
		}{}, "omit_int8": struct {
			A int8 `json:"a,omitempty"`
		}{}, "omit_bool": struct {
			A bool `json:"a,omitempty"`
		}{},
		"int8": int8(0), "int16": int16(0), "int32": int32(0), "uint8": uint8(0), "uint16": uint16(0), "uint32": uint32(0), "uint64": uint64(0), "float32": float32(0),
	}
	for name, v := range types {
		prog, err := NewCompiler().Compile(reflect.TypeOf(v), false)
		if err != nil {
			t.Fatal(err)
		}
		as := x86.NewAssembler(prog)
		d := verifDump{Name: "enc_" + name, Kind: "encoder", Consts: map[string]int64{}}
		d.Program = append(d.Program, prog.Disassemble())
		d.Ins = as.VerifDump()
		d.Consts["stack_limit"] = int64(vars.StackLimit)
		// the error value the too-deep path must return: data word of the interface holding
		// vars.ERR_too_deep (a *json.UnsupportedValueError)
		d.Consts["ERR_too_deep"] = int64(uintptr(unsafe.Pointer(vars.ERR_too_deep)))
		verifWrite(d)
	}
	fmt.Println("dumped", len(types))
}
