//go:build verif

package prim

import (
	"errors"

	"github.com/bytedance/sonic/internal/encoder/alg"
	v "github.com/bytedance/sonic/internal/zzverif"
)

var errVerifMarshal = errors.New("verif: marshaler failed")

type verifMarshaler struct {
	out  []byte
	fail bool
}

func (m *verifMarshaler) MarshalJSON() ([]byte, error) {
	if m.fail {
		return nil, errVerifMarshal
	}
	return m.out, nil
}

func (m *verifMarshaler) MarshalText() ([]byte, error) {
	if m.fail {
		return nil, errVerifMarshal
	}
	return m.out, nil
}

// Four marshaler outputs that separate the behaviours: compact valid JSON, valid JSON with
// insignificant space, invalid text, and a compact string literal with an illegal escape
// ("\x41": json.Compact / encoding/json reject it, the native validator behind alg.Valid does
// not look inside string literals and accepts it). The stubs below state what json.Compact and
// alg.Valid do on exactly these inputs, so native replays (real Compact/Valid) agree.
func verifMarshalerOutput(class int) []byte {
	switch class {
	case 0:
		return []byte("1")
	case 1:
		return []byte(" 1")
	case 3:
		return []byte(`"\x41"`)
	}
	return []byte("x")
}

// VerifC18EncodeJsonMarshaler: the marshaler switches have exactly their documented effect
// and no other bit of the option word matters:
//   CompactMarshaler        -> the output is compacted (and thereby validated)
//   NoValidateJSONMarshaler -> only disables the validity check of non-compacted output
//   neither                 -> output validated: invalid output is an error, valid output copied verbatim
func VerifC18EncodeJsonMarshaler() {
	class := v.Int("class", 0, 3)
	v.Stub("github.com/bytedance/sonic/internal/encoder/prim.Compact", func(p *[]byte, b []byte) error {
		if class >= 2 {
			return errVerifMarshal // json.Compact rejects "x" and "\x41"
		}
		*p = append(*p, '1') // json.Compact of "1" and " 1"
		return nil
	})
	v.Stub("github.com/bytedance/sonic/internal/encoder/alg.Valid", func(data []byte) (bool, int) {
		return class != 2, 0
	})
	m := &verifMarshaler{out: verifMarshalerOutput(class), fail: v.Bool("marshalerFails")}
	opt := v.Uint64("opt")
	buf := []byte{'p'}
	err := EncodeJsonMarshaler(&buf, m, opt)

	compact := opt&(1<<alg.BitCompactMarshaler) != 0
	noValidate := opt&(1<<alg.BitNoValidateJSONMarshaler) != 0
	raw := string(m.out)
	switch {
	case m.fail:
		v.Assert(err == errVerifMarshal, "marshaler error not returned unchanged")
		v.Assert(string(buf) == "p", "output produced although the marshaler failed")
		v.Cover("marshaler-error")
	case compact:
		if class >= 2 {
			v.Assert(err != nil, "CompactMarshaler: marshaler output that json.Compact rejects was accepted")
		} else {
			v.Assert(err == nil && string(buf) == "p1", "CompactMarshaler set but the marshaler output was not compacted")
		}
		v.Cover("compact")
	case noValidate:
		v.Assert(err == nil && string(buf) == "p"+raw, "NoValidateJSONMarshaler: output not copied verbatim")
		v.Cover("novalidate")
	default:
		if class == 2 {
			v.Assert(err != nil, "invalid output from a user Marshaler accepted although validation is on")
		} else if class == 3 {
			v.Assert(err != nil, "marshaler output with an illegal escape inside a string literal is emitted although validation is on")
		} else {
			v.Assert(err == nil && string(buf) == "p"+raw, "valid marshaler output not copied verbatim")
		}
		v.Cover("validate")
	}
	v.Assert(buf[0] == 'p', "buffer prefix changed")
}

// VerifC18EncodeTextMarshaler: NoQuoteTextMarshaler only decides whether the text is quoted.
func VerifC18EncodeTextMarshaler() {
	v.Stub("github.com/bytedance/sonic/internal/encoder/alg.Quote", func(buf []byte, val string, double bool) []byte {
		v.Assert(!double, "text marshaler output double-quoted")
		buf = append(buf, '"') // alg.Quote of plain ASCII letters
		buf = append(buf, val...)
		return append(buf, '"')
	})
	m := &verifMarshaler{out: []byte("ab"), fail: v.Bool("marshalerFails")}
	opt := v.Uint64("opt")
	buf := []byte{'p'}
	err := EncodeTextMarshaler(&buf, m, opt)
	noQuote := opt&(1<<alg.BitNoQuoteTextMarshaler) != 0
	switch {
	case m.fail:
		v.Assert(err == errVerifMarshal && string(buf) == "p", "text marshaler error not returned unchanged")
		v.Cover("marshaler-error")
	case noQuote:
		v.Assert(err == nil && string(buf) == "pab", "NoQuoteTextMarshaler: text not copied verbatim")
		v.Cover("noquote")
	default:
		v.Assert(err == nil && string(buf) == "p\"ab\"", "text marshaler output not quoted exactly once")
		v.Cover("quote")
	}
}
