//go:build verif

package vars

import (
	"github.com/bytedance/sonic/internal/rt"
	v "github.com/bytedance/sonic/internal/zzverif"
)

// VerifC09FindOrCompile: the program served for (type, pointer-value flag) must be the one
// compiled for exactly that pair, whatever was requested earlier (results never depend on
// history). The compiler is an uninterpreted function of (type, flag).
func VerifC09FindOrCompile() {
	vt := &rt.GoType{Hash: 5}
	compile := func(t *rt.GoType, ex ...interface{}) (interface{}, error) {
		pv := ex[0].(bool)
		if pv {
			return 1001, nil
		}
		return 1000, nil
	}
	pv1 := v.Bool("firstCallPointerValue")
	pv2 := v.Bool("secondCallPointerValue")
	ResetProgramCache()
	p1, err1 := FindOrCompile(vt, pv1, compile)
	p2, err2 := FindOrCompile(vt, pv2, compile)
	want := func(pv bool) int {
		if pv {
			return 1001
		}
		return 1000
	}
	v.Assert(err1 == nil && p1 == want(pv1), "first request is not served by the program compiled for it")
	v.Assert(err2 == nil && p2 == want(pv2), "a later request with a different pointer-value flag is served by the program compiled for the earlier one (result depends on history)")
	v.Cover("end")
}
