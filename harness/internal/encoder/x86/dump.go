//go:build verif

package x86

import "github.com/bytedance/sonic/internal/jit"

// VerifDump (Tier 3, added by overlay): the instruction list this assembler emits for its
// program, before machine-code assembly.
func (self *Assembler) VerifDump() []jit.VerifIns {
	return self.BaseAssembler.VerifDump(self.compile)
}
