//go:build verif

package jit

import (
	"github.com/bytedance/sonic/loader"

	v "github.com/bytedance/sonic/internal/zzverif"
)

// VerifC08BuildPoolDiscipline: BaseAssembler.build() (init, emit, validate, assemble, resolve,
// release) never touches an instruction object after handing it back to the shared
// _progPool: another goroutine compiling a different type may already have taken and zeroed
// it. The engine keeps ghost ownership for every pooled object and flags any access to an
// object that is in the pool. The machine-code back end (golang-asm) is a stub; the stages
// and their order are the real ones.
func VerifC08BuildPoolDiscipline() {
	v.Stub("github.com/bytedance/sonic/internal/jit.newBackend", func(name string) *Backend { return new(Backend) })
	v.Stub("(*github.com/bytedance/sonic/internal/jit.Backend).Assemble", func(self *Backend) ([]byte, loader.Pcdata) {
		// the assembler assigns program counters and encodes the instructions
		pc := int64(0)
		for p := self.Head; p != nil; p = p.Link {
			p.Pc = pc
			pc += 4
		}
		return make([]byte, 64), nil
	})
	nref := v.Concretize(v.Int("refs", 1, 2))
	a := new(BaseAssembler)
	a.Init(func() {
		// a label and nref cross references to it (jump-table entries: LONG with a label xref)
		a.Link("_target")
		for i := 0; i < nref; i++ {
			a.Sref("_target", int64(v.Int("off", -8, 8)))
		}
	})
	a.build()
	v.Assert(len(a.c) == 64, "build lost the machine code")
	v.Cover("built")
	// a second program built afterwards takes instruction objects from the pool again
	b := new(BaseAssembler)
	b.Init(func() {
		b.Link("_t")
		b.Sref("_t", 0)
	})
	b.build()
	v.Cover("second")
}
