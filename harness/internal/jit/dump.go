//go:build verif

package jit

import (
	"sort"

	"github.com/twitchyliquid64/golang-asm/obj"
)

// Tier 3 dump support (added by overlay, never part of the repository): runs an assembler's
// emit function and returns the instruction list *before* machine-code assembly, as data.

type VerifOperand struct {
	Kind   string `json:"k"`           // none reg mem const branch other
	Reg    string `json:"r,omitempty"` // register / base register
	Index  string `json:"x,omitempty"` // index register
	Scale  int    `json:"s,omitempty"`
	Off    int64  `json:"o,omitempty"` // displacement or immediate
	Target int    `json:"t,omitempty"` // branch target (instruction index)
	Sym    string `json:"y,omitempty"` // resolved symbol of an absolute address (filled by the caller)
}

type VerifIns struct {
	Idx    int            `json:"i"`
	Op     string         `json:"op"`
	From   VerifOperand   `json:"f"`
	To     VerifOperand   `json:"t"`
	Rest   []VerifOperand `json:"rest,omitempty"`
	Labels []string       `json:"l,omitempty"`
	Xref   string         `json:"xref,omitempty"` // for LONG data: label the entry refers to (jump tables)
}

func verifOperand(a *obj.Addr, idx map[*obj.Prog]int) VerifOperand {
	switch a.Type {
	case obj.TYPE_NONE:
		return VerifOperand{Kind: "none"}
	case obj.TYPE_REG:
		return VerifOperand{Kind: "reg", Reg: obj.Rconv(int(a.Reg))}
	case obj.TYPE_MEM:
		o := VerifOperand{Kind: "mem", Off: a.Offset, Scale: int(a.Scale)}
		if a.Reg != 0 {
			o.Reg = obj.Rconv(int(a.Reg))
		}
		if a.Index != 0 {
			o.Index = obj.Rconv(int(a.Index))
		}
		return o
	case obj.TYPE_CONST:
		return VerifOperand{Kind: "const", Off: a.Offset}
	case obj.TYPE_BRANCH:
		t := -1
		if p, ok := a.Val.(*obj.Prog); ok {
			t = idx[p]
		}
		return VerifOperand{Kind: "branch", Target: t}
	}
	return VerifOperand{Kind: "other", Off: a.Offset}
}

func (self *BaseAssembler) VerifDump(f func()) []VerifIns {
	self.init()
	f()
	self.validate()
	idx := map[*obj.Prog]int{}
	n := 0
	for p := self.pb.Head; p != nil; p = p.Link {
		idx[p] = n
		n++
	}
	labels := map[int][]string{}
	for name, p := range self.labels {
		labels[idx[p]] = append(labels[idx[p]], name)
	}
	xref := map[*obj.Prog]string{}
	for name, ps := range self.xrefs {
		for _, p := range ps {
			xref[p] = name
		}
	}
	out := make([]VerifIns, 0, n)
	for p := self.pb.Head; p != nil; p = p.Link {
		in := VerifIns{Idx: idx[p], Op: p.As.String(), From: verifOperand(&p.From, idx), To: verifOperand(&p.To, idx), Xref: xref[p]}
		for i := range p.RestArgs {
			in.Rest = append(in.Rest, verifOperand(&p.RestArgs[i], idx))
		}
		ls := labels[in.Idx]
		sort.Strings(ls)
		in.Labels = ls
		out = append(out, in)
	}
	self.release()
	return out
}
