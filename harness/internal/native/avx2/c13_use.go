//go:build verif

package avx2

import (
	"github.com/bytedance/sonic/loader"
	v "github.com/bytedance/sonic/internal/zzverif"
)

func verifNameMark(s string) uintptr {
	h := uint64(14695981039346656037)
	for i := 0; i < len(s); i++ {
		h = (h ^ uint64(s[i])) * 1099511628211
	}
	return uintptr(h | 1)
}

// VerifC13UseTables: the loader table of this instruction-set package binds every exported
// subroutine address S_x to the native routine named _x taken from the machine-code blob
// _text_x (a crossed entry makes this SIMD level run a different routine than the other one).
// Under the engine loader.WrapGoC is a stub that gives *CAddr a marker derived from the entry
// name and checks that the name exists in the blob's function list and that the blob is the
// one declared for that routine; natively the real loader has run: every address is non-zero
// and no two routines share one.
func VerifC13UseTables() {
	if v.Symbolic() {
		v.Stub("github.com/bytedance/sonic/loader.WrapGoC", func(text []byte, natives []loader.CFunc, stubs []loader.GoC, modulename string, filename string) {
			for _, st := range stubs {
				found := false
				for _, nf := range natives {
					if nf.Name == st.CName {
						found = true
					}
				}
				v.Assert(found, "loader table names a routine that is not in the blob it is loaded from")
				if st.CEntry != nil {
					*st.CEntry = verifNameMark(st.CName)
				}
			}
		})
		Use()
	}
	type ent struct {
		name string
		addr uintptr
	}
	all := []ent{
		{"_f64toa", S_f64toa},
		{"_f32toa", S_f32toa},
		{"_get_by_path", S_get_by_path},
		{"_html_escape", S_html_escape},
		{"_i64toa", S_i64toa},
		{"_lspace", S_lspace},
		{"_quote", S_quote},
		{"_skip_array", S_skip_array},
		{"_skip_number", S_skip_number},
		{"_skip_one", S_skip_one},
		{"_skip_object", S_skip_object},
		{"_skip_one_fast", S_skip_one_fast},
		{"_u64toa", S_u64toa},
		{"_unquote", S_unquote},
		{"_validate_one", S_validate_one},
		{"_validate_utf8", S_validate_utf8},
		{"_validate_utf8_fast", S_validate_utf8_fast},
		{"_vnumber", S_vnumber},
		{"_vsigned", S_vsigned},
		{"_vunsigned", S_vunsigned},
		{"_vstring", S_vstring},
		{"_value", S_value},
		{"_parse_with_padding", S_parse_with_padding},
	}
	for i, e := range all {
		v.Assert(e.addr != 0, "a subroutine address of this package was never bound")
		if v.Symbolic() {
			v.Assert(e.addr == verifNameMark(e.name), "a subroutine address is bound to a routine with a different name")
		}
		for j := 0; j < i; j++ {
			v.Assert(all[j].addr != e.addr, "two different routines share one subroutine address")
		}
	}
	v.Cover("end")
}
