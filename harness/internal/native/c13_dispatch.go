//go:build verif

package native

import (
	"reflect"
	"unsafe"

	"github.com/bytedance/sonic/internal/native/avx2"
	"github.com/bytedance/sonic/internal/native/sse"
	v "github.com/bytedance/sonic/internal/zzverif"
)

func verifFnPtr(f interface{}) uintptr { return reflect.ValueOf(f).Pointer() }

// VerifC13Dispatch: useSSE()/useAVX2() bind every subroutine address and every Go entry point to
// the SAME-NAMED symbol of the selected instruction-set package (a crossed wire makes the two
// SIMD levels compute different functions). Under the symbolic engine every exported symbol of
// sse/avx2 first gets a unique marker and the loaders sse.Use/avx2.Use are stubbed; natively the
// real loaders run and the bound values are compared with the package variables themselves.
func VerifC13Dispatch() {
	v.Stub("github.com/bytedance/sonic/internal/native/sse.Use", func() {})
	v.Stub("github.com/bytedance/sonic/internal/native/avx2.Use", func() {})
	sseNow := v.Bool("useSSE")
	if v.Symbolic() {
		sse.S_f64toa, avx2.S_f64toa = 1000+0, 2000+0
		sse.S_f32toa, avx2.S_f32toa = 1000+1, 2000+1
		sse.S_i64toa, avx2.S_i64toa = 1000+2, 2000+2
		sse.S_u64toa, avx2.S_u64toa = 1000+3, 2000+3
		sse.S_lspace, avx2.S_lspace = 1000+4, 2000+4
		sse.S_quote, avx2.S_quote = 1000+5, 2000+5
		sse.S_unquote, avx2.S_unquote = 1000+6, 2000+6
		sse.S_value, avx2.S_value = 1000+7, 2000+7
		sse.S_vstring, avx2.S_vstring = 1000+8, 2000+8
		sse.S_vnumber, avx2.S_vnumber = 1000+9, 2000+9
		sse.S_vsigned, avx2.S_vsigned = 1000+10, 2000+10
		sse.S_vunsigned, avx2.S_vunsigned = 1000+11, 2000+11
		sse.S_skip_one, avx2.S_skip_one = 1000+12, 2000+12
		sse.S_skip_array, avx2.S_skip_array = 1000+13, 2000+13
		sse.S_skip_object, avx2.S_skip_object = 1000+14, 2000+14
		sse.S_skip_number, avx2.S_skip_number = 1000+15, 2000+15
		sse.S_get_by_path, avx2.S_get_by_path = 1000+16, 2000+16
		sse.F_quote = func(s unsafe.Pointer, nb int, dp unsafe.Pointer, dn unsafe.Pointer, flags uint64) int { return 1100 }
		avx2.F_quote = func(s unsafe.Pointer, nb int, dp unsafe.Pointer, dn unsafe.Pointer, flags uint64) int { return 2100 }
		sse.F_unquote = func(s unsafe.Pointer, nb int, dp unsafe.Pointer, ep unsafe.Pointer, flags uint64) int { return 1101 }
		avx2.F_unquote = func(s unsafe.Pointer, nb int, dp unsafe.Pointer, ep unsafe.Pointer, flags uint64) int { return 2101 }
		sse.F_html_escape = func(s unsafe.Pointer, nb int, dp unsafe.Pointer, dn unsafe.Pointer) int { return 1102 }
		avx2.F_html_escape = func(s unsafe.Pointer, nb int, dp unsafe.Pointer, dn unsafe.Pointer) int { return 2102 }
		sse.F_value = func(s unsafe.Pointer, n int, p int, vv unsafe.Pointer, flags uint64) int { return 1103 }
		avx2.F_value = func(s unsafe.Pointer, n int, p int, vv unsafe.Pointer, flags uint64) int { return 2103 }
		sse.F_skip_one = func(s unsafe.Pointer, p unsafe.Pointer, m unsafe.Pointer, flags uint64) int { return 1104 }
		avx2.F_skip_one = func(s unsafe.Pointer, p unsafe.Pointer, m unsafe.Pointer, flags uint64) int { return 2104 }
		sse.F_skip_one_fast = func(s unsafe.Pointer, p unsafe.Pointer) int { return 1105 }
		avx2.F_skip_one_fast = func(s unsafe.Pointer, p unsafe.Pointer) int { return 2105 }
		sse.F_get_by_path = func(s unsafe.Pointer, p unsafe.Pointer, path unsafe.Pointer, m unsafe.Pointer) int { return 1106 }
		avx2.F_get_by_path = func(s unsafe.Pointer, p unsafe.Pointer, path unsafe.Pointer, m unsafe.Pointer) int { return 2106 }
		sse.F_validate_one = func(s unsafe.Pointer, p unsafe.Pointer, m unsafe.Pointer, flags uint64) int { return 1107 }
		avx2.F_validate_one = func(s unsafe.Pointer, p unsafe.Pointer, m unsafe.Pointer, flags uint64) int { return 2107 }
		sse.F_i64toa = func(o unsafe.Pointer, val int64) int { return 1108 }
		avx2.F_i64toa = func(o unsafe.Pointer, val int64) int { return 2108 }
		sse.F_u64toa = func(o unsafe.Pointer, val uint64) int { return 1109 }
		avx2.F_u64toa = func(o unsafe.Pointer, val uint64) int { return 2109 }
		sse.F_f64toa = func(o unsafe.Pointer, val float64) int { return 1110 }
		avx2.F_f64toa = func(o unsafe.Pointer, val float64) int { return 2110 }
		sse.F_f32toa = func(o unsafe.Pointer, val float32) int { return 1111 }
		avx2.F_f32toa = func(o unsafe.Pointer, val float32) int { return 2111 }
		sse.F_validate_utf8 = func(s unsafe.Pointer, p unsafe.Pointer, m unsafe.Pointer) int { return 1112 }
		avx2.F_validate_utf8 = func(s unsafe.Pointer, p unsafe.Pointer, m unsafe.Pointer) int { return 2112 }
		sse.F_validate_utf8_fast = func(s unsafe.Pointer) int { return 1113 }
		avx2.F_validate_utf8_fast = func(s unsafe.Pointer) int { return 2113 }
		sse.F_parse_with_padding = func(p unsafe.Pointer) int { return 1114 }
		avx2.F_parse_with_padding = func(p unsafe.Pointer) int { return 2114 }
	}
	if sseNow {
		useSSE()
	} else {
		useAVX2()
	}
	if sseNow {
		v.Assert(S_f64toa == sse.S_f64toa, "dispatch (SSE): S_f64toa is not bound to sse.S_f64toa")
	} else {
		v.Assert(S_f64toa == avx2.S_f64toa, "dispatch (AVX2): S_f64toa is not bound to avx2.S_f64toa")
	}
	if sseNow {
		v.Assert(S_f32toa == sse.S_f32toa, "dispatch (SSE): S_f32toa is not bound to sse.S_f32toa")
	} else {
		v.Assert(S_f32toa == avx2.S_f32toa, "dispatch (AVX2): S_f32toa is not bound to avx2.S_f32toa")
	}
	if sseNow {
		v.Assert(S_i64toa == sse.S_i64toa, "dispatch (SSE): S_i64toa is not bound to sse.S_i64toa")
	} else {
		v.Assert(S_i64toa == avx2.S_i64toa, "dispatch (AVX2): S_i64toa is not bound to avx2.S_i64toa")
	}
	if sseNow {
		v.Assert(S_u64toa == sse.S_u64toa, "dispatch (SSE): S_u64toa is not bound to sse.S_u64toa")
	} else {
		v.Assert(S_u64toa == avx2.S_u64toa, "dispatch (AVX2): S_u64toa is not bound to avx2.S_u64toa")
	}
	if sseNow {
		v.Assert(S_lspace == sse.S_lspace, "dispatch (SSE): S_lspace is not bound to sse.S_lspace")
	} else {
		v.Assert(S_lspace == avx2.S_lspace, "dispatch (AVX2): S_lspace is not bound to avx2.S_lspace")
	}
	if sseNow {
		v.Assert(S_quote == sse.S_quote, "dispatch (SSE): S_quote is not bound to sse.S_quote")
	} else {
		v.Assert(S_quote == avx2.S_quote, "dispatch (AVX2): S_quote is not bound to avx2.S_quote")
	}
	if sseNow {
		v.Assert(S_unquote == sse.S_unquote, "dispatch (SSE): S_unquote is not bound to sse.S_unquote")
	} else {
		v.Assert(S_unquote == avx2.S_unquote, "dispatch (AVX2): S_unquote is not bound to avx2.S_unquote")
	}
	if sseNow {
		v.Assert(S_value == sse.S_value, "dispatch (SSE): S_value is not bound to sse.S_value")
	} else {
		v.Assert(S_value == avx2.S_value, "dispatch (AVX2): S_value is not bound to avx2.S_value")
	}
	if sseNow {
		v.Assert(S_vstring == sse.S_vstring, "dispatch (SSE): S_vstring is not bound to sse.S_vstring")
	} else {
		v.Assert(S_vstring == avx2.S_vstring, "dispatch (AVX2): S_vstring is not bound to avx2.S_vstring")
	}
	if sseNow {
		v.Assert(S_vnumber == sse.S_vnumber, "dispatch (SSE): S_vnumber is not bound to sse.S_vnumber")
	} else {
		v.Assert(S_vnumber == avx2.S_vnumber, "dispatch (AVX2): S_vnumber is not bound to avx2.S_vnumber")
	}
	if sseNow {
		v.Assert(S_vsigned == sse.S_vsigned, "dispatch (SSE): S_vsigned is not bound to sse.S_vsigned")
	} else {
		v.Assert(S_vsigned == avx2.S_vsigned, "dispatch (AVX2): S_vsigned is not bound to avx2.S_vsigned")
	}
	if sseNow {
		v.Assert(S_vunsigned == sse.S_vunsigned, "dispatch (SSE): S_vunsigned is not bound to sse.S_vunsigned")
	} else {
		v.Assert(S_vunsigned == avx2.S_vunsigned, "dispatch (AVX2): S_vunsigned is not bound to avx2.S_vunsigned")
	}
	if sseNow {
		v.Assert(S_skip_one == sse.S_skip_one, "dispatch (SSE): S_skip_one is not bound to sse.S_skip_one")
	} else {
		v.Assert(S_skip_one == avx2.S_skip_one, "dispatch (AVX2): S_skip_one is not bound to avx2.S_skip_one")
	}
	if sseNow {
		v.Assert(S_skip_array == sse.S_skip_array, "dispatch (SSE): S_skip_array is not bound to sse.S_skip_array")
	} else {
		v.Assert(S_skip_array == avx2.S_skip_array, "dispatch (AVX2): S_skip_array is not bound to avx2.S_skip_array")
	}
	if sseNow {
		v.Assert(S_skip_object == sse.S_skip_object, "dispatch (SSE): S_skip_object is not bound to sse.S_skip_object")
	} else {
		v.Assert(S_skip_object == avx2.S_skip_object, "dispatch (AVX2): S_skip_object is not bound to avx2.S_skip_object")
	}
	if sseNow {
		v.Assert(S_skip_number == sse.S_skip_number, "dispatch (SSE): S_skip_number is not bound to sse.S_skip_number")
	} else {
		v.Assert(S_skip_number == avx2.S_skip_number, "dispatch (AVX2): S_skip_number is not bound to avx2.S_skip_number")
	}
	if sseNow {
		v.Assert(S_get_by_path == sse.S_get_by_path, "dispatch (SSE): S_get_by_path is not bound to sse.S_get_by_path")
	} else {
		v.Assert(S_get_by_path == avx2.S_get_by_path, "dispatch (AVX2): S_get_by_path is not bound to avx2.S_get_by_path")
	}
	if v.Symbolic() {
		base := 2100
		if sseNow {
			base = 1100
		}
		v.Assert(__Quote(nil, 0, nil, nil, 0) == base+0, "dispatch: Go entry point __Quote is not bound to the selected package's F_quote")
		v.Assert(__Unquote(nil, 0, nil, nil, 0) == base+1, "dispatch: Go entry point __Unquote is not bound to the selected package's F_unquote")
		v.Assert(__HTMLEscape(nil, 0, nil, nil) == base+2, "dispatch: Go entry point __HTMLEscape is not bound to the selected package's F_html_escape")
		v.Assert(__Value(nil, 0, 0, nil, 0) == base+3, "dispatch: Go entry point __Value is not bound to the selected package's F_value")
		v.Assert(__SkipOne(nil, nil, nil, 0) == base+4, "dispatch: Go entry point __SkipOne is not bound to the selected package's F_skip_one")
		v.Assert(__SkipOneFast(nil, nil) == base+5, "dispatch: Go entry point __SkipOneFast is not bound to the selected package's F_skip_one_fast")
		v.Assert(__GetByPath(nil, nil, nil, nil) == base+6, "dispatch: Go entry point __GetByPath is not bound to the selected package's F_get_by_path")
		v.Assert(__ValidateOne(nil, nil, nil, 0) == base+7, "dispatch: Go entry point __ValidateOne is not bound to the selected package's F_validate_one")
		v.Assert(__I64toa(nil, 0) == base+8, "dispatch: Go entry point __I64toa is not bound to the selected package's F_i64toa")
		v.Assert(__U64toa(nil, 0) == base+9, "dispatch: Go entry point __U64toa is not bound to the selected package's F_u64toa")
		v.Assert(__F64toa(nil, 0) == base+10, "dispatch: Go entry point __F64toa is not bound to the selected package's F_f64toa")
		v.Assert(__F32toa(nil, 0) == base+11, "dispatch: Go entry point __F32toa is not bound to the selected package's F_f32toa")
		v.Assert(__ValidateUTF8(nil, nil, nil) == base+12, "dispatch: Go entry point __ValidateUTF8 is not bound to the selected package's F_validate_utf8")
		v.Assert(__ValidateUTF8Fast(nil) == base+13, "dispatch: Go entry point __ValidateUTF8Fast is not bound to the selected package's F_validate_utf8_fast")
		v.Assert(__ParseWithPadding(nil) == base+14, "dispatch: Go entry point __ParseWithPadding is not bound to the selected package's F_parse_with_padding")
	} else {
		if sseNow {
			v.Assert(verifFnPtr(__Quote) == verifFnPtr(sse.F_quote), "dispatch: Go entry point __Quote is not bound to the selected package's F_quote")
		} else {
			v.Assert(verifFnPtr(__Quote) == verifFnPtr(avx2.F_quote), "dispatch: Go entry point __Quote is not bound to the selected package's F_quote")
		}
		if sseNow {
			v.Assert(verifFnPtr(__Unquote) == verifFnPtr(sse.F_unquote), "dispatch: Go entry point __Unquote is not bound to the selected package's F_unquote")
		} else {
			v.Assert(verifFnPtr(__Unquote) == verifFnPtr(avx2.F_unquote), "dispatch: Go entry point __Unquote is not bound to the selected package's F_unquote")
		}
		if sseNow {
			v.Assert(verifFnPtr(__HTMLEscape) == verifFnPtr(sse.F_html_escape), "dispatch: Go entry point __HTMLEscape is not bound to the selected package's F_html_escape")
		} else {
			v.Assert(verifFnPtr(__HTMLEscape) == verifFnPtr(avx2.F_html_escape), "dispatch: Go entry point __HTMLEscape is not bound to the selected package's F_html_escape")
		}
		if sseNow {
			v.Assert(verifFnPtr(__Value) == verifFnPtr(sse.F_value), "dispatch: Go entry point __Value is not bound to the selected package's F_value")
		} else {
			v.Assert(verifFnPtr(__Value) == verifFnPtr(avx2.F_value), "dispatch: Go entry point __Value is not bound to the selected package's F_value")
		}
		if sseNow {
			v.Assert(verifFnPtr(__SkipOne) == verifFnPtr(sse.F_skip_one), "dispatch: Go entry point __SkipOne is not bound to the selected package's F_skip_one")
		} else {
			v.Assert(verifFnPtr(__SkipOne) == verifFnPtr(avx2.F_skip_one), "dispatch: Go entry point __SkipOne is not bound to the selected package's F_skip_one")
		}
		if sseNow {
			v.Assert(verifFnPtr(__SkipOneFast) == verifFnPtr(sse.F_skip_one_fast), "dispatch: Go entry point __SkipOneFast is not bound to the selected package's F_skip_one_fast")
		} else {
			v.Assert(verifFnPtr(__SkipOneFast) == verifFnPtr(avx2.F_skip_one_fast), "dispatch: Go entry point __SkipOneFast is not bound to the selected package's F_skip_one_fast")
		}
		if sseNow {
			v.Assert(verifFnPtr(__GetByPath) == verifFnPtr(sse.F_get_by_path), "dispatch: Go entry point __GetByPath is not bound to the selected package's F_get_by_path")
		} else {
			v.Assert(verifFnPtr(__GetByPath) == verifFnPtr(avx2.F_get_by_path), "dispatch: Go entry point __GetByPath is not bound to the selected package's F_get_by_path")
		}
		if sseNow {
			v.Assert(verifFnPtr(__ValidateOne) == verifFnPtr(sse.F_validate_one), "dispatch: Go entry point __ValidateOne is not bound to the selected package's F_validate_one")
		} else {
			v.Assert(verifFnPtr(__ValidateOne) == verifFnPtr(avx2.F_validate_one), "dispatch: Go entry point __ValidateOne is not bound to the selected package's F_validate_one")
		}
		if sseNow {
			v.Assert(verifFnPtr(__I64toa) == verifFnPtr(sse.F_i64toa), "dispatch: Go entry point __I64toa is not bound to the selected package's F_i64toa")
		} else {
			v.Assert(verifFnPtr(__I64toa) == verifFnPtr(avx2.F_i64toa), "dispatch: Go entry point __I64toa is not bound to the selected package's F_i64toa")
		}
		if sseNow {
			v.Assert(verifFnPtr(__U64toa) == verifFnPtr(sse.F_u64toa), "dispatch: Go entry point __U64toa is not bound to the selected package's F_u64toa")
		} else {
			v.Assert(verifFnPtr(__U64toa) == verifFnPtr(avx2.F_u64toa), "dispatch: Go entry point __U64toa is not bound to the selected package's F_u64toa")
		}
		if sseNow {
			v.Assert(verifFnPtr(__F64toa) == verifFnPtr(sse.F_f64toa), "dispatch: Go entry point __F64toa is not bound to the selected package's F_f64toa")
		} else {
			v.Assert(verifFnPtr(__F64toa) == verifFnPtr(avx2.F_f64toa), "dispatch: Go entry point __F64toa is not bound to the selected package's F_f64toa")
		}
		if sseNow {
			v.Assert(verifFnPtr(__F32toa) == verifFnPtr(sse.F_f32toa), "dispatch: Go entry point __F32toa is not bound to the selected package's F_f32toa")
		} else {
			v.Assert(verifFnPtr(__F32toa) == verifFnPtr(avx2.F_f32toa), "dispatch: Go entry point __F32toa is not bound to the selected package's F_f32toa")
		}
		if sseNow {
			v.Assert(verifFnPtr(__ValidateUTF8) == verifFnPtr(sse.F_validate_utf8), "dispatch: Go entry point __ValidateUTF8 is not bound to the selected package's F_validate_utf8")
		} else {
			v.Assert(verifFnPtr(__ValidateUTF8) == verifFnPtr(avx2.F_validate_utf8), "dispatch: Go entry point __ValidateUTF8 is not bound to the selected package's F_validate_utf8")
		}
		if sseNow {
			v.Assert(verifFnPtr(__ValidateUTF8Fast) == verifFnPtr(sse.F_validate_utf8_fast), "dispatch: Go entry point __ValidateUTF8Fast is not bound to the selected package's F_validate_utf8_fast")
		} else {
			v.Assert(verifFnPtr(__ValidateUTF8Fast) == verifFnPtr(avx2.F_validate_utf8_fast), "dispatch: Go entry point __ValidateUTF8Fast is not bound to the selected package's F_validate_utf8_fast")
		}
		if sseNow {
			v.Assert(verifFnPtr(__ParseWithPadding) == verifFnPtr(sse.F_parse_with_padding), "dispatch: Go entry point __ParseWithPadding is not bound to the selected package's F_parse_with_padding")
		} else {
			v.Assert(verifFnPtr(__ParseWithPadding) == verifFnPtr(avx2.F_parse_with_padding), "dispatch: Go entry point __ParseWithPadding is not bound to the selected package's F_parse_with_padding")
		}
	}
	v.Cover("end")
}
