//go:build verif

package native

import (
	"math/big"
	"runtime/debug"
	"unicode/utf8"
	"unsafe"

	"github.com/bytedance/sonic/internal/native/avx2"
	"github.com/bytedance/sonic/internal/native/sse"
	"github.com/bytedance/sonic/internal/native/types"
	v "github.com/bytedance/sonic/internal/zzverif"
)

// VerifX86Replay replays a counterexample of Engine B (engine/x86sym: symbolic execution of the
// machine code in internal/native/{avx2,sse}) against the real routines, called through the
// repository's own loader.  The input is placed against an inaccessible page when the model says
// so; a fault (turned into a panic) reproduces a memory violation, a difference from the Go
// reference below or between the two variants reproduces a spec / equivalence violation.
func VerifX86Replay() {
	if v.Symbolic() {
		return
	}
	debug.SetPanicOnFault(true)
	avx2.Use()
	sse.Use()
	routine := v.Uint64("routine")
	variant := v.Uint64("variant")
	n := int(v.Uint64("n"))
	p := int(v.Uint64("p"))
	pageEnd := v.Uint64("page_end") != 0
	buf := make([]byte, n)
	for i := 0; i < n; i++ {
		buf[i] = v.Byte("b" + itoa(i))
	}
	var s string
	if pageEnd {
		s = v.GuardString(string(buf))
	} else {
		s = string(buf)
	}
	sp := unsafe.Pointer(nil)
	if n > 0 {
		sp = *(*unsafe.Pointer)(unsafe.Pointer(&s))
	} else {
		var z [1]byte
		sp = unsafe.Pointer(&z[0])
	}
	both := variant == 0
	switch routine {
	case 1: // lspace
		want := n
		for i := p; i < n; i++ {
			if c := buf[i]; c != ' ' && c != '\t' && c != '\n' && c != '\r' {
				want = i
				break
			}
		}
		var ra, rs int
		if both || variant == 1 {
			ra = avx2.F_lspace(sp, n, p)
			v.Assert(ra == want, "avx2 lspace differs from the reference")
		}
		if both || variant == 2 {
			rs = sse.F_lspace(sp, n, p)
			v.Assert(rs == want, "sse lspace differs from the reference")
		}
	case 2, 3: // vsigned, vunsigned
		signed := routine == 2
		wvt, wiv, wp := verifVintRef(buf, p, signed)
		run := func(f func(s unsafe.Pointer, p unsafe.Pointer, v unsafe.Pointer), who string) {
			var st types.JsonState
			pp := p
			f(unsafe.Pointer(&s), unsafe.Pointer(&pp), unsafe.Pointer(&st))
			v.Assert(int(st.Vt) == wvt, who+": vt differs from the reference")
			// an overflow is reported at the offending digit or the one before it (the C code's
			// multiply-then-add short circuit); both point into the literal
			v.Assert(pp == wp || (wvt == -5 && pp == wp-1), who+": position differs from the reference")
			if wvt == 9 {
				v.Assert(uint64(st.Iv) == wiv, who+": value differs from the reference")
			}
		}
		if both || variant == 1 {
			if signed {
				run(avx2.F_vsigned, "avx2 vsigned")
			} else {
				run(avx2.F_vunsigned, "avx2 vunsigned")
			}
		}
		if both || variant == 2 {
			if signed {
				run(sse.F_vsigned, "sse vsigned")
			} else {
				run(sse.F_vunsigned, "sse vunsigned")
			}
		}
	case 4: // validate_utf8_fast
		want := utf8.Valid(buf)
		if both || variant == 1 {
			v.Assert((avx2.F_validate_utf8_fast(unsafe.Pointer(&s)) == 0) == want, "avx2 validate_utf8_fast differs from unicode/utf8.Valid")
		}
		if both || variant == 2 {
			v.Assert((sse.F_validate_utf8_fast(unsafe.Pointer(&s)) == 0) == want, "sse validate_utf8_fast differs from unicode/utf8.Valid")
		}
	default:
		v.Assert(false, "x86 replay: routine not supported natively")
	}
}

func itoa(i int) string {
	if i == 0 {
		return "0"
	}
	var b []byte
	for i > 0 {
		b = append([]byte{byte('0' + i%10)}, b...)
		i /= 10
	}
	return string(b)
}

// verifVintRef: reference for vsigned / vunsigned written with math/big: (vt, iv, new position)
func verifVintRef(b []byte, p int, signed bool) (int, uint64, int) {
	n := len(b)
	if p >= n {
		return -1, 0, n
	}
	i := p
	neg := false
	if b[i] == '-' {
		if !signed {
			return -6, 0, p
		}
		neg = true
		i++
		if i >= n {
			return -1, 0, n
		}
	}
	if b[i] < '0' || b[i] > '9' {
		return -2, 0, i
	}
	if b[i] == '0' && !(i+1 < n && (b[i+1] == '.' || b[i+1] == 'e' || b[i+1] == 'E')) {
		return 9, 0, i + 1
	}
	val := new(big.Int)
	lo := new(big.Int).Neg(new(big.Int).Lsh(big.NewInt(1), 63))
	hi := new(big.Int).Sub(new(big.Int).Lsh(big.NewInt(1), 63), big.NewInt(1))
	if !signed {
		lo = big.NewInt(0)
		hi = new(big.Int).Sub(new(big.Int).Lsh(big.NewInt(1), 64), big.NewInt(1))
	}
	j := i
	for j < n && b[j] >= '0' && b[j] <= '9' {
		val.Mul(val, big.NewInt(10))
		d := big.NewInt(int64(b[j] - '0'))
		if neg {
			val.Sub(val, d)
		} else {
			val.Add(val, d)
		}
		if val.Cmp(lo) < 0 || val.Cmp(hi) > 0 {
			return -5, 0, j
		}
		j++
	}
	if j < n && (b[j] == '.' || b[j] == 'e' || b[j] == 'E') {
		return -6, 0, j
	}
	var iv uint64
	if signed {
		iv = uint64(val.Int64())
	} else {
		iv = val.Uint64()
	}
	return 9, iv, j
}
