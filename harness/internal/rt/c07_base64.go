//go:build verif

package rt

import (
	"encoding/base64"

	"github.com/cloudwego/base64x"

	v "github.com/bytedance/sonic/internal/zzverif"
)

func verifB64Sym(c byte) bool {
	return (c >= 'A' && c <= 'Z') || (c >= 'a' && c <= 'z') || (c >= '0' && c <= '9') || c == '+' || c == '/'
}

// VerifC07DecodeBase64: rt.DecodeBase64 (the alternative decoder's []byte path) gives the
// native base64 decoder a buffer with room for everything it produces, so that neither the
// native write nor the final re-slice can go past the allocation (no panic, no overrun).
//
// Model of base64x.Encoding.DecodeUnsafe (v0.1.6, standard padded encoding), stated on the
// text: k leading alphabet symbols followed by p <= 2 '=' pads; accepted when k%4 == 0 with
// p == 0, k%4 == 3 with p == 1, or k%4 == 2 with p == 2 or (what the library really does, and
// what encoding/base64 rejects) p == 1; the result has 6*k/8 bytes. Native replays run the
// real library.
func VerifC07DecodeBase64() {
	n := v.Int("n", 0, 7)
	raw := v.BytesN("raw", n, 7)
	v.Stub("(github.com/cloudwego/base64x.Encoding).DecodeUnsafe", func(self base64x.Encoding, out *[]byte, src []byte) (int, error) {
		k := 0
		for k < len(src) && verifB64Sym(src[k]) {
			k++
		}
		p := 0
		for k+p < len(src) && src[k+p] == '=' {
			p++
		}
		if k+p != len(src) || p > 2 {
			return 0, base64.CorruptInputError(k)
		}
		ok := false
		switch k % 4 {
		case 0:
			ok = p == 0
		case 2:
			ok = p == 2 || p == 1
		case 3:
			ok = p == 1
		}
		if !ok {
			return 0, base64.CorruptInputError(k)
		}
		w := k * 6 / 8
		v.Assert(w <= cap(*out), "the native base64 decoder is handed a buffer smaller than what it writes (write past the allocation, then a slice-bounds panic)")
		return w, nil
	})
	var res []byte
	var err error
	panicked := false
	func() {
		defer func() {
			if !v.Symbolic() {
				if r := recover(); r != nil {
					panicked = true
				}
			}
		}()
		res, err = DecodeBase64(raw)
	}()
	v.Assert(!panicked, "rt.DecodeBase64 panics on this text")
	if err == nil {
		v.Assert(len(res) <= cap(res), "decoded slice has len > cap")
		v.Cover("decoded")
	} else {
		v.Cover("rejected")
	}
}
