//go:build verif

package zzverif

// Freeze (symbolic engine only): from now on every object that already exists counts as shared
// with other goroutines. mode 1: a plain store to such an object is a violation unless a write
// lock (sync.Mutex / RWMutex.Lock) is held; mode 2: always a violation (published data is
// immutable; only sync/atomic stores may change it); mode 0: off. Natively a no-op: data races
// are not observable in a sequential replay (replays of these findings use `go test -race`
// demonstrations instead, see DESIGN.md).
func Freeze(mode int) {}
