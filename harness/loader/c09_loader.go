//go:build verif

package loader

import (
	"unsafe"

	v "github.com/bytedance/sonic/loader/internal/zzverif"
)

// VerifC09LoadMany: a batch load maps every result back to its own input: out[i] is the entry of
// item i, for every equality pattern among the function names -- in particular for names that
// are distinct only in their last byte after a long common prefix (type names that print
// almost identically), and in any input order.
func VerifC09LoadMany() {
	const base = uintptr(0x10000)
	v.Stub("github.com/bytedance/sonic/loader.makeModuledata", func(name string, filenames []string, funcsp *[]Func, text []byte) *moduledata {
		// what the real function does to *funcsp: sort by entry offset
		fs := *funcsp
		for i := 1; i < len(fs); i++ {
			for j := i; j > 0 && fs[j].EntryOff < fs[j-1].EntryOff; j-- {
				fs[j], fs[j-1] = fs[j-1], fs[j]
			}
		}
		mod := new(moduledata)
		mod.text = base
		return mod
	})
	v.Stub("github.com/bytedance/sonic/loader.moduledataverify1", func(mod *moduledata) {})
	v.Stub("github.com/bytedance/sonic/loader.registerModule", func(mod *moduledata) {})

	prefix := make([]byte, 130)
	for i := range prefix {
		prefix[i] = 'T'
	}
	last := v.Bytes("lastByte", 3)
	var items []LoadOneItem
	for i := 0; i < 3; i++ {
		v.Assume(last[i] == 'a' || last[i] == 'b' || last[i] == 'c')
		items = append(items, LoadOneItem{
			Text:     make([]byte, i+1), // distinct sizes => distinct entry offsets 0,1,3
			FuncName: string(prefix) + string([]byte{last[i]}),
		})
	}
	distinct := last[0] != last[1] && last[1] != last[2] && last[0] != last[2]
	out := Loader{Name: "m.", File: "f"}.LoadMany(items)
	v.Assert(len(out) == 3, "LoadMany returns the wrong number of functions")
	want := [...]uintptr{base + 0, base + 1, base + 3}
	first := **(**uintptr)(unsafe.Pointer(&out[0]))
	for i := 0; i < 3; i++ {
		got := **(**uintptr)(unsafe.Pointer(&out[i]))
		if !v.Symbolic() {
			// native replay: the real text segment lives wherever mmap put it; compare relative to
			// item 0, whose entry offset is 0 (if item 0 itself is mis-mapped the other two differ)
			got = got - first + base
		}
		if distinct {
			v.Assert(got == want[i], "LoadMany: function with a distinct (long) name is mapped to another item's code")
		} else {
			v.Assert(got == want[i], "LoadMany: items whose names print identically get each other's code")
		}
	}
	if distinct {
		v.Cover("distinct")
	} else {
		v.Cover("same-name")
	}
}
