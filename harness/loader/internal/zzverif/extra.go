//go:build verif

package zzverif

import "unsafe"

// WriteJunk overwrites n bytes at p with arbitrary values (under the symbolic engine the
// range is bounds-checked against p's object and the bytes become unconstrained).
func WriteJunk(p unsafe.Pointer, n int) {
	for i := 0; i < n; i++ {
		*(*byte)(unsafe.Pointer(uintptr(p) + uintptr(i))) = 0xA5
	}
}
