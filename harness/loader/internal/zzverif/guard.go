//go:build verif

package zzverif

import (
	"syscall"
	"unsafe"
)

// StringNGuard is StringN, but natively the bytes are placed so that the string ends exactly
// at the end of a mapped page that is followed by an inaccessible (PROT_NONE) page: a read past
// the end of the input faults instead of silently succeeding. (Symbolic engine: same as
// StringN -- the object has exactly n readable bytes.)
func StringNGuard(name string, n, max int) string {
	b := BytesN(name, n, max)
	if n == 0 {
		return ""
	}
	ps := syscall.Getpagesize()
	mem, err := syscall.Mmap(-1, 0, 2*ps, syscall.PROT_READ|syscall.PROT_WRITE, syscall.MAP_ANON|syscall.MAP_PRIVATE)
	if err != nil {
		panic("zzverif: mmap: " + err.Error())
	}
	if err := syscall.Mprotect(mem[ps:], syscall.PROT_NONE); err != nil {
		panic("zzverif: mprotect: " + err.Error())
	}
	dst := mem[ps-n : ps]
	copy(dst, b)
	type sh struct {
		p unsafe.Pointer
		n int
	}
	h := sh{unsafe.Pointer(&dst[0]), n}
	return *(*string)(unsafe.Pointer(&h))
}

// GuardString places a copy of s so that it ends exactly at a page boundary followed by an
// inaccessible page (natively); under the engine it is s itself.
func GuardString(s string) string {
	n := len(s)
	if n == 0 {
		return ""
	}
	ps := syscall.Getpagesize()
	mem, err := syscall.Mmap(-1, 0, 2*ps, syscall.PROT_READ|syscall.PROT_WRITE, syscall.MAP_ANON|syscall.MAP_PRIVATE)
	if err != nil {
		panic("zzverif: mmap: " + err.Error())
	}
	if err := syscall.Mprotect(mem[ps:], syscall.PROT_NONE); err != nil {
		panic("zzverif: mprotect: " + err.Error())
	}
	dst := mem[ps-n : ps]
	copy(dst, s)
	type sh struct {
		p unsafe.Pointer
		n int
	}
	h := sh{unsafe.Pointer(&dst[0]), n}
	return *(*string)(unsafe.Pointer(&h))
}
