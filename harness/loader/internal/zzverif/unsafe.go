//go:build verif

package zzverif

import "unsafe"

func ptr(b []byte) unsafe.Pointer { return unsafe.Pointer(&b[:1][0]) }

func strBytes(s string) []byte {
	type sh struct {
		p unsafe.Pointer
		n int
	}
	type bh struct {
		p unsafe.Pointer
		n int
		c int
	}
	h := (*sh)(unsafe.Pointer(&s))
	r := bh{h.p, h.n, h.n}
	return *(*[]byte)(unsafe.Pointer(&r))
}
