//go:build verif

// Package zzverif is the harness API. The symbolic engine (verif/engine/gosym)
// intercepts every function here by name; this file is the *native* implementation
// used when a solver model is replayed against the real build
// (VERIF_MODEL=<json file with {"model": {name: value}}>).
package zzverif

import (
	"time"
	"encoding/json"
	"fmt"
	"os"
)

var (
	model    map[string]uint64
	names    = map[string]int{}
	Failures []string
	loaded   bool
)

func load() {
	if loaded {
		return
	}
	loaded = true
	model = map[string]uint64{}
	p := os.Getenv("VERIF_MODEL")
	if p == "" {
		return
	}
	b, err := os.ReadFile(p)
	if err != nil {
		panic("zzverif: cannot read model: " + err.Error())
	}
	var f struct {
		Model map[string]uint64 `json:"model"`
	}
	if err := json.Unmarshal(b, &f); err != nil {
		panic("zzverif: bad model: " + err.Error())
	}
	model = f.Model
}

// Reset clears per-run state (replay of several models in one process).
func Reset(m map[string]uint64) {
	loaded = true
	model = m
	names = map[string]int{}
	Failures = nil
}

func get(name string) uint64 {
	load()
	k := names[name]
	names[name] = k + 1
	if k > 0 {
		name = fmt.Sprintf("%s#%d", name, k)
	}
	return model[name]
}

type AssumeFailed struct{ Msg string }

func Bool(name string) bool     { return get(name) != 0 }
func Byte(name string) byte     { return byte(get(name)) }
func Uint8(name string) uint8   { return uint8(get(name)) }
func Uint16(name string) uint16 { return uint16(get(name)) }
func Uint32(name string) uint32 { return uint32(get(name)) }
func Uint64(name string) uint64 { return get(name) }
func Int64(name string) int64   { return int64(get(name)) }

// Int returns a symbolic int in [lo,hi].
func Int(name string, lo, hi int) int {
	load()
	nm := name
	if k := names[name]; k > 0 {
		nm = fmt.Sprintf("%s#%d", name, k)
	}
	_, ok := model[nm]
	v := int(int64(get(name)))
	if !ok {
		return lo
	}
	if v < lo || v > hi {
		panic(AssumeFailed{fmt.Sprintf("Int %s=%d outside [%d,%d]", name, v, lo, hi)})
	}
	return v
}

// Bytes returns n symbolic bytes (n concrete).
func Bytes(name string, n int) []byte {
	b := make([]byte, n)
	for i := range b {
		b[i] = byte(get(fmt.Sprintf("%s[%d]", name, i)))
	}
	return b
}

// BytesN returns a slice of symbolic length n<=max over a backing store of exactly n bytes.
func BytesN(name string, n, max int) []byte {
	if n < 0 || n > max {
		panic(AssumeFailed{"BytesN length out of range"})
	}
	b := make([]byte, n)
	for i := 0; i < max; i++ {
		v := byte(get(fmt.Sprintf("%s[%d]", name, i)))
		if i < n {
			b[i] = v
		}
	}
	return b
}

func String(name string, n int) string       { return string(Bytes(name, n)) }
func StringN(name string, n, max int) string { return string(BytesN(name, n, max)) }
func Assume(c bool) {
	if !c {
		panic(AssumeFailed{"assumption does not hold under the replayed model"})
	}
}
func Assert(c bool, msg string) {
	if !c {
		Failures = append(Failures, msg)
	}
}
func Cover(label string)                 {}

// MustFinishWithin / Finished bracket an operation that must terminate: under the engine a
// feasible path that executes more than n SSA instructions in between is a violation (hang);
// natively a watchdog reports a hang after 10 seconds.
var finishedCh chan struct{}

func MustFinishWithin(n int) {
	ch := make(chan struct{})
	finishedCh = ch
	go func() {
		select {
		case <-ch:
		case <-time.After(10 * time.Second):
			fmt.Fprintln(os.Stdout, "VERIF-REPLAY-RESULT HANG: the operation did not return within 10 s")
			os.Exit(1)
		}
	}()
}

func Finished() {
	if finishedCh != nil {
		close(finishedCh)
		finishedCh = nil
	}
}
func Note(label string)                  {}
func Stub(target string, fn interface{}) {}

// Symbolic reports whether the harness runs under the symbolic engine.
func Symbolic() bool       { return false }
func Junk8() byte          { return 0xA5 }
func Junk64() uint64       { return 0xA5A5A5A5A5A5A5A5 }
func Concretize(v int) int { return v }

// SameObject: do the two slices share backing memory? (native: overlap test)
func SameObject(a, b []byte) bool {
	if cap(a) == 0 || cap(b) == 0 {
		return false
	}
	a, b = a[:cap(a)], b[:cap(b)]
	pa, pb := uintptr(ptr(a)), uintptr(ptr(b))
	return pa < pb+uintptr(len(b)) && pb < pa+uintptr(len(a))
}
func StrSameObject(s string, b []byte) bool {
	if len(s) == 0 || cap(b) == 0 {
		return false
	}
	return SameObject(strBytes(s), b)
}
func SetCap(b []byte, c int) []byte { return b[:len(b):c] }

var ghost = map[uintptr]map[string]int{}

func GhostSet(b []byte, key string, val int) {
	if cap(b) == 0 {
		return
	}
	p := uintptr(ptr(b[:1]))
	if ghost[p] == nil {
		ghost[p] = map[string]int{}
	}
	ghost[p][key] = val
}
func GhostGet(b []byte, key string) int {
	if cap(b) == 0 {
		return 0
	}
	return ghost[uintptr(ptr(b[:1]))][key]
}

var ufTab = map[string]uint64{}

// UF64 is an uninterpreted function: same arguments, same result.
func UF64(name string, args ...uint64) uint64 {
	k := fmt.Sprint(name, args)
	if v, ok := ufTab[k]; ok {
		return v
	}
	v := uint64(len(ufTab)+1) * 0x9E3779B97F4A7C15
	ufTab[k] = v
	return v
}
func EventsStart(tid int) {}

// ---- references to unexported encoding/json functions ----
// Under the symbolic engine these calls are redirected to the REAL stdlib
// functions (executed from their SSA bodies); natively they run the copies below.

// JSONIsSpace is encoding/json.isSpace.
func JSONIsSpace(c byte) bool {
	return c <= ' ' && (c == ' ' || c == '\t' || c == '\r' || c == '\n')
}

// JSONIsValidNumber is encoding/json.isValidNumber.
func JSONIsValidNumber(s string) bool {
	if s == "" {
		return false
	}
	if s[0] == '-' {
		s = s[1:]
		if s == "" {
			return false
		}
	}
	switch {
	default:
		return false
	case s[0] == '0':
		s = s[1:]
	case '1' <= s[0] && s[0] <= '9':
		s = s[1:]
		for len(s) > 0 && '0' <= s[0] && s[0] <= '9' {
			s = s[1:]
		}
	}
	if len(s) >= 2 && s[0] == '.' && '0' <= s[1] && s[1] <= '9' {
		s = s[2:]
		for len(s) > 0 && '0' <= s[0] && s[0] <= '9' {
			s = s[1:]
		}
	}
	if len(s) >= 2 && (s[0] == 'e' || s[0] == 'E') {
		s = s[1:]
		if s[0] == '+' || s[0] == '-' {
			s = s[1:]
			if s == "" {
				return false
			}
		}
		for len(s) > 0 && '0' <= s[0] && s[0] <= '9' {
			s = s[1:]
		}
	}
	return s == ""
}

// InPool reports (symbolic engine only) whether b's backing array is currently owned by a sync.Pool.
func InPool(b []byte) bool { return false }
