//go:build verif

package sonic

import (
	"github.com/bytedance/sonic/ast"
	v "github.com/bytedance/sonic/internal/zzverif"
)

// document family shared by the two sonic.Get harnesses: "[1" S "2]" or {"a":[1 S 2]} with one
// arbitrary separator byte S; well-formed exactly when S continues the number or is the comma.
func verifGetDoc() (src []byte, path []interface{}, valid bool) {
	sep := v.Byte("sep")
	// with S = ']' the located value is "[1]" and ends there: Get (a search API) does not examine
	// what follows the value it returns, by design - outside these two checks
	v.Assume(sep != ']')
	valid = sep == ',' || sep == '.' || sep == 'e' || sep == 'E' || (sep >= '0' && sep <= '9')
	if v.Bool("nested") {
		v.Cover("nested")
		return []byte{'{', '"', 'a', '"', ':', '[', '1', sep, '2', ']', '}'}, []interface{}{"a"}, valid
	}
	v.Cover("root")
	return []byte{'[', '1', sep, '2', ']'}, nil, valid
}

// VerifC02GetValidates: sonic.Get validates the value it returns: a malformed value is an
// error, never a node (C02: no API accepts text that is not JSON).
func VerifC02GetValidates() {
	ast.VerifAstStubs()
	src, path, valid := verifGetDoc()
	n, err := Get(src, path...)
	if valid {
		v.Assert(err == nil, "sonic.Get rejects a well-formed value")
		v.Cover("valid")
		return
	}
	_ = n
	v.Assert(err != nil, "sonic.Get accepts a malformed value (extra or missing separator) without an error")
	v.Cover("invalid")
}

// VerifC06GetCopies: the node sonic.Get returns never points into the caller's []byte (the
// caller may reuse the buffer): its raw text is a private copy, also when the located value is
// the whole document.
func VerifC06GetCopies() {
	ast.VerifAstStubs()
	src, path, valid := verifGetDoc()
	v.Assume(valid)
	n, err := Get(src, path...)
	v.Assert(err == nil, "sonic.Get rejects a well-formed value")
	raw, err := n.Raw()
	v.Assert(err == nil, "Raw fails on the node sonic.Get returned")
	if err == nil {
		v.Assert(!v.StrSameObject(raw, src), "the node returned by sonic.Get([]byte) aliases the caller's buffer instead of holding a private copy")
	}
	v.Cover("end")
}
