//go:build verif

package sonic

import (
	v "github.com/bytedance/sonic/internal/zzverif"
)

// VerifC06UnmarshalCopies: Unmarshal([]byte) never lets the decoder (and through it ast.Node,
// NoCopyRawMessage, json.Unmarshaler windows, error excerpts) keep references into the
// caller's buffer: it decodes from a private copy, for every Config.
func VerifC06UnmarshalCopies() {
	cfg := Config{
		UseInt64:              v.Bool("UseInt64"),
		UseNumber:             v.Bool("UseNumber"),
		UseUnicodeErrors:      v.Bool("UseUnicodeErrors"),
		DisallowUnknownFields: v.Bool("DisallowUnknownFields"),
		CopyString:            v.Bool("CopyString"),
		ValidateString:        v.Bool("ValidateString"),
		NoValidateJSONSkip:    v.Bool("NoValidateJSONSkip"),
		CaseSensitive:         v.Bool("CaseSensitive"),
	}
	api := cfg.Froze().(*frozenConfig)
	n := v.Int("n", 1, 3)
	buf := v.BytesN("buf", n, 3)
	aliased := false
	called := false
	if v.Symbolic() {
		v.Stub("(github.com/bytedance/sonic.frozenConfig).UnmarshalFromString", func(c frozenConfig, s string, val interface{}) error {
			called = true
			if v.StrSameObject(s, buf) {
				aliased = true
			}
			return nil
		})
		var x interface{}
		_ = api.Unmarshal(buf, &x)
		v.Assert(called, "Unmarshal does not reach the string decoder")
		v.Assert(!aliased, "Unmarshal decodes from the caller's buffer instead of a private copy: nodes / raw messages keep pointing into memory the caller reuses")
		v.Cover("end")
		return
	}
	// native: a NoCopyRawMessage and an ast.Node decoded from a buffer the caller then overwrites
	doc := []byte(`{"a":"xyz","b":[1,2]}`)
	type holder struct {
		A NoCopyRawMessage `json:"a"`
	}
	var h holder
	err := api.Unmarshal(doc, &h)
	if err == nil {
		before := string(h.A)
		for i := range doc {
			doc[i] = '#'
		}
		v.Assert(string(h.A) == before, "a NoCopyRawMessage decoded by Unmarshal changes when the caller overwrites its input buffer")
	}
}
