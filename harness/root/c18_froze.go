//go:build verif

package sonic

import (
	"github.com/bytedance/sonic/decoder"
	"github.com/bytedance/sonic/encoder"
	v "github.com/bytedance/sonic/internal/zzverif"
)

// VerifC18Froze: Config.Froze sets exactly the documented option bits, for all 2^17 configs.
// The field -> option-name table below is the specification (from the doc comments in api.go);
// constant values come from the tree.
func VerifC18Froze() {
	cfg := Config{
		EscapeHTML:              v.Bool("EscapeHTML"),
		SortMapKeys:             v.Bool("SortMapKeys"),
		CompactMarshaler:        v.Bool("CompactMarshaler"),
		NoQuoteTextMarshaler:    v.Bool("NoQuoteTextMarshaler"),
		NoNullSliceOrMap:        v.Bool("NoNullSliceOrMap"),
		UseInt64:                v.Bool("UseInt64"),
		UseNumber:               v.Bool("UseNumber"),
		UseUnicodeErrors:        v.Bool("UseUnicodeErrors"),
		DisallowUnknownFields:   v.Bool("DisallowUnknownFields"),
		CopyString:              v.Bool("CopyString"),
		ValidateString:          v.Bool("ValidateString"),
		NoValidateJSONMarshaler: v.Bool("NoValidateJSONMarshaler"),
		NoValidateJSONSkip:      v.Bool("NoValidateJSONSkip"),
		NoEncoderNewline:        v.Bool("NoEncoderNewline"),
		EncodeNullForInfOrNan:   v.Bool("EncodeNullForInfOrNan"),
		CaseSensitive:           v.Bool("CaseSensitive"),
	}
	api := cfg.Froze().(*frozenConfig)

	var eo encoder.Options
	or := func(c bool, o encoder.Options) {
		if c {
			eo |= o
		}
	}
	or(cfg.EscapeHTML, encoder.EscapeHTML)
	or(cfg.SortMapKeys, encoder.SortMapKeys)
	or(cfg.CompactMarshaler, encoder.CompactMarshaler)
	or(cfg.NoQuoteTextMarshaler, encoder.NoQuoteTextMarshaler)
	or(cfg.NoNullSliceOrMap, encoder.NoNullSliceOrMap)
	or(cfg.ValidateString, encoder.ValidateString)
	or(cfg.NoValidateJSONMarshaler, encoder.NoValidateJSONMarshaler)
	or(cfg.NoEncoderNewline, encoder.NoEncoderNewline)
	or(cfg.EncodeNullForInfOrNan, encoder.EncodeNullForInfOrNan)
	v.Assert(api.encoderOpts == eo, "Froze: encoder option word is not exactly the documented bits")

	var do decoder.Options
	ord := func(c bool, o decoder.Options) {
		if c {
			do |= o
		}
	}
	ord(cfg.NoValidateJSONSkip, decoder.OptionNoValidateJSON)
	ord(cfg.UseInt64, decoder.OptionUseInt64)
	ord(cfg.UseNumber, decoder.OptionUseNumber)
	ord(cfg.UseUnicodeErrors, decoder.OptionUseUnicodeErrors)
	ord(cfg.DisallowUnknownFields, decoder.OptionDisableUnknown)
	ord(cfg.CopyString, decoder.OptionCopyString)
	ord(cfg.ValidateString, decoder.OptionValidateString)
	ord(cfg.CaseSensitive, decoder.OptionCaseSensitive)
	v.Assert(api.decoderOpts == do, "Froze: decoder option word is not exactly the documented bits")
	v.Assert(api.Config == cfg, "Froze: embedded Config differs from the input")
	v.Cover("end")
}
