//go:build verif

package sonic

import (
	"encoding/json"
	"fmt"
	"math"
	"os"
	"reflect"
	"strconv"

	v "github.com/bytedance/sonic/internal/zzverif"
)

// VerifT3Replay replays a Tier-3 counterexample (found on the dumped JIT instruction list)
// against the real build through the public API: the model's input text (or the text of the
// model's number) is decoded into the same destination type by sonic and by encoding/json;
// a difference in error-or-not or in the decoded value confirms the violation.
func VerifT3Replay() {
	var text string
	switch os.Getenv("VERIF_T3_KIND") {
	case "double":
		text = strconv.FormatFloat(math.Float64frombits(v.Uint64("double")), 'g', 17, 64)
	case "integer":
		if os.Getenv("VERIF_T3_UNSIGNED") == "1" {
			text = strconv.FormatUint(v.Uint64("integer"), 10)
		} else {
			text = strconv.FormatInt(int64(v.Uint64("integer")), 10)
		}
	default:
		n := int(v.Uint64("len"))
		ic := int(v.Uint64("ic"))
		_ = v.Uint64("flags")
		b := make([]byte, 0, n)
		for i := 0; i < 8; i++ {
			c := byte(v.Uint64(fmt.Sprintf("in[%d]", i)))
			if i < n {
				b = append(b, c)
			}
		}
		if ic > len(b) {
			ic = len(b)
		}
		text = string(b[ic:])
	}
	var mk func() interface{}
	switch os.Getenv("VERIF_T3_TYPE") {
	case "int8":
		mk = func() interface{} { return new(int8) }
	case "int16":
		mk = func() interface{} { return new(int16) }
	case "int32":
		mk = func() interface{} { return new(int32) }
	case "int64":
		mk = func() interface{} { return new(int64) }
	case "uint8":
		mk = func() interface{} { return new(uint8) }
	case "uint16":
		mk = func() interface{} { return new(uint16) }
	case "uint32":
		mk = func() interface{} { return new(uint32) }
	case "uint64":
		mk = func() interface{} { return new(uint64) }
	case "float32":
		mk = func() interface{} { return new(float32) }
	case "float64":
		mk = func() interface{} { return new(float64) }
	case "bool":
		mk = func() interface{} { return new(bool) }
	case "slice_int":
		mk = func() interface{} { return new([]int) }
	case "generic":
		mk = func() interface{} { return new(interface{}) }
	default:
		panic("VERIF_T3_TYPE not set")
	}
	a, b := mk(), mk()
	e1 := ConfigStd.UnmarshalFromString(text, a)
	e2 := json.Unmarshal([]byte(text), b)
	v.Assert((e1 == nil) == (e2 == nil), fmt.Sprintf("sonic and encoding/json disagree on accepting %q into %s: sonic err=%v, encoding/json err=%v", text, os.Getenv("VERIF_T3_TYPE"), e1, e2))
	if e1 == nil && e2 == nil {
		v.Assert(reflect.DeepEqual(a, b), fmt.Sprintf("decoded values differ for %q", text))
	}
}
