//go:build verif

package sonic

import (
	"encoding/json"
	"fmt"
	"math"
	"math/big"
	"os"
	"reflect"
	"runtime/debug"
	"strconv"
	"strings"

	"github.com/bytedance/sonic/encoder"
	v "github.com/bytedance/sonic/internal/zzverif"
)

// VerifT3Replay replays a Tier-3 counterexample (found on the dumped JIT instruction list)
// against the real build through the public API: the model's input text (or the text of the
// model's number) is decoded into the same destination type by sonic and by encoding/json;
// a difference in error-or-not or in the decoded value confirms the violation.
func VerifT3Replay() {
	var text string
	switch os.Getenv("VERIF_T3_KIND") {
	case "gentable":
		verifT3GenericTables()
		return
	case "gendepth":
		verifT3GenericDepth()
		return
	case "b64":
		verifT3Base64()
		return
	case "encbuf":
		verifT3EncBuffer()
		return
	case "array":
		verifT3Array()
		return
	case "tokens":
		verifT3Tokens()
		return
	case "slice":
		verifT3Slice()
		return
	case "enctoodeep":
		verifT3TooDeep()
		return
	case "genblank":
		verifT3GenericBlank()
		return
	case "mapmarshal":
		verifT3MapMarshal()
		return
	case "slicemarshal":
		verifT3SliceMarshal()
		return
	case "omitempty":
		verifT3OmitEmpty()
		return
	case "encdepth":
		verifT3EncDepth()
		return
	case "structtag":
		verifT3StructTag()
		return
	case "structopts":
		verifT3StructOptions()
		return
	case "unquoteflags":
		verifT3UnquoteFlags()
		return
	case "mapkey":
		text = `{"` + strconv.FormatUint(v.Uint64("integer"), 10) + `":1}`
	case "double":
		text = strconv.FormatFloat(math.Float64frombits(v.Uint64("double")), 'g', 17, 64)
	case "integer":
		if os.Getenv("VERIF_T3_UNSIGNED") == "1" {
			text = strconv.FormatUint(v.Uint64("integer"), 10)
		} else {
			text = strconv.FormatInt(int64(v.Uint64("integer")), 10)
		}
	default:
		n := int(v.Uint64("len"))
		ic := int(v.Uint64("ic"))
		_ = v.Uint64("flags")
		b := make([]byte, 0, n)
		for i := 0; i < 8; i++ {
			c := byte(v.Uint64(fmt.Sprintf("in[%d]", i)))
			if i < n {
				b = append(b, c)
			}
		}
		if ic > len(b) {
			ic = len(b)
		}
		text = string(b[ic:])
	}
	var mk func() interface{}
	switch os.Getenv("VERIF_T3_TYPE") {
	case "int8":
		mk = func() interface{} { return new(int8) }
	case "int16":
		mk = func() interface{} { return new(int16) }
	case "int32":
		mk = func() interface{} { return new(int32) }
	case "int64":
		mk = func() interface{} { return new(int64) }
	case "uint8":
		mk = func() interface{} { return new(uint8) }
	case "uint16":
		mk = func() interface{} { return new(uint16) }
	case "uint32":
		mk = func() interface{} { return new(uint32) }
	case "uint64":
		mk = func() interface{} { return new(uint64) }
	case "float32":
		mk = func() interface{} { return new(float32) }
	case "float64":
		mk = func() interface{} { return new(float64) }
	case "bool":
		mk = func() interface{} { return new(bool) }
	case "slice_int":
		mk = func() interface{} { return new([]int) }
	case "generic":
		mk = func() interface{} { return new(interface{}) }
	case "map_u32":
		mk = func() interface{} { return new(map[uint32]int) }
	default:
		panic("VERIF_T3_TYPE not set")
	}
	a, b := mk(), mk()
	e1 := ConfigStd.UnmarshalFromString(text, a)
	e2 := json.Unmarshal([]byte(text), b)
	v.Assert((e1 == nil) == (e2 == nil), fmt.Sprintf("sonic and encoding/json disagree on accepting %q into %s: sonic err=%v, encoding/json err=%v", text, os.Getenv("VERIF_T3_TYPE"), e1, e2))
	if e1 == nil && e2 == nil {
		v.Assert(reflect.DeepEqual(a, b), fmt.Sprintf("decoded values differ for %q", text))
	}
	if os.Getenv("VERIF_T3_KIND") == "double" {
		verifT3LongMidpoints()
	}
	// every proper prefix of the text, placed so that it ends at an inaccessible page: a load
	// past the end of the input faults here; a truncated document must be an error
	for cut := 1; cut < len(text) && cut <= 24; cut++ {
		c := mk()
		e := ConfigStd.UnmarshalFromString(v.GuardString(text[:cut]), c)
		if json.Unmarshal([]byte(text[:cut]), mk()) != nil {
			v.Assert(e != nil, fmt.Sprintf("sonic accepts the truncated document %q into %s", text[:cut], os.Getenv("VERIF_T3_TYPE")))
		}
	}
}

func verifT3Decode(text string) (val interface{}, err error, pan interface{}) {
	defer func() {
		if r := recover(); r != nil {
			pan = r
		}
	}()
	err = ConfigStd.UnmarshalFromString(text, &val)
	return
}

// verifT3GenericTables: a structural character must mean the same with and without white
// space before it (the generic decoder reaches it through two different dispatch tables).
func verifT3GenericTables() {
	_ = v.Uint64("byte")
	var docs []string
	for _, t := range []string{`[1@,2]`, `{"a"@:1}`, `@[1]`, `[@[1]]`, `[1@]`, `{"a":1@}`, `@{"a":1}`, `[@{"a":1}]`, `[1@2]`, `[1@:2]`, `{"a"@,1}`, `{"a"@1}`, `[1@}`, `{"a":1@]`} {
		for _, ws := range []string{"", " ", "    ", "     ", " \t\n\r \t\n\r ", "                                                                    "} {
			docs = append(docs, strings.Replace(t, "@", ws, 1))
		}
	}
	for _, d := range docs {
		a, e1, pan := verifT3Decode(d)
		v.Assert(pan == nil, fmt.Sprintf("decoding %q into interface{} panicked: %v", d, pan))
		var b interface{}
		e2 := json.Unmarshal([]byte(d), &b)
		v.Assert((e1 == nil) == (e2 == nil), fmt.Sprintf("sonic and encoding/json disagree on accepting %q into interface{}: sonic err=%v, encoding/json err=%v", d, e1, e2))
		if e1 == nil && e2 == nil {
			v.Assert(reflect.DeepEqual(a, b), fmt.Sprintf("decoded values differ for %q", d))
		}
	}
}

// verifT3GenericDepth: documents nested to the depth of the counterexample (and its
// neighbours), entered through object keys and through array elements, with one more sibling
// in the outermost container so that the root slot is used again afterwards: no panic, and a
// successful decode equals encoding/json's.
func verifT3GenericDepth() {
	_ = v.Uint64("handler")
	d := int(v.Uint64("depth"))
	rep := func(s string, n int) string {
		b := make([]byte, 0, len(s)*n)
		for i := 0; i < n; i++ {
			b = append(b, s...)
		}
		return string(b)
	}
	for n := d; n <= d+2; n++ {
		if n < 2 {
			continue
		}
		docs := []string{
			rep(`{"a":`, n) + `null` + rep(`}`, n-1) + `,"b":1}`,
			`[` + rep(`{"a":`, n-1) + `null` + rep(`}`, n-1) + `,1]`,
			rep(`[`, n) + `null` + rep(`]`, n-1) + `,1]`,
			`{"a":` + rep(`[`, n-1) + `null` + rep(`]`, n-1) + `,"b":1}`,
		}
		for _, doc := range docs {
			a, e1, pan := verifT3Decode(doc)
			v.Assert(pan == nil, fmt.Sprintf("decoding a document nested %d deep into interface{} panicked: %v", n, pan))
			if e1 == nil {
				var b interface{}
				e2 := json.Unmarshal([]byte(doc), &b)
				v.Assert(e2 == nil && reflect.DeepEqual(a, b), fmt.Sprintf("document nested %d deep decoded to a different value than encoding/json's", n))
			}
		}
	}
}

// verifT3Base64: a base64 text of the model's length (whole quanta "YWJj", then a tail that
// the decoder accepts for that remainder) decoded into []byte: no panic, the result never has
// len > cap (a write past the allocation), and accept/value agree with encoding/json.
func verifT3Base64() {
	n := int(v.Uint64("b64len"))
	if n < 0 || n > 1<<16 {
		return
	}
	// base64 text written with JSON escapes must decode as encoding/json decodes it, at every CPU level
	for _, text := range []string{`"\/\/\/\/"`, `"YWI\/Yw=="`, `"YW\nJj"`, `"YWJj\u0059WJj"`} {
		var a, b []byte
		e1 := ConfigStd.UnmarshalFromString(text, &a)
		e2 := json.Unmarshal([]byte(text), &b)
		v.Assert((e1 == nil) == (e2 == nil), fmt.Sprintf("sonic and encoding/json disagree on accepting %s into []byte (SONIC_MODE=%q): sonic err=%v, encoding/json err=%v", text, os.Getenv("SONIC_MODE"), e1, e2))
		if e1 == nil && e2 == nil {
			v.Assert(string(a) == string(b), fmt.Sprintf("decoded bytes differ for %s", text))
		}
	}
	tails := map[int][]string{0: {""}, 1: {"Y"}, 2: {"YQ", "Y="}, 3: {"YQ=", "YWI"}}
	for _, tail := range tails[n%4] {
		text := `"` + strings.Repeat("YWJj", n/4) + tail + `"`
		var a, b []byte
		var e1 error
		func() {
			defer func() {
				if r := recover(); r != nil {
					v.Assert(false, fmt.Sprintf("decoding %s into []byte panicked: %v", text, r))
				}
			}()
			e1 = ConfigStd.UnmarshalFromString(text, &a)
		}()
		v.Assert(len(a) <= cap(a), fmt.Sprintf("decoding %s into []byte returned a slice with len %d > cap %d: the base64 decoder wrote past its allocation", text, len(a), cap(a)))
		e2 := json.Unmarshal([]byte(text), &b)
		v.Assert((e1 == nil) == (e2 == nil), fmt.Sprintf("sonic and encoding/json disagree on accepting %s into []byte: sonic err=%v, encoding/json err=%v", text, e1, e2))
		if e1 == nil && e2 == nil {
			v.Assert(string(a) == string(b), fmt.Sprintf("decoded bytes differ for %s", text))
		}
	}
}

type verifQS struct {
	A string `json:"a,string"`
}

// verifT3EncBuffer: encoder.EncodeInto on canary-filled arrays, capacities around the model's
// and strings whose quoting expands (escapes): nothing may be written past the capacity of the
// caller's buffer, the result never has len > cap, and the text equals encoding/json's.
func verifT3EncBuffer() {
	c0 := int(v.Uint64("cap"))
	_ = v.Uint64("len")
	_ = v.Uint64("strlen")
	var vals []interface{}
	switch os.Getenv("VERIF_T3_TYPE") {
	case "qstring":
		for _, sv := range []string{"", "a", "a\"b", "\x01", "ab\x01\"", "\"\"\"\"", "abcd", strings.Repeat("\x01", 400), strings.Repeat("a\x02", 3000)} {
			vals = append(vals, verifQS{A: sv})
		}
	case "int8":
		vals = []interface{}{int8(math.MinInt8), int8(math.MaxInt8), int8(0), int8(-1), int8(v.Uint64("scalar"))}
	case "int16":
		vals = []interface{}{int16(math.MinInt16), int16(math.MaxInt16), int16(0), int16(v.Uint64("scalar"))}
	case "int32":
		vals = []interface{}{int32(math.MinInt32), int32(math.MaxInt32), int32(0), int32(v.Uint64("scalar"))}
	case "int64":
		vals = []interface{}{int64(math.MinInt64), int64(math.MaxInt64), int64(0), int64(v.Uint64("scalar"))}
	case "uint8":
		vals = []interface{}{uint8(math.MaxUint8), uint8(0), uint8(v.Uint64("scalar"))}
	case "uint16":
		vals = []interface{}{uint16(math.MaxUint16), uint16(0), uint16(v.Uint64("scalar"))}
	case "uint32":
		vals = []interface{}{uint32(math.MaxUint32), uint32(0), uint32(v.Uint64("scalar"))}
	case "uint64":
		vals = []interface{}{uint64(math.MaxUint64), uint64(0), uint64(v.Uint64("scalar"))}
	case "float64":
		vals = []interface{}{-2.2250738585072014e-308, -1.7976931348623157e308, 0.0, 5e-324, 1e21, 123456.789}
	case "float32":
		vals = []interface{}{float32(-1.17549435e-38), float32(-3.4028235e38), float32(0), float32(1e21)}
	case "bool":
		vals = []interface{}{true, false}
	case "slice_string":
		vals = []interface{}{[]string{}, []string{""}, []string{"a\"", "\x01\x02"}, []string{"ab", "cd", "e"}, []string(nil)}
	case "bytes":
		vals = []interface{}{[]byte{}, []byte{1}, []byte{1, 2}, []byte{1, 2, 3}, []byte{1, 2, 3, 4}, []byte("hello, world"), []byte(nil)}
	default:
		for _, sv := range []string{"", "a", "a\"b", "\x01", "ab\x01\"", "\"\"\"\"", "abcd", strings.Repeat("\x01", 400), strings.Repeat("a\x02", 3000)} {
			vals = append(vals, sv)
		}
	}
	for _, val := range vals {
		sv := fmt.Sprint(val)
		want, _ := json.Marshal(val)
		step := 1
		if len(want) > 200 {
			step = len(want)/7 + 1
		}
		for c := 0; c <= c0+len(want)+8; c += step {
			for l := 0; l <= c && l <= 2; l++ {
				arr := make([]byte, c+64)
				for i := range arr {
					arr[i] = 0xA5
				}
				buf := arr[0:l:c]
				err := encoder.EncodeInto(&buf, val, 0)
				v.Assert(err == nil, fmt.Sprintf("EncodeInto(%q) fails: %v", sv, err))
				v.Assert(len(buf) <= cap(buf), fmt.Sprintf("EncodeInto(%q) with len %d cap %d returns len %d > cap %d", sv, l, c, len(buf), cap(buf)))
				for i := c; i < len(arr); i++ {
					if arr[i] != 0xA5 {
						v.Assert(false, fmt.Sprintf("EncodeInto(%q) with len %d cap %d wrote %q at offset %d, past the capacity of the caller's buffer", sv, l, c, arr[i], i))
						break
					}
				}
				if err == nil && len(buf) <= cap(buf) && len(buf) >= l {
					v.Assert(string(buf[l:]) == string(want), fmt.Sprintf("EncodeInto(%q) appended %q, encoding/json gives %q", sv, buf[l:], want))
				}
			}
		}
	}
}

// verifT3Array: documents decoded into a PREFILLED [2]int by sonic and by encoding/json (the
// model's text and the short forms around it): same error-or-not, same resulting array.
func verifT3Array() {
	n := int(v.Uint64("len"))
	b := make([]byte, 0, 8)
	for i := 0; i < 8; i++ {
		c := byte(v.Uint64(fmt.Sprintf("in[%d]", i)))
		if i < n {
			b = append(b, c)
		}
	}
	for _, text := range []string{string(b), "[]", " [ ] ", "[1]", "[1,2]", "[1,2,3]", "null", "[ 1 , 2 ]", "[1,]", "[,]"} {
		a1 := [2]int{7, 8}
		a2 := [2]int{7, 8}
		var e1 error
		func() {
			defer func() {
				if r := recover(); r != nil {
					v.Assert(false, fmt.Sprintf("decoding %q into [2]int panicked: %v", text, r))
				}
			}()
			e1 = ConfigStd.UnmarshalFromString(text, &a1)
		}()
		e2 := json.Unmarshal([]byte(text), &a2)
		v.Assert((e1 == nil) == (e2 == nil), fmt.Sprintf("sonic and encoding/json disagree on accepting %q into [2]int: sonic err=%v, encoding/json err=%v", text, e1, e2))
		if e1 == nil && e2 == nil {
			v.Assert(a1 == a2, fmt.Sprintf("decoding %q into a prefilled [2]int{7,8}: sonic gives %v, encoding/json %v", text, a1, a2))
		}
	}
}

type verifS1 struct {
	A int8
	B bool
}

// verifT3Tokens: the token sequence the monitor saw the generated struct decoder accept,
// spelled as JSON text, decoded into the same struct by sonic and by encoding/json.
func verifT3Tokens() {
	var b strings.Builder
	for i := 0; i < 24; i++ {
		t := byte(v.Uint64(fmt.Sprintf("tok[%d]", i)))
		switch t {
		case '{', '}', '[', ']', ',', ':', '"':
			b.WriteByte(t)
		case 'n':
			b.WriteString("null")
		case 'i', 's':
			b.WriteString("1")
		case 'R':
			b.WriteString("1]")
		case 'M':
			b.WriteString("1\"")
		case 'b':
			b.WriteString("true")
		case 't':
			b.WriteString(`"x"`)
		case 0:
		default:
			b.WriteByte(t)
			b.WriteByte('"')
		}
	}
	text := b.String()
	if ty := os.Getenv("VERIF_T3_TYPE"); ty != "struct_s1" {
		// other destination types: same comparison through the generic path
		var mk func() interface{}
		switch ty {
		case "slice_int":
			mk = func() interface{} { return new([]int) }
		case "array2_int":
			mk = func() interface{} { return new([2]int) }
		case "map_u32":
			mk = func() interface{} { return new(map[uint32]int) }
		case "bool":
			mk = func() interface{} { return new(bool) }
		case "struct_empty":
			mk = func() interface{} { return new(struct{}) }
		default:
			panic("VERIF_T3_TYPE not set for a token replay")
		}
		a, c := mk(), mk()
		e1 := ConfigStd.UnmarshalFromString(text, a)
		e2 := json.Unmarshal([]byte(text), c)
		v.Assert((e1 == nil) == (e2 == nil), fmt.Sprintf("sonic and encoding/json disagree on accepting %q into %s: sonic err=%v, encoding/json err=%v", text, ty, e1, e2))
		if e1 == nil && e2 == nil {
			v.Assert(reflect.DeepEqual(a, c), fmt.Sprintf("decoded values differ for %q", text))
		}
		return
	}
	var s1, s2 verifS1
	var e1 error
	func() {
		defer func() {
			if r := recover(); r != nil {
				v.Assert(false, fmt.Sprintf("decoding %q panicked: %v", text, r))
			}
		}()
		e1 = ConfigStd.UnmarshalFromString(text, &s1)
	}()
	e2 := json.Unmarshal([]byte(text), &s2)
	v.Assert((e1 == nil) == (e2 == nil), fmt.Sprintf("sonic and encoding/json disagree on accepting %q into struct{A int8; B bool}: sonic err=%v, encoding/json err=%v", text, e1, e2))
	if e1 == nil && e2 == nil {
		v.Assert(s1 == s2, fmt.Sprintf("decoded values differ for %q: %+v vs %+v", text, s1, s2))
	}
}

// verifT3StructOptions: DisallowUnknownFields x CaseSensitive on documents with exact, wrong-case
// and unknown keys, decoded into struct{A int8; B bool}: an error is returned exactly when
// DisallowUnknownFields is set and some key matches no field under the matching rule in force
// (exact; or case-insensitive unless CaseSensitive).
// verifT3UnquoteFlags: an invalid \\u escape (a lone surrogate) is an error exactly when
// UseUnicodeErrors is set and U+FFFD otherwise, for every kind of destination that reaches
// native unquote: string, interface{}, map key, and a `,string` string field (unquoted twice).
func verifT3UnquoteFlags() {
	_ = v.Uint64("flags_df")
	type qs struct {
		S string `json:",string"`
	}
	for _, strict := range []bool{false, true} {
		api := Config{UseUnicodeErrors: strict}.Froze()
		var s string
		err := api.UnmarshalFromString(`"x\ud800y"`, &s)
		v.Assert((err != nil) == strict, fmt.Sprintf("UseUnicodeErrors=%v: string destination: err=%v", strict, err))
		var i interface{}
		err = api.UnmarshalFromString(`"x\ud800y"`, &i)
		v.Assert((err != nil) == strict, fmt.Sprintf("UseUnicodeErrors=%v: interface{} destination: err=%v", strict, err))
		var m map[string]interface{}
		err = api.UnmarshalFromString(`{"k\ud800":"v\ud800"}`, &m)
		v.Assert((err != nil) == strict, fmt.Sprintf("UseUnicodeErrors=%v: map[string]interface{} destination: err=%v", strict, err))
		var q qs
		err = api.UnmarshalFromString(`{"S":"\"x\\ud800y\""}`, &q)
		v.Assert((err != nil) == strict, fmt.Sprintf("UseUnicodeErrors=%v: `,string` string field: err=%v value=%q", strict, err, q.S))
	}
}

func verifT3StructOptions() {
	_ = v.Uint64("flags")
	type doc struct {
		text                  string
		hasUnknown, wrongCase bool
	}
	docs := []doc{
		{`{"A":1}`, false, false}, {`{"a":1}`, false, true}, {`{"zzz":1}`, true, false},
		{`{"A":1,"zzz":true}`, true, false}, {`{"A":1,"b":true}`, false, true}, {`{"A":1,"B":true}`, false, false},
	}
	for _, du := range []bool{false, true} {
		for _, cs := range []bool{false, true} {
			api := Config{DisallowUnknownFields: du, CaseSensitive: cs}.Froze()
			for _, d := range docs {
				var s1 verifS1
				err := api.UnmarshalFromString(d.text, &s1)
				wantErr := du && (d.hasUnknown || (cs && d.wrongCase))
				v.Assert((err != nil) == wantErr, fmt.Sprintf("DisallowUnknownFields=%v CaseSensitive=%v: decoding %s into struct{A int8; B bool} gives err=%v, documented behaviour: error=%v", du, cs, d.text, err, wantErr))
			}
		}
	}
}

// verifT3Slice: documents decoded into a nil []int and into a slice that already has storage
// (cap 1, stale data) by sonic and by encoding/json: same error-or-not, same resulting slice.
func verifT3Slice() {
	n := int(v.Uint64("len"))
	b := make([]byte, 0, 16)
	for i := 0; i < 12; i++ {
		c := byte(v.Uint64(fmt.Sprintf("in[%d]", i)))
		if i < n {
			b = append(b, c)
		}
	}
	for _, text := range []string{string(b), "[]", "[1]", "[1,2]", "[1,2,3]", "[1,2,3,4,5]", "null", "[null]", "[null,2]", "[1,]", "[,]"} {
		for _, reuse := range []bool{false, true} {
			var a1, a2 []int
			if reuse {
				a1, a2 = make([]int, 1, 1), make([]int, 1, 1)
				a1[0], a2[0] = 7, 7
			}
			var e1 error
			func() {
				defer func() {
					if r := recover(); r != nil {
						v.Assert(false, fmt.Sprintf("decoding %q into []int panicked: %v", text, r))
					}
				}()
				e1 = ConfigStd.UnmarshalFromString(text, &a1)
			}()
			e2 := json.Unmarshal([]byte(text), &a2)
			v.Assert((e1 == nil) == (e2 == nil), fmt.Sprintf("sonic and encoding/json disagree on accepting %q into []int: sonic err=%v, encoding/json err=%v", text, e1, e2))
			if e1 == nil && e2 == nil {
				v.Assert(reflect.DeepEqual(a1, a2), fmt.Sprintf("decoding %q into []int (reused storage: %v): sonic gives %v, encoding/json %v", text, reuse, a1, a2))
			}
		}
	}
}

type verifMapM map[string]int

func (m verifMapM) MarshalJSON() ([]byte, error) { return []byte(`{"n":0}`), nil }

type verifMapT map[string]int

func (m verifMapT) MarshalText() ([]byte, error) { return []byte("labels"), nil }

// verifT3MapMarshal: nil and non-nil values of map types that implement a marshaler interface,
// in non-addressable positions (top level, interface contents, map values, fields of a struct
// passed by value): sonic and encoding/json produce the same text.
func verifT3MapMarshal() {
	type holder struct {
		A verifMapM
		B verifMapT
	}
	vals := []interface{}{verifMapM(nil), verifMapT(nil), verifMapM{"x": 1}, verifMapT{"x": 1}, holder{}, map[string]verifMapM{"k": nil}, []interface{}{verifMapM(nil)}}
	for _, val := range vals {
		want, e2 := json.Marshal(val)
		got, e1 := ConfigStd.Marshal(val)
		v.Assert((e1 == nil) == (e2 == nil), fmt.Sprintf("sonic and encoding/json disagree on failing for %T", val))
		if e1 == nil && e2 == nil {
			v.Assert(string(got) == string(want), fmt.Sprintf("Marshal(%#v): sonic gives %s, encoding/json %s", val, got, want))
		}
	}
}

type verifPM struct{ N int }

func (p *verifPM) MarshalJSON() ([]byte, error) { return []byte(`"J"`), nil }

type verifPT struct{ N int }

func (p *verifPT) MarshalText() ([]byte, error) { return []byte("T"), nil }

// verifT3SliceMarshal: slices whose element pointer type implements a marshaler interface,
// reached without going through a pointer (top level by value, interface contents, map values,
// fields of a struct passed by value): sonic and encoding/json produce the same text.
func verifT3SliceMarshal() {
	type holder struct {
		A []verifPM
		B []verifPT
	}
	vals := []interface{}{[]verifPM{{1}, {2}}, []verifPT{{1}}, holder{A: []verifPM{{1}}, B: []verifPT{{2}}}, map[string][]verifPM{"k": {{3}}}, []interface{}{[]verifPM{{4}}}}
	for _, val := range vals {
		want, e2 := json.Marshal(val)
		got, e1 := ConfigStd.Marshal(val)
		v.Assert((e1 == nil) == (e2 == nil), fmt.Sprintf("sonic and encoding/json disagree on failing for %T", val))
		if e1 == nil && e2 == nil {
			v.Assert(string(got) == string(want), fmt.Sprintf("Marshal(%#v): sonic gives %s, encoding/json %s", val, got, want))
		}
	}
}

// verifT3OmitEmpty: a struct with one omitempty scalar field holding the model's bits: what
// sonic writes decodes (encoding/json) to the same value, and the field is left out only when it
// is zero.
func verifT3OmitEmpty() {
	bits := v.Uint64("scalar")
	var val, back interface{}
	switch os.Getenv("VERIF_T3_TYPE") {
	case "omit_string":
		type T struct {
			A string `json:"a,omitempty"`
		}
		n := int(v.Uint64("strlen"))
		val, back = T{strings.Repeat("s", n)}, &T{}
	case "omit_bytes":
		type T struct {
			A []byte `json:"a,omitempty"`
		}
		n := int(v.Uint64("byteslen"))
		val, back = T{[]byte(strings.Repeat("s", n))}, &T{}
	case "omit_float64":
		type T struct {
			A float64 `json:"a,omitempty"`
		}
		f := math.Float64frombits(bits)
		if f != f || math.IsInf(f, 0) {
			return
		}
		val, back = T{f}, &T{}
	case "omit_float32":
		type T struct {
			A float32 `json:"a,omitempty"`
		}
		f := math.Float32frombits(uint32(bits))
		if f != f || math.IsInf(float64(f), 0) {
			return
		}
		val, back = T{f}, &T{}
	case "omit_int64":
		type T struct {
			A int64 `json:"a,omitempty"`
		}
		val, back = T{int64(bits)}, &T{}
	case "omit_int32":
		type T struct {
			A int32 `json:"a,omitempty"`
		}
		val, back = T{int32(bits)}, &T{}
	case "omit_int16":
		type T struct {
			A int16 `json:"a,omitempty"`
		}
		val, back = T{int16(bits)}, &T{}
	case "omit_int8":
		type T struct {
			A int8 `json:"a,omitempty"`
		}
		val, back = T{int8(bits)}, &T{}
	case "omit_bool":
		type T struct {
			A bool `json:"a,omitempty"`
		}
		val, back = T{bits&1 != 0}, &T{}
	default:
		return
	}
	got, err := ConfigDefault.Marshal(val)
	v.Assert(err == nil, "Marshal fails on a struct with one scalar field")
	if err != nil {
		return
	}
	v.Assert(json.Unmarshal(got, back) == nil, fmt.Sprintf("sonic output %s is rejected by encoding/json", got))
	v.Assert(reflect.DeepEqual(reflect.ValueOf(back).Elem().Interface(), val), fmt.Sprintf("Marshal(%#v) gives %s, which decodes to %#v: an omitempty field holding a non-zero value is left out", val, got, reflect.ValueOf(back).Elem().Interface()))
}

// verifT3StructTag: one-field structs with each kind of json tag: sonic writes what
// encoding/json writes.
func verifT3StructTag() {
	b := v.Uint64("scalar")&1 != 0
	vals := []interface{}{
		struct {
			A bool `json:"-,"`
		}{b}, struct {
			A bool `json:"-"`
		}{b}, struct {
			A bool `json:"nm"`
		}{b}, struct{ Ab bool }{b}, struct {
			Ab bool `json:",omitempty"`
		}{b}, struct{ ab bool }{b}, struct {
			A bool `json:"nm,string"`
		}{b},
	}
	for _, val := range vals {
		want, e2 := json.Marshal(val)
		got, e1 := ConfigStd.Marshal(val)
		v.Assert(e1 == nil && e2 == nil, fmt.Sprintf("Marshal fails for %T", val))
		if e1 == nil && e2 == nil {
			v.Assert(string(got) == string(want), fmt.Sprintf("Marshal(%#v): sonic gives %s, encoding/json %s", val, got, want))
		}
	}
}

// verifT3LongMidpoints: exact decimal spellings of m*2^-1075 (halfway between two float64
// neighbours, 750..767 significant digits), each also with one more digit that pushes it above
// the midpoint: sonic decodes to what strconv.ParseFloat gives.
func verifT3LongMidpoints() {
	for _, m := range []int64{1, 3, 5, 1<<52 + 1, 1<<53 - 1, 1<<53 + 1} {
		r := new(big.Rat).SetFrac(big.NewInt(m), new(big.Int).Lsh(big.NewInt(1), 1075))
		exact := r.FloatString(1075)
		for _, text := range []string{exact, exact + "1", strings.TrimRight(exact, "0")} {
			want, err := strconv.ParseFloat(text, 64)
			if err != nil {
				continue
			}
			var got float64
			e := ConfigStd.UnmarshalFromString(text, &got)
			v.Assert(e == nil, fmt.Sprintf("sonic rejects a %d-byte number literal", len(text)))
			v.Assert(math.Float64bits(got) == math.Float64bits(want), fmt.Sprintf("a %d-digit literal near a rounding midpoint (m=%d) decodes to %x, strconv.ParseFloat gives %x", len(text), m, math.Float64bits(got), math.Float64bits(want)))
			var iface interface{}
			if ConfigStd.UnmarshalFromString(text, &iface) == nil {
				f, _ := iface.(float64)
				v.Assert(math.Float64bits(f) == math.Float64bits(want), fmt.Sprintf("a %d-digit literal near a rounding midpoint (m=%d) decodes into interface{} as %x, strconv.ParseFloat gives %x", len(text), m, math.Float64bits(f), math.Float64bits(want)))
			}
		}
	}
}

// verifT3EncDepth: values nested to the depths around the encoder's limit: the back end in use
// encodes up to MaxStack-1 (4095) levels and reports an error from MaxStack on - the rule both
// back ends are held to.
func verifT3EncDepth() {
	_ = v.Uint64("sp")
	for d := 4093; d <= 4098; d++ {
		var val interface{} = 1
		for i := 0; i < d; i++ {
			val = []interface{}{val}
		}
		_, err := ConfigDefault.Marshal(val)
		if d <= 4095 {
			v.Assert(err == nil, fmt.Sprintf("a value nested %d levels deep is refused", d))
		} else {
			v.Assert(err != nil, fmt.Sprintf("a value nested %d levels deep is encoded: the limit differs from the other back end's", d))
		}
	}
}

// verifT3GenericBlank: the model's text ends exactly at a page boundary followed by an
// inaccessible page; decoding it into interface{} without a copy must not fault, and must give
// the verdict encoding/json gives.
func verifT3GenericBlank() {
	n := int(v.Uint64("len"))
	ic := int(v.Uint64("ic"))
	if n > 8 {
		n = 8
	}
	text := v.StringNGuard("in", n, 8)
	if ic > len(text) {
		ic = len(text)
	}
	for _, pre := range []string{"", "[1"} {
		_ = pre
	}
	var x1, x2 interface{}
	e1 := UnmarshalString(text[ic:], &x1)
	e2 := json.Unmarshal([]byte(text[ic:]), &x2)
	v.Assert((e1 == nil) == (e2 == nil), fmt.Sprintf("sonic and encoding/json disagree on accepting %q into interface{}", text[ic:]))
	// and the classic shapes: a container cut right after four or more blanks
	for _, doc := range []string{"[1    ", "{\"a\":1     ", "[[1]\n\t  ", "    "} {
		g := v.GuardString(doc)
		var y interface{}
		err := UnmarshalString(g, &y)
		v.Assert(err != nil, fmt.Sprintf("truncated document %q accepted", doc))
	}
}

type verifCycle struct {
	Next *verifCycle
}

// verifT3TooDeep: marshalling cyclic data returns an error whose text can be read.
func verifT3TooDeep() {
	c := &verifCycle{}
	c.Next = c
	defer func() {
		if r := recover(); r != nil {
			v.Assert(false, fmt.Sprintf("formatting the too-deep error panicked: %v", r))
		}
	}()
	old := debug.SetPanicOnFault(true)
	defer debug.SetPanicOnFault(old)
	_, err := ConfigStd.Marshal(c)
	v.Assert(err != nil, "cyclic value marshalled without error")
	if err != nil {
		msg := err.Error()
		v.Assert(len(msg) > 0 && len(msg) < 4096, fmt.Sprintf("too-deep error message has length %d", len(msg)))
	}
}
