//go:build verif

package sonic

import (
	"encoding/json"
	"fmt"
	"math"
	"os"
	"reflect"
	"strconv"
	"strings"

	v "github.com/bytedance/sonic/internal/zzverif"
)

// VerifT3Replay replays a Tier-3 counterexample (found on the dumped JIT instruction list)
// against the real build through the public API: the model's input text (or the text of the
// model's number) is decoded into the same destination type by sonic and by encoding/json;
// a difference in error-or-not or in the decoded value confirms the violation.
func VerifT3Replay() {
	var text string
	switch os.Getenv("VERIF_T3_KIND") {
	case "gentable":
		verifT3GenericTables()
		return
	case "gendepth":
		verifT3GenericDepth()
		return
	case "double":
		text = strconv.FormatFloat(math.Float64frombits(v.Uint64("double")), 'g', 17, 64)
	case "integer":
		if os.Getenv("VERIF_T3_UNSIGNED") == "1" {
			text = strconv.FormatUint(v.Uint64("integer"), 10)
		} else {
			text = strconv.FormatInt(int64(v.Uint64("integer")), 10)
		}
	default:
		n := int(v.Uint64("len"))
		ic := int(v.Uint64("ic"))
		_ = v.Uint64("flags")
		b := make([]byte, 0, n)
		for i := 0; i < 8; i++ {
			c := byte(v.Uint64(fmt.Sprintf("in[%d]", i)))
			if i < n {
				b = append(b, c)
			}
		}
		if ic > len(b) {
			ic = len(b)
		}
		text = string(b[ic:])
	}
	var mk func() interface{}
	switch os.Getenv("VERIF_T3_TYPE") {
	case "int8":
		mk = func() interface{} { return new(int8) }
	case "int16":
		mk = func() interface{} { return new(int16) }
	case "int32":
		mk = func() interface{} { return new(int32) }
	case "int64":
		mk = func() interface{} { return new(int64) }
	case "uint8":
		mk = func() interface{} { return new(uint8) }
	case "uint16":
		mk = func() interface{} { return new(uint16) }
	case "uint32":
		mk = func() interface{} { return new(uint32) }
	case "uint64":
		mk = func() interface{} { return new(uint64) }
	case "float32":
		mk = func() interface{} { return new(float32) }
	case "float64":
		mk = func() interface{} { return new(float64) }
	case "bool":
		mk = func() interface{} { return new(bool) }
	case "slice_int":
		mk = func() interface{} { return new([]int) }
	case "generic":
		mk = func() interface{} { return new(interface{}) }
	default:
		panic("VERIF_T3_TYPE not set")
	}
	a, b := mk(), mk()
	e1 := ConfigStd.UnmarshalFromString(text, a)
	e2 := json.Unmarshal([]byte(text), b)
	v.Assert((e1 == nil) == (e2 == nil), fmt.Sprintf("sonic and encoding/json disagree on accepting %q into %s: sonic err=%v, encoding/json err=%v", text, os.Getenv("VERIF_T3_TYPE"), e1, e2))
	if e1 == nil && e2 == nil {
		v.Assert(reflect.DeepEqual(a, b), fmt.Sprintf("decoded values differ for %q", text))
	}
}

func verifT3Decode(text string) (val interface{}, err error, pan interface{}) {
	defer func() {
		if r := recover(); r != nil {
			pan = r
		}
	}()
	err = ConfigStd.UnmarshalFromString(text, &val)
	return
}

// verifT3GenericTables: a structural character must mean the same with and without white
// space before it (the generic decoder reaches it through two different dispatch tables).
func verifT3GenericTables() {
	_ = v.Uint64("byte")
	var docs []string
	for _, t := range []string{`[1@,2]`, `{"a"@:1}`, `@[1]`, `[@[1]]`, `[1@]`, `{"a":1@}`, `@{"a":1}`, `[@{"a":1}]`, `[1@2]`, `[1@:2]`, `{"a"@,1}`, `{"a"@1}`, `[1@}`, `{"a":1@]`} {
		for _, ws := range []string{"", " ", "    ", "     ", " \t\n\r \t\n\r ", "                                                                    "} {
			docs = append(docs, strings.Replace(t, "@", ws, 1))
		}
	}
	for _, d := range docs {
		a, e1, pan := verifT3Decode(d)
		v.Assert(pan == nil, fmt.Sprintf("decoding %q into interface{} panicked: %v", d, pan))
		var b interface{}
		e2 := json.Unmarshal([]byte(d), &b)
		v.Assert((e1 == nil) == (e2 == nil), fmt.Sprintf("sonic and encoding/json disagree on accepting %q into interface{}: sonic err=%v, encoding/json err=%v", d, e1, e2))
		if e1 == nil && e2 == nil {
			v.Assert(reflect.DeepEqual(a, b), fmt.Sprintf("decoded values differ for %q", d))
		}
	}
}

// verifT3GenericDepth: documents nested to the depth of the counterexample (and its
// neighbours), entered through object keys and through array elements, with one more sibling
// in the outermost container so that the root slot is used again afterwards: no panic, and a
// successful decode equals encoding/json's.
func verifT3GenericDepth() {
	_ = v.Uint64("handler")
	d := int(v.Uint64("depth"))
	rep := func(s string, n int) string {
		b := make([]byte, 0, len(s)*n)
		for i := 0; i < n; i++ {
			b = append(b, s...)
		}
		return string(b)
	}
	for n := d; n <= d+2; n++ {
		if n < 2 {
			continue
		}
		docs := []string{
			rep(`{"a":`, n) + `null` + rep(`}`, n-1) + `,"b":1}`,
			`[` + rep(`{"a":`, n-1) + `null` + rep(`}`, n-1) + `,1]`,
			rep(`[`, n) + `null` + rep(`]`, n-1) + `,1]`,
			`{"a":` + rep(`[`, n-1) + `null` + rep(`]`, n-1) + `,"b":1}`,
		}
		for _, doc := range docs {
			a, e1, pan := verifT3Decode(doc)
			v.Assert(pan == nil, fmt.Sprintf("decoding a document nested %d deep into interface{} panicked: %v", n, pan))
			if e1 == nil {
				var b interface{}
				e2 := json.Unmarshal([]byte(doc), &b)
				v.Assert(e2 == nil && reflect.DeepEqual(a, b), fmt.Sprintf("document nested %d deep decoded to a different value than encoding/json's", n))
			}
		}
	}
}
