//go:build verif

package utf8

import (
	"github.com/bytedance/sonic/internal/native/types"
	v "github.com/bytedance/sonic/internal/zzverif"
)

// contract stub of native.ValidateUTF8(s, p, m): scans s[*p:], appends the positions of invalid
// bytes (strictly increasing) to m.Vt[m.Sp..], advances *p to the end and returns 0 -- or
// stops early with a non-zero code when the position list is "full" (here: after at most 2
// entries per call, an over-approximation that exercises the refill path with short inputs).
type verifUTF8Log struct {
	invalid []bool // ghost: which positions the native reports as invalid
}

var verifU *verifUTF8Log

func verifValidateUTF8(s *string, p *int, m *types.StateMachine) int {
	n := len(*s)
	added := 0
	for i := *p; i < n; i++ {
		if verifU.invalid[i] {
			if added == 2 {
				*p = i
				return 1 // list full: caller must flush and resume at i
			}
			m.Vt[m.Sp] = i
			m.Sp++
			added++
		}
	}
	*p = n
	return 0
}

// VerifC20CorrectWith: utf8.CorrectWith replaces exactly the bytes the validator reports with
// repl, keeps every other byte in order, and appends to dst (prefix preserved), including across
// refills of the position list.
func VerifC20CorrectWith() {
	v.Stub("github.com/bytedance/sonic/internal/native.ValidateUTF8", verifValidateUTF8)
	n := v.Concretize(v.Int("n", 0, 4))
	src := v.Bytes("src", n)
	verifU = &verifUTF8Log{invalid: make([]bool, n)}
	for i := 0; i < n; i++ {
		verifU.invalid[i] = v.Bool("invalid")
	}
	dst := []byte{'p'}
	out := CorrectWith(dst, src, "RR")
	if !v.Symbolic() {
		// native oracle: the model's pattern of valid / invalid positions, repeated until the
		// real position list (4096 entries) overflows several times; invalid = 0xFF, valid =
		// ASCII letters, so the reference is byte-wise replacement
		pat := make([]byte, 0, n)
		for i := 0; i < n; i++ {
			if verifU.invalid[i] {
				pat = append(pat, 0xFF)
			} else {
				pat = append(pat, byte('a'+i))
			}
		}
		for _, k := range []int{1, 1365, 1366, 2047, 2048, 2049, 4096, 4097, 9000} {
			var in, ref []byte
			ref = append(ref, 'p')
			for r := 0; r < k; r++ {
				in = append(in, pat...)
				for _, c := range pat {
					if c == 0xFF {
						ref = append(ref, 'R', 'R')
					} else {
						ref = append(ref, c)
					}
				}
			}
			got := CorrectWith([]byte{'p'}, in, "RR")
			v.Assert(string(got) == string(ref), "CorrectWith differs from byte-wise replacement on a long input (position list refilled)")
		}
		return
	}
	want := []byte{'p'}
	for i := 0; i < n; i++ {
		if verifU.invalid[i] {
			want = append(want, 'R', 'R')
		} else {
			want = append(want, src[i])
		}
	}
	v.Assert(len(out) == len(want), "CorrectWith output has the wrong length")
	if len(out) == len(want) {
		for i := range want {
			v.Assert(out[i] == want[i], "CorrectWith output differs from byte-wise replacement at the reported positions")
		}
	}
	if n == 4 {
		v.Cover("long")
	}
	v.Cover("end")
}
