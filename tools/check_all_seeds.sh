#!/bin/bash
# applies every stored seeded defect in turn and runs the check that is documented to catch it
# (DESIGN.md 9.3); prints one line per seed: expected exit=1 (violation) for all but C09 (root cause repaired)
while read id prop filt; do
  [ -z "$id" ] && continue
  out=$(/verif/tools/try_seed.sh $id $prop $filt 2>&1 | tail -1)
  echo "$id $prop $filt -> $out"
done <<'TAB'
C01 C01 lspace
C02 C02 gentable
C03 C03 IsValidNumber
C04 C04 HtmlEscapeRestarts
C05 C05 SkipBlank
C06 C06 StreamDecodeCopy
C07 C07 gendepth
C08 C08 EncodeOwnership
C09 C09 LoadMany
C11 C11 StructEscapedKey
C12 C12 VMRecurseFlags
C13 C13 Dispatch
C14 C14 BigObjectGet
C15 C15 ArrayOps
C16 C16 LoadedReads
C17 C17 StreamDecode3
C18 C18 EncodeJsonMarshaler
C19 C19 f32range
C20 C20 QuoteLoop
C01b C01 dec_array2_int:array
C02b C02 dec_struct_s1
C03b C03 EncodeJsonMarshaler
C04b C03 IsValidNumber
C05b C05 QuoteRestarts
C06b C06 enc_string
C07b C07 CalcBounds
C08b C08 BuildPool
C09b C09 CompileStruct
C11b C11 SliceBytes
C12b C12 QuoteLoop
C13b C13 UseTables
C14b C14 LazyHistory
C15b C15 ObjectOps
C16b C16 SearcherConcurrent
C17b C17 StreamDecodeCopy
C18b C18 structopts
C19b C19 dec_uint32
C20b C20 CorrectWith
C01c C01 struct_empty
C02c C02 ValidTrailing
C03c C03 enc_map
C04c C04 enc_string
C05c C05 genblank
C06c C06 UnmarshalCopies
C07c C07 enctoodeep
C08c C08 StackPoolClean
C09c C09 PcacheStep4
C11c C11 EfaceFastGate
C12c C12 VMMarshalerFlags
C13c C13 dec_bytes_noavx2
C14c C14 UseNumberViews
C15c C15 ObjectOps
C17c C17 StreamDecode3
C18c C18 EncodeFinish
C19c C19 NodeFloat64
C20c C04 enc_string
C01d C01 enc_tag_
C02d C02 GetValidates
C03d C03 enc_slice_ptrmarshaler
C04d C04 enc_omit_float
C06d C06 GetCopies
C07d C07 PreorderTruncated
C15d C15 BigObjectSort
C17d C17 StreamDecode3
C05d C05 mapkey
C11d C11 ArrayShort
C12d C12 VMNumber
C14d C14 PreorderSkip
C18d C18 StreamEncodeIndent
C19d C19 dec_float32
C03e C20 HtmlEscapeRestarts
C04e C18 EncodeJsonMarshaler
C08e C08 FieldMapReadOnly
C11e C11 ParserPoolClean
C13e C13 validate_utf8
C18e C18 ParseKeepsOptions
C19e C19 SkipNumberFast
C20e C18 dec_generic:unquoteflags
TAB
