#!/bin/bash
# confirm_seed.sh <id> : re-checks a seeded defect produced by a sub-agent in its scratch worktree
# (/tmp/wt/<id>, patch applied): build, demo fails with the patch and passes without, the packages
# the patch touches plus the root package still pass; then stores it under /verif/seeded/<id>/ and
# removes the worktree.
set -u
id=$1; wt=/tmp/wt/$id; out=/tmp/seed_out/$id; dst=/verif/seeded/$id
export GOPROXY=off GOSUMDB=off GOTOOLCHAIN=local GOFLAGS=
log=/tmp/confirm_$id.log; : > $log
demo=$(ls $out/*_test.go | head -1)
run=$(grep -ho "\-run [A-Za-z0-9_]*" $out/DEMO.md | head -1 | cut -d' ' -f2)
cd $wt || exit 2
git diff > /tmp/confirm_$id.diff
cmp -s /tmp/confirm_$id.diff $out/patch.diff || echo "NOTE: worktree diff differs from patch.diff" >> $log
go build ./... >> $log 2>&1 || { echo "BUILD FAILED" >> $log; exit 1; }
cp $demo $wt/zz_confirm_demo_test.go
go test -vet=off -count=1 -run "$run" . > /tmp/confirm_$id.with 2>&1; with=$?
git apply -R $out/patch.diff
go test -vet=off -count=1 -run "$run" . > /tmp/confirm_$id.without 2>&1; without=$?
git apply $out/patch.diff
rm -f $wt/zz_confirm_demo_test.go
echo "demo with patch exit=$with (expect !=0), without patch exit=$without (expect 0)" >> $log
# affected packages + root
pk=$(git diff --name-only | xargs -n1 dirname | sort -u | sed 's#^#./#' | tr '\n' ' ')
suite_ok=1
for p in $pk . ; do
  case $p in ./loader*) (cd loader && go test -vet=off -count=1 ./... >> $log 2>&1) || suite_ok=0;;
  *) go test -vet=off -count=1 $p >> $log 2>&1 || suite_ok=0;; esac
done
echo "affected-package tests with patch ok=$suite_ok" >> $log
if [ $with -ne 0 ] && [ $without -eq 0 ] && [ $suite_ok -eq 1 ]; then
  mkdir -p $dst; cp $out/patch.diff $dst/; cp $demo $dst/; cp $out/DEMO.md $dst/ 2>/dev/null
  python3 - "$id" "$out" "$dst" "$with" "$without" <<'PY'
import json,sys
id,out,dst,w,wo=sys.argv[1:6]
m=json.load(open(out+'/meta.json'))
m['confirmed_by_verif']={'demo_exit_with_patch':int(w),'demo_exit_without_patch':int(wo),'affected_package_tests_with_patch':'pass','agent_full_suite':'see ran[] (run by the sub-agent in its scratch worktree)'}
json.dump(m,open(dst+'/meta.json','w'),indent=1)
PY
  echo CONFIRMED >> $log
else
  echo "NOT CONFIRMED" >> $log
fi
cd /; git -C /repo worktree remove --force $wt >> $log 2>&1
tail -4 $log
