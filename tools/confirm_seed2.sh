#!/bin/bash
# confirm_seed2.sh <id> <demo-dir> : as confirm_seed.sh for second-round seeds (demo named TestSeededDemo,
# placed in <demo-dir> of the scratch worktree /tmp/wt/<id>, which is in the patched state).
set -u
id=$1; ddir=$2; dflags=${3:-}; wt=/tmp/wt/$id; out=/tmp/seed_out/$id; dst=/verif/seeded/$id
export GOPROXY=off GOSUMDB=off GOTOOLCHAIN=local GOFLAGS=
log=/tmp/confirm_$id.log; : > $log
cd $wt || exit 2
git diff > /tmp/confirm_$id.diff
cmp -s /tmp/confirm_$id.diff $out/patch.diff || echo "NOTE: worktree diff differs from patch.diff" >> $log
go build ./... >> $log 2>&1 || { echo "BUILD FAILED" >> $log; exit 1; }
cp $out/demo_test.go $wt/$ddir/zz_confirm_demo_test.go
go test -vet=off -count=1 $dflags -run TestSeededDemo $ddir > /tmp/confirm_$id.with 2>&1; with=$?
git apply -R $out/patch.diff
go test -vet=off -count=1 $dflags -run TestSeededDemo $ddir > /tmp/confirm_$id.without 2>&1; without=$?
git apply $out/patch.diff
rm -f $wt/$ddir/zz_confirm_demo_test.go
echo "demo with patch exit=$with (expect !=0), without patch exit=$without (expect 0)" >> $log
pk=$(git diff --name-only | xargs -n1 dirname | sort -u | sed 's#^#./#' | tr '\n' ' ')
suite_ok=1
for p in $pk . ; do
  case $p in ./loader*) (cd loader && go test -vet=off -count=1 ./... >> $log 2>&1) || suite_ok=0;;
  *) go test -vet=off -count=1 -timeout 30m $p >> $log 2>&1 || suite_ok=0;; esac
done
echo "affected-package tests with patch ok=$suite_ok" >> $log
if [ $with -ne 0 ] && [ $without -eq 0 ] && [ $suite_ok -eq 1 ]; then
  mkdir -p $dst; cp $out/patch.diff $dst/; cp $out/demo_test.go $dst/
  python3 - "$id" "$out" "$dst" "$with" "$without" "$ddir" <<'PY'
import json,sys
id,out,dst,w,wo,dd=sys.argv[1:7]
m=json.load(open(out+'/meta.json'))
m['demo_dir']=dd
m['confirmed_by_verif']={'demo_exit_with_patch':int(w),'demo_exit_without_patch':int(wo),'affected_package_tests_with_patch':'pass','agent_full_suite':'see ran[] (run by the sub-agent in its scratch worktree)'}
json.dump(m,open(dst+'/meta.json','w'),indent=1)
PY
  echo CONFIRMED >> $log
else
  echo "NOT CONFIRMED" >> $log
fi
cd /; git -C /repo worktree remove --force $wt >> $log 2>&1
tail -4 $log
