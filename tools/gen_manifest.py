#!/usr/bin/env python3
"""Generates /verif/MANIFEST.json from the table below (kept in one place so it stays valid)."""
import json, sys
SETUP = "cd /verif/engine && GOFLAGS=-mod=mod GOPROXY=off GOSUMDB=off GOTOOLCHAIN=local go build -o /verif/bin/vcheck ./cmd/vcheck"
BASE_OFF = "cd /repo && for m in . ./external_jsonlib_test ./fuzz ./generic_test ./issue_test ./loader; do (cd $m && GOPROXY=off GOSUMDB=off GOTOOLCHAIN=local go test -vet=off -count=1 -timeout 25m ./...) || exit 1; done"

# property -> (level text, level note, technique) ; only properties with registered harnesses are claimed
CLAIMED = {
 "C18": ("Bounded symbolic model checking of the real Go code that turns configuration switches into option bits: Config.Froze is executed symbolically from go/ssa with all Config booleans as solver variables and the resulting encoder/decoder option words are compared (by z3, for every configuration at once) with the documented field->option table.",
         "Trusted: my go/ssa->SMT executor, z3, the field->option-name table written in the harness (names only; constant values are read from the tree). Outside: effect of the bits inside generated code/natives.",
         "go/ssa symbolic execution + z3 (QF_BV), bounded; counterexamples replayed natively"),
}
NA = {
 "C10": "needs a model of the Go collector / stack copier / unwinder against pointer liveness in JIT-emitted machine code; not encodable with the installed tools (DESIGN.md 3.10, 5)",
}
PENDING = "check not built yet in this session (see DESIGN.md section 3 for the plan); not claimed until it runs clean"

def main():
    props=[json.loads(l)["id"] for l in open("/verif/properties.jsonl")]
    checks=[]; na=[]
    for p in props:
        if p in CLAIMED:
            text,note,tech=CLAIMED[p]
            checks.append({
              "property_id":p,
              "quick_cmd":"/verif/bin/vcheck -prop %s -tier quick"%p,
              "thorough_cmd":"/verif/bin/vcheck -prop %s -tier thorough"%p,
              "evidence_file":"/verif/evidence/%s.json"%p,
              "replay_cmd_template":"/verif/bin/vcheck -replay {path}",
              "engine":"gosym",
              "level_claimed":{"category":"model_checking","text":text,"design_ref":"DESIGN.md section 3 (%s)"%p},
              "level_note":note,
              "technique":tech})
        else:
            na.append({"property_id":p,"reason":NA.get(p,PENDING)})
    m={"version":1,"setup_cmd":SETUP,
       "hooks":{"guard":"verif","enable":"harness files carry //go:build verif and are injected with go/packages Overlay / go test -overlay -tags verif; /repo itself carries no hook code","baseline_off_cmd":BASE_OFF,"source_commits":[],"add_only":True},
       "engines":[{"name":"gosym","path":"/verif/engine/gosym","serves_properties":sorted(CLAIMED),"kind_free_text":"bounded symbolic executor for go/ssa (x/tools v0.29.0) producing SMT-LIB2 bit-vector queries for z3; harnesses in /verif/harness are overlaid into /repo packages at load time"}],
       "checks":checks,"not_applicable":na,
       "notes":"Exit codes of vcheck: 0 held / only known findings, 1 replayed violation, 2 broken check (load failure, vacuous harness). Violations are printed only after native replay against /repo's working tree."}
    json.dump(m,open("/verif/MANIFEST.json","w"),indent=1)
    print("claimed:",sorted(CLAIMED),"n/a:",len(na))
main()
