#!/usr/bin/env python3
"""Generates /verif/MANIFEST.json from the table below (kept in one place so it stays valid)."""
import json, sys
SETUP = "cd /verif/engine && GOFLAGS=-mod=mod GOPROXY=off GOSUMDB=off GOTOOLCHAIN=local go build -o /verif/bin/vcheck ./cmd/vcheck"
BASE_OFF = "cd /repo && for m in . ./external_jsonlib_test ./fuzz ./generic_test ./issue_test ./loader; do (cd $m && GOPROXY=off GOSUMDB=off GOTOOLCHAIN=local go test -vet=off -count=1 -timeout 25m ./...) || exit 1; done"

# property -> (level text, level note, technique) ; only properties with registered harnesses are claimed
TECH = "bounded symbolic execution of the real Go code (go/ssa -> SMT-LIB2 bit-vectors, z3); counterexamples replayed natively"
TRUST = "Trusted: my go/ssa->SMT executor (gosym), z3 4.8.12, the harness oracles under /verif/harness. "
T3 = " Generated decoders are reached through Tier 3: the instruction lists the repository's JIT assembler emits are dumped at check time and executed symbolically (engine/gosym/asm.go)."
CLAIMED = {
 "C01": ("Partial. Decided by the solver for all inputs in the bound: the trailing-data rule of Unmarshal (Decoder.CheckTrailings) against the real encoding/json.isSpace executed from stdlib SSA; struct field selection (caching.FieldMap: exact match first, then case-insensitive, first declared field wins) for 1..2 fields; the white-space skipper of the generated int64 decoder skips exactly JSON white space for all inputs up to 6 bytes; the whole generated [2]int program is functionally correct on all texts up to 7 bytes (parsed elements hold their integer, null keeps, the rest is zeroed)."+T3,
         TRUST+"Trusted for Tier 3: golang-asm assembles the dumped list faithfully; my Plan 9 x86 semantics. Outside: the rest of the generated decoders (field dispatch, string/number opcodes), natives (DESIGN 3.1, 9.1).", TECH+"; Tier 3: symbolic execution of the dumped JIT instruction lists"),
 "C02": ("Partial. ast.NewRaw accepts exactly one value followed only by JSON spaces (Go wrapper rule), decided for all documents of the family; in generated decoders no byte other than JSON white space is skipped between tokens ([]int program), and the generic interface{} decoder dispatches each structural character , : [ ] { } to the same handler on its inline fast path and on the path through native value() (both dispatch tables read from the dumped program); a token monitor on the whole generated struct decoder shows that every error-free path consumed a token sequence that spells valid JSON (texts up to 16 bytes, no white space)."+T3,
         TRUST+"Assumes the native skip_one behaves like ast/decode.go skipValue and native value() reports the token codes of native/types (replays use the real natives). Outside: the native validators' machine code, Valid/Skip/Get wrappers.", TECH+"; Tier 3: symbolic execution of the dumped JIT instruction lists"),
 "C03": ("Partial. alg.IsValidNumber == the real encoding/json.isValidNumber for every string up to 6 bytes (both executed symbolically; one side from stdlib SSA); the encoder's post-passes (encodeFinish: EscapeHTML, newline) are applied exactly as the option word says; SortMapKeys: insertRadixSort / radixQsort / heapSort sort ascending and permute pairs intact on bounded key sets; under CompactMarshaler a Marshaler's output is accepted exactly when json.Compact accepts it.",
         TRUST+"Outside: encoder programs, map-key sorting, JIT output, floats.", TECH),
 "C04": ("Partial. Invalid output of a user Marshaler is rejected unless validation is explicitly disabled, for every 64-bit option word (prim.EncodeJsonMarshaler).",
         TRUST+"json.Compact/alg.Valid are stubs that state their behaviour on the three sample outputs; replays use the real functions. Outside: float round-trip, quote/unquote inverse, NaN/Inf paths.", TECH),
 "C05": ("Partial (Go side). Every raw-pointer byte load of the repository's pure-Go scanners (skipBlank, skipString, utils.SkipNumber, skipValue/skipValueFast and what they call) lies inside the input object, for all inputs up to 3-4 bytes and all start offsets; the engine's string object has exactly len(s) readable bytes, natively the input ends at a page edge followed by PROT_NONE.",
         TRUST+"Outside: the native routines' machine code (both SIMD levels), the JIT's inline scanners, alignment effects.", TECH),
 "C08": ("Partial. The program cache's RCU discipline decided on one symbolic execution from an arbitrary valid cache state: Get stores nothing; Compute never modifies published data except by the atomic publication (copy-on-write) -- sufficient for race freedom and before/after atomicity of Get vs Compute under every interleaving. Buffer pool: a buffer handed to a caller is never also pool-owned (limit boundary included).",
         TRUST+"Sequentially consistent atomics, lock-set model of sync.Mutex. Outside: first-use compilation races in the reflect/JIT layers, loader registration, other pools.", TECH+" + shared-state (freeze) discipline on the store log"),
 "C11": ("Partial. The alternative decoder's value-conversion layer on arbitrary well-typed DOM nodes: all integer functors (exact value, range errors, null untouched) for all 2^64 payloads; float32 acceptance iff the rounded value is finite (SMT FP theory); struct field lookup with an escaped key on the DOM the native parser produces; []byte from the unescaped text of an escaped base64 string; rt.DecodeBase64 never overruns or panics.",
         TRUST+"The DOM given to the functors is what parse_with_padding builds (assumption). Outside: the native DOM parser, map/slice/interface functors, reflective set-up.", TECH),
 "C16": ("Sufficient condition for every interleaving of readers, decided per ordered pair of read operations on one symbolic execution: on a loaded node (3 and 17 members) no read operation stores to any pre-existing object; on a NewRawConcurrentRead node every store to shared state happens inside the node's write lock.",
         TRUST+"Lock-set / freeze model (no weak memory); violations are reported from the symbolic run without native replay (a data race is not observable sequentially). Outside: unlocked READS of (t,l,p) racing with the locked conversion, 3+ threads are covered only through the sufficient condition.", TECH+" + shared-state (freeze) discipline on the store log"),
 "C19": ("Partial: integer exactness and float32 range, in the optdec functors and in the generated decoders (float32, int8, uint32 programs, uint32 map keys): exact to every width, out-of-range rejected without wrapping, float32 accepted iff the correctly rounded value is finite and that value stored, for all 2^64 payloads the native parser can report."+T3,
         TRUST+"The native number parsers are contracts (arbitrary result of their type). Declined: float64 parse/format exactness (64x64->128 multiplications by table constants: unknown at 60 s on all three solvers), native vsigned/vunsigned/atof machine code.", TECH+"; Tier 3: symbolic execution of the dumped JIT instruction lists (SMT floating-point theory for CVTSD2SS/UCOMISS)"),
 "C06": ("Ownership of returned buffers decided with ghost pool state: encoder.Encode's result is never pool-owned, never aliased or changed by the next call, on both sides of the pool size limit and for every pool history of length 1; EncodeInto preserves the caller's prefix and stays inside the buffer; StreamDecoder hands the decoder a private copy for every option word. Generated code (Tier 3): buffer-bounds monitor on the encoder programs for string, `,string`, all integer widths, floats and bool (every store and every native window inside the symbolic capacity), and base64 buffer capacity in the generated []byte decoder.",
         TRUST+"The per-type codec is a stub appending arbitrary bytes; sync.Pool.Get returns New() or any earlier Put (nondeterministic). Natives called from generated code are size contracts (quote <= *dn, i64toa = digits of the value, f64toa <= 24, f32toa <= 15, base64 <= 3*len/4). Outside: container encoders (slices, maps, structs with several fields), Unmarshal/Get copies.", TECH+"; Tier 3: symbolic execution of the dumped JIT instruction lists"),
 "C07": ("Partial. No panic and bounded excerpts in error formatting for every source length and every int64 position (calcBounds, SyntaxError/MismatchTypeError formatting, ast error description); Node.UnmarshalJSON on short input; encoder.HTMLEscape for every destination geometry; encoder stack limit; rt.DecodeBase64 buffer sizing (no panic for any text up to 7 bytes); and, on the generated generic decoder, one inductive step over the nesting depth: from every legal depth each state-pushing handler either reports stack overflow or stores inside the real Vt/Vp arrays."+T3,
         TRUST+"fmt.Sprintf is opaque; memory other than the state stack is angelic in the depth check. Outside: typed generated decoders' stack, native recursion limits, hangs.", TECH+"; Tier 3: symbolic execution of the dumped JIT instruction lists"),
 "C09": ("Partial, inductive: one _ProgramMap.add from an arbitrary valid cache state (all occupancy patterns, symbolic hashes) keeps every existing binding, finds the new key, never finds absent keys (equal hash is not equal type), copy-on-write; covers histories of any length that keep the invariant.",
         TRUST+"Representation invariant stated in the harness. Also: loader.Load maps results to its inputs for every name-equality pattern; encoder program lookup as a function of (type, pointer-value flag) - open known finding F9. Outside: compile decisions.", TECH),
 "C12": ("Partial. The Go number wrappers of the VM encoder (alg.F64toa/F32toa) append exactly what the native routine (called directly by the JIT) prints, for all 2^64 / 2^32 bit patterns and buffer geometries; the Go quote fallback (alg.Quote) writes the delimiters of single and double quoting exactly once, empty string included.",
         TRUST+"Native f64toa/f32toa are uninterpreted functions of the bit pattern with the facts for +-0 and NaN/Inf. Outside: whole programs VM vs JIT (needs JIT code), flag tests.", TECH),
 "C13": ("Partial: dispatch wiring only. useSSE()/useAVX2() bind each of the 17 native subroutine addresses and 15 Go entry points to the same-named symbol of the selected instruction-set package (executed symbolically with unique markers on every symbol; natively compared against the real package variables).",
         TRUST+"Outside: equivalence of the SSE and AVX2 machine code itself (needs the x86 engine), cpu feature detection.", TECH),
 "C14": ("Partial. Node.Get / Index / Searcher.GetByPath on skeleton document families with symbolic keys (duplicates included, 3-member and 17-member objects crossing the hash-index threshold, lazy and fully loaded): the located node is the first occurrence and Raw()/Int64() describe it, for every SearchOptions combination; on a 20-member lazy object the answer of Get/IndexOrGet does not depend on which prefix earlier reads made the node load.",
         TRUST+"Natives are represented by the repository's pure-Go scanners (what non-amd64 builds run); strhash is an injective uninterpreted function (64-bit collisions outside the bound). Outside: native get_by_path machine code, Preorder, larger documents.", TECH),
 "C15": ("Bounded histories: all sequences of 2 operations (symbolic arguments) over Set/Unset/Get resp. SetByIndex/UnsetByIndex/Add/Pop on 3-member containers starting raw, lazy or loaded, compared with an ordered model after every step; lazy vs loaded 17-member object.",
         TRUST+"Same native models as C14. Outside: Move/SortKeys, longer histories, nested mutation, Len on partially loaded nodes (documented deviation).", TECH),
 "C17": ("StreamDecoder (Decode/More/readMore/peek/scan/refill/realloc) against framing the concatenated stream, for every way a Reader can cut a 3-byte stream (empty reads, data+EOF, injected error at any offset); StreamEncoder error propagation for every Writer behaviour; values already returned cannot change later (the decoder works on a private copy of the framed text).",
         TRUST+"native.SkipOneFast is a reference model transcribed from native/scanning.h (scalar paths); the decoder/codec are stubs. Known finding F4 (number cut by a Read boundary) is reported, not repaired.", TECH),
 "C18": ("Partial. Config.Froze for all configurations at once; prim.EncodeJsonMarshaler/EncodeTextMarshaler: the three marshaler switches have exactly their documented effect for every 64-bit option word; every Encoder setter flips exactly its own bit; VM empty-slice/map opcodes and encodeFinish obey their option bits only; in the generated struct decoder the struct-key opcode gives DisallowUnknownFields and CaseSensitive exactly their documented effect for every option word and lookup outcome (Tier 3).",
         TRUST+"The field->option-name table in the harness (names only). Outside: bits tested inside generated code and natives.", TECH),
 "C20": ("Partial. The restartable quote / html-escape loops (alg.Quote, alg.HtmlEscape): every input byte consumed once, in order, into contiguous output inside the capacity, prefix preserved, flags passed, no panic, for every buffer geometry class and every escape-size pattern of inputs up to 3 bytes; utf8.CorrectWith repairs exactly the invalid bytes.",
         TRUST+"The native routines are modelled by their size behaviour (greedy, escape-size tables from native/parsing.h); natively the output is checked against encoding/json. Outside: the natives' machine code, unquote, utf8.", TECH),
}
NA = {
 "C10": "needs a model of the Go collector / stack copier / unwinder against pointer liveness in JIT-emitted machine code; not encodable with the installed tools (DESIGN.md 3.10, 5)",
}
PENDING = "check not built yet in this session (see DESIGN.md section 3 for the plan); not claimed until it runs clean"

def main():
    props=[json.loads(l)["id"] for l in open("/verif/properties.jsonl")]
    checks=[]; na=[]
    for p in props:
        if p in CLAIMED:
            text,note,tech=CLAIMED[p]
            checks.append({
              "property_id":p,
              "quick_cmd":"/verif/bin/vcheck -prop %s -tier quick"%p,
              "thorough_cmd":"/verif/bin/vcheck -prop %s -tier thorough"%p,
              "evidence_file":"/verif/evidence/%s.json"%p,
              "replay_cmd_template":"/verif/bin/vcheck -replay {path}",
              "engine":"gosym",
              "level_claimed":{"category":"model_checking","text":text,"design_ref":"DESIGN.md section 3 (%s)"%p},
              "level_note":note,
              "technique":tech})
        else:
            na.append({"property_id":p,"reason":NA.get(p,PENDING)})
    m={"version":1,"setup_cmd":SETUP,
       "hooks":{"guard":"verif","enable":"harness files carry //go:build verif and are injected with go/packages Overlay / go test -overlay -tags verif; /repo itself carries no hook code","baseline_off_cmd":BASE_OFF,"source_commits":[],"add_only":True},
       "engines":[{"name":"gosym","path":"/verif/engine/gosym","serves_properties":sorted(CLAIMED),"kind_free_text":"bounded symbolic executor for go/ssa (x/tools v0.29.0) and for the Plan 9 x86 instruction lists dumped from the repository's JIT assemblers, producing SMT-LIB2 bit-vector / floating-point queries for z3; harnesses in /verif/harness are overlaid into /repo packages at load time"}],
       "checks":checks,"not_applicable":na,
       "notes":"Exit codes of vcheck: 0 held / only known findings, 1 replayed violation, 2 broken check (load failure, vacuous harness). Violations are printed only after native replay against /repo's working tree."}
    json.dump(m,open("/verif/MANIFEST.json","w"),indent=1)
    print("claimed:",sorted(CLAIMED),"n/a:",len(na))
main()
