#!/bin/bash
# runs the quick command of every claimed property (as MANIFEST.json registers them) and summarises
cd /verif
tier=${1:-quick}
for p in $(python3 -c "import json;print(' '.join(c['property_id'] for c in json.load(open('MANIFEST.json'))['checks']))"); do
  t0=$(date +%s)
  ./bin/vcheck -prop $p -tier $tier > /tmp/runall_$p.log 2>&1; rc=$?
  t1=$(date +%s)
  echo "$p exit=$rc $((t1-t0))s $(grep -c '^VIOLATION' /tmp/runall_$p.log) violations, $(grep -c 'KNOWN-FINDING' /tmp/runall_$p.log) known, $(grep -c 'INCONCLUSIVE\|VACUOUS' /tmp/runall_$p.log) inconclusive/vacuous"
done
