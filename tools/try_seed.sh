#!/bin/bash
# try_seed.sh <seed-id> <prop> [harness-filter]: apply a stored seeded defect to /repo, run the quick check, undo.
# The evidence file of the property is saved and restored: evidence must describe runs on the unchanged tree only.
id=$1; prop=$2; filt=${3:-}
cd /repo || exit 2
git apply --check /verif/seeded/$id/patch.diff || { echo "PATCH DOES NOT APPLY"; exit 2; }
git apply /verif/seeded/$id/patch.diff
cd /verif
[ -f evidence/$prop.json ] && cp evidence/$prop.json /tmp/evidence_$prop.save
if [ -n "$filt" ]; then timeout 900 ./bin/vcheck -prop $prop -tier quick -harness "$filt"; else timeout 900 ./bin/vcheck -prop $prop -tier quick; fi
rc=$?
[ -f /tmp/evidence_$prop.save ] && mv /tmp/evidence_$prop.save evidence/$prop.json
git -C /repo checkout -- .
echo "exit=$rc  (repo status: $(git -C /repo status --short | wc -l) changed files)"
