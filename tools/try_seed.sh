#!/bin/bash
# try_seed.sh <seed-id> <prop> [harness-filter]: apply a stored seeded defect to /repo, run the quick check, undo.
id=$1; prop=$2; filt=${3:-}
cd /repo || exit 2
git apply --check /verif/seeded/$id/patch.diff || { echo "PATCH DOES NOT APPLY"; exit 2; }
git apply /verif/seeded/$id/patch.diff
cd /verif
if [ -n "$filt" ]; then timeout 3000 ./bin/vcheck -prop $prop -tier quick -harness "$filt"; else timeout 3000 ./bin/vcheck -prop $prop -tier quick; fi
rc=$?
git -C /repo checkout -- .
echo "exit=$rc  (repo status: $(git -C /repo status --short | wc -l) changed files)"
